//! C17 — captured output is faithful; one well-formed task lifecycle.
//! (a) direct drive of TaskLogWriter / read_artifact_range / artifact_fetch / truncate_utf8 /
//!     pump_output_stream / capture_stream with generated chunkings, compared with coq/Model/Capture.v;
//! (b) real tasks through the router and real `bash` tool runs, checked by the independent oracle and
//!     (kind sequences, chunking-independent captures) by the model.
use rv::*;
use serde_json::{json, Value};
use sha2::{Digest, Sha256};
use std::collections::VecDeque;
use std::path::{Path, PathBuf};
use std::pin::Pin;
use std::sync::Arc;
use std::task::{Context, Poll};
use std::time::Duration;
use tokio::io::{AsyncRead, ReadBuf};

type Segs = Vec<(Vec<u8>, u64)>;

fn expand(segs: &Segs) -> Vec<u8> {
    let mut v = vec![];
    for (p, n) in segs {
        for _ in 0..*n {
            v.extend_from_slice(p);
        }
    }
    v
}
/// mirror of `split_sizes` in the model
fn split_sizes(sizes: &[u64], content: &[u8]) -> Vec<Vec<u8>> {
    let mut out = vec![];
    let mut rest = content;
    for n in sizes {
        let k = (*n as usize).min(rest.len());
        out.push(rest[..k].to_vec());
        rest = &rest[k..];
    }
    if !rest.is_empty() {
        out.push(rest.to_vec());
    }
    out
}
/// sizes that cover `len` exactly, every size in lo..=8192 (what a reader with an 8 KiB buffer can deliver)
fn normalize_sizes(sizes: &[u64], len: u64, lo: u64) -> Vec<u64> {
    let mut out = vec![];
    let mut left = len;
    for s in sizes {
        if left == 0 && lo > 0 {
            break;
        }
        let k = (*s).max(lo).min(8192).min(left.max(0));
        if k == 0 && lo > 0 {
            break;
        }
        out.push(k);
        left -= k;
    }
    while left > 0 {
        let k = left.min(8192);
        out.push(k);
        left -= k;
    }
    out
}
fn fnv(b: &[u8]) -> u64 {
    let mut h: u64 = 0xcbf29ce484222325;
    for x in b {
        h ^= *x as u64;
        h = h.wrapping_mul(0x100000001b3);
    }
    h
}
fn sha_hex(b: &[u8]) -> String {
    let mut s = Sha256::new();
    s.update(b);
    hex::encode(s.finalize())
}

#[derive(Clone, Debug)]
enum Spec {
    LogWriter { cap: u64, content: Segs, sizes: Vec<u64> },
    Pages { content: Segs, reqs: Vec<(u64, u64)> },
    Walk { content: Segs, maxb: u64, fuel: u64 },
    Trunc { bs: Vec<u8>, maxb: u64 },
    Pump { cap: u64, plimit: u64, content: Segs, sizes: Vec<u64> },
    /// the PTY task's `emit_output`, once per chunk (what run_pty_task does with every read); compared with
    /// the same `pump` model as the pipes pump
    PtyPump { cap: u64, plimit: u64, content: Segs, sizes: Vec<u64> },
    Capture { pmax: u64, amax: u64, content: Segs, sizes: Vec<u64> },
    Lifecycle { codes: Vec<u64> },
    /// a schedule of the PTY waiter model (Model/TaskLifecycle.v `pact`), derived from the frames of a real PTY task
    PtyRun { sched: Vec<String> },
    /// a real background task through the router; variant: 0 normal, 1 unsupported tool, 2 invalid args,
    /// 3 post-spawn failure (absolute cwd), 4 shell exits while a background writer still holds stderr,
    /// 5/6/7 the shell exits at once and a descendant that inherited stdout (5) / stderr (6) / both (7)
    /// writes `err` `late_ms` milliseconds later (well over a second: the waiter must still join the pumps),
    /// 8 like 0 with an immediate cancel, but driven on a current-thread runtime: POST /tasks and POST cancel
    /// complete before the spawned run_task is polled for the first time (cancel before it subscribes),
    /// 9 Command::spawn fails (PATH without bash), 10 the artifacts dir cannot be created (`.rip` is a file;
    /// a world of its own), 11 a daemon that left the task's process group (setsid) holds stdout and writes
    /// `err` `late_ms` later while the task is cancelled: the kill does not reach it, the cancelled status
    /// still comes after its output
    Task { variant: u64, out: Segs, err: Segs, cap: u64, plimit: u64, exit: u64, cancel_after_ms: Option<u64>, page: u64, late_ms: u64 },
    /// a real foreground `bash` tool run; late_ms > 0: the shell exits at once and a descendant that holds
    /// both pipes writes `err` to stderr `late_ms` later (the tool's captures run to EOF)
    Bash { out: Segs, err: Segs, pmax: u64, amax: u64, exit: u64, late_ms: u64 },
    /// a real PTY task through the router (`execution_mode: pty`, run_pty_task); see `pty_command` for the shapes
    PtyTask(PtySpec),
}

#[derive(Clone, Debug, PartialEq)]
enum PtyOp {
    Stdin(Vec<u8>),
    Resize(u64, u64),
    Signal(String),
    Cancel,
}
/// when: 0 right after POST /tasks (the task may not have started), 1 while the command certainly runs (it
/// has touched its `started` marker and is blocked reading the terminal), 2 after the terminal status frame
#[derive(Clone, Debug, PartialEq)]
struct PtyStep {
    when: u64,
    op: PtyOp,
}
/// shape: 0 `cat o; [pause; cat e;] exit N` (bursts), 1 the shell exits while a daemon that left the session
/// holds the terminal and writes `err` `late_ms` later, 2 the command reads a line from the terminal (echo on,
/// or off when `raw`) and prints it back, 3 reads a line then prints `stty size`, 4 waits for a signal typed at
/// the terminal (trap) or sent by the killer, 5 `cat o` then blocks reading: cancelled while running,
/// 6 prints, then closes all three descriptors and lives on for a while (output ends before the process),
/// 7 Command spawn fails (PATH without bash), 8 cwd outside the workspace, 9 the log file cannot be created
/// (its path is a directory; current-thread runtime so that the harness gets there first), 10 like 0 on a
/// current-thread runtime with an immediate cancel (cancel before run_task subscribed)
#[derive(Clone, Debug, PartialEq)]
struct PtySpec {
    shape: u64,
    out: Segs,
    err: Segs,
    raw: bool,
    cap: u64,
    plimit: u64,
    exit: u64,
    ops: Vec<PtyStep>,
    page: u64,
    late_ms: u64,
    rows: u64,
    cols: u64,
}

fn coq_segs(s: &Segs) -> String {
    coq_list(s, |(p, n)| format!("({}, {})", coq_bytes(p), n))
}
fn coq_lev(c: u64) -> String {
    match c {
        0 => "LSpawned".into(),
        1 => "LRunning".into(),
        2 => "LCancelReq".into(),
        3 => "LCancelled".into(),
        10 | 11 | 12 => format!("LDelta {}", c - 10),
        c => format!("LStatus {}", c - 20),
    }
}
fn coq_spec(s: &Spec) -> String {
    match s {
        Spec::LogWriter { cap, content, sizes } => format!("CLogWriter {} {} {}", cap, coq_segs(content), coq_list_n(sizes)),
        Spec::Pages { content, reqs } => format!("CPages {} {}", coq_segs(content), coq_list(reqs, |(o, m)| format!("({o}, {m})"))),
        Spec::Walk { content, maxb, fuel } => format!("CWalk {} {} {}", coq_segs(content), maxb, coq_nat(*fuel)),
        Spec::Trunc { bs, maxb } => format!("CTrunc {} {}", coq_bytes(bs), maxb),
        Spec::Pump { cap, plimit, content, sizes } | Spec::PtyPump { cap, plimit, content, sizes } => format!("CPump {} {} {} {}", cap, plimit, coq_segs(content), coq_list_n(sizes)),
        Spec::Capture { pmax, amax, content, sizes } => format!("CCapture {} {} {} {}", pmax, amax, coq_segs(content), coq_list_n(sizes)),
        Spec::Lifecycle { codes } => format!("CLifecycle {}", coq_list(codes, |c| coq_lev(*c))),
        Spec::PtyRun { sched } => format!("CPtyRun {}", coq_list(sched, |a| a.clone())),
        Spec::Task { .. } | Spec::Bash { .. } | Spec::PtyTask(..) => unreachable!("real runs are compared through derived specs"),
    }
}
fn coq_case(s: &Spec, expect: &[u64]) -> String {
    format!("{{| c_spec := {}; c_expect := {} |}}", coq_spec(s), coq_list_n(expect))
}
fn segs_json(s: &Segs) -> Value {
    json!(s.iter().map(|(p, n)| json!({"pattern_hex": hex::encode(p), "reps": n})).collect::<Vec<_>>())
}
fn spec_json(s: &Spec) -> Value {
    match s {
        Spec::LogWriter { cap, content, sizes } => json!({"kind": "log_writer", "cap": cap, "content": segs_json(content), "sizes": sizes}),
        Spec::Pages { content, reqs } => json!({"kind": "pages", "content": segs_json(content), "reqs": reqs}),
        Spec::Walk { content, maxb, fuel } => json!({"kind": "walk", "content": segs_json(content), "max_bytes": maxb, "fuel": fuel}),
        Spec::Trunc { bs, maxb } => json!({"kind": "truncate_utf8", "bytes_hex": hex::encode(bs), "max_bytes": maxb}),
        Spec::Pump { cap, plimit, content, sizes } => json!({"kind": "pump", "cap": cap, "preview_limit": plimit, "content": segs_json(content), "sizes": sizes}),
        Spec::PtyPump { cap, plimit, content, sizes } => json!({"kind": "pty_pump", "cap": cap, "preview_limit": plimit, "content": segs_json(content), "sizes": sizes}),
        Spec::Capture { pmax, amax, content, sizes } => json!({"kind": "capture_stream", "preview_limit": pmax, "cap": amax, "content": segs_json(content), "sizes": sizes}),
        Spec::Lifecycle { codes } => json!({"kind": "lifecycle", "codes": codes}),
        Spec::PtyRun { sched } => json!({"kind": "pty_run", "sched": sched}),
        Spec::PtyTask(p) => pty_json(p),
        Spec::Task { variant, out, err, cap, plimit, exit, cancel_after_ms, page, late_ms } => json!({"kind": "task", "variant": variant, "stdout": segs_json(out), "stderr": segs_json(err), "cap": cap, "preview_limit": plimit, "exit": exit, "cancel_after_ms": cancel_after_ms, "page": page, "late_ms": late_ms}),
        Spec::Bash { out, err, pmax, amax, exit, late_ms } => json!({"kind": "bash", "stdout": segs_json(out), "stderr": segs_json(err), "preview_limit": pmax, "cap": amax, "exit": exit, "late_ms": late_ms}),
    }
}
fn segs_from(v: &Value) -> Segs {
    v.as_array().map(|a| a.iter().map(|x| (hex::decode(x["pattern_hex"].as_str().unwrap_or("")).unwrap_or_default(), x["reps"].as_u64().unwrap_or(0))).collect()).unwrap_or_default()
}
fn u64s(v: &Value) -> Vec<u64> {
    v.as_array().map(|a| a.iter().filter_map(|x| x.as_u64()).collect()).unwrap_or_default()
}
/// inverse of `spec_json` (replay files, corpus)
fn spec_from_json(v: &Value) -> Option<Spec> {
    let g = |k: &str| v.get(k).and_then(|x| x.as_u64()).unwrap_or(0);
    Some(match v.get("kind")?.as_str()? {
        "log_writer" => Spec::LogWriter { cap: g("cap"), content: segs_from(&v["content"]), sizes: u64s(&v["sizes"]) },
        "pages" => Spec::Pages { content: segs_from(&v["content"]), reqs: v["reqs"].as_array()?.iter().map(|r| (r[0].as_u64().unwrap_or(0), r[1].as_u64().unwrap_or(0))).collect() },
        "walk" => Spec::Walk { content: segs_from(&v["content"]), maxb: g("max_bytes"), fuel: g("fuel") },
        "truncate_utf8" => Spec::Trunc { bs: hex::decode(v["bytes_hex"].as_str()?).ok()?, maxb: g("max_bytes") },
        "pump" => Spec::Pump { cap: g("cap"), plimit: g("preview_limit"), content: segs_from(&v["content"]), sizes: u64s(&v["sizes"]) },
        "pty_pump" => Spec::PtyPump { cap: g("cap"), plimit: g("preview_limit"), content: segs_from(&v["content"]), sizes: u64s(&v["sizes"]) },
        "capture_stream" => Spec::Capture { pmax: g("preview_limit"), amax: g("cap"), content: segs_from(&v["content"]), sizes: u64s(&v["sizes"]) },
        "lifecycle" => Spec::Lifecycle { codes: u64s(&v["codes"]) },
        "pty_run" => Spec::PtyRun { sched: v["sched"].as_array()?.iter().filter_map(|x| x.as_str().map(|s| s.to_string())).collect() },
        "pty_task" => Spec::PtyTask(pty_from_json(v)?),
        "task" => Spec::Task { variant: g("variant"), out: segs_from(&v["stdout"]), err: segs_from(&v["stderr"]), cap: g("cap"), plimit: g("preview_limit"), exit: g("exit"), cancel_after_ms: v.get("cancel_after_ms").and_then(|x| x.as_u64()), page: g("page"), late_ms: g("late_ms") },
        "bash" => Spec::Bash { out: segs_from(&v["stdout"]), err: segs_from(&v["stderr"]), pmax: g("preview_limit"), amax: g("cap"), exit: g("exit"), late_ms: g("late_ms") },
        _ => return None,
    })
}

// ------------------------------------------------------------------ scripted reader
struct ChunkReader {
    chunks: VecDeque<Vec<u8>>,
}
impl AsyncRead for ChunkReader {
    fn poll_read(mut self: Pin<&mut Self>, _cx: &mut Context<'_>, buf: &mut ReadBuf<'_>) -> Poll<std::io::Result<()>> {
        if let Some(mut c) = self.chunks.pop_front() {
            let n = c.len().min(buf.remaining());
            buf.put_slice(&c[..n]);
            if n < c.len() {
                let rest = c.split_off(n);
                self.chunks.push_front(rest);
            }
        }
        Poll::Ready(Ok(()))
    }
}
fn reader(chunks: Vec<Vec<u8>>) -> Box<dyn AsyncRead + Unpin + Send> {
    Box::new(ChunkReader { chunks: chunks.into_iter().filter(|c| !c.is_empty()).collect() })
}

// ------------------------------------------------------------------ observations
#[derive(Default)]
struct Obs {
    enc: Vec<u64>,
    fails: Vec<(String, String)>, // (what, class)
    enc_note: Option<String>,     // a label for the run's distribution
}
impl Obs {
    fn fail(&mut self, class: &str, what: String) {
        if !self.fails.iter().any(|(_, c)| c == class) {
            self.fails.push((what, class.to_string()));
        }
    }
}
fn blob_path(ws: &Path, id: &str) -> PathBuf {
    ws.join(".rip").join("artifacts").join("blobs").join(id)
}
/// The log file right after the writer announced `expect` stored bytes.  A shorter file at that moment
/// is a violation (a reader following the announced range would read short); then wait for it to settle.
fn read_blob_settled(o: &mut Obs, path: &Path, expect: u64) -> Vec<u8> {
    let mut blob = std::fs::read(path).unwrap_or_default();
    if (blob.len() as u64) < expect {
        o.fail("log_not_on_disk_when_announced", format!("{} of the {expect} announced bytes are in the log file right after the writer finished", blob.len()));
        for _ in 0..400 {
            std::thread::sleep(Duration::from_millis(5));
            blob = std::fs::read(path).unwrap_or_default();
            if blob.len() as u64 >= expect {
                break;
            }
        }
    }
    blob
}
fn u(v: &Value, k: &str) -> u64 {
    v.get(k).and_then(|x| x.as_u64()).unwrap_or(u64::MAX)
}
fn b(v: &Value, k: &str) -> bool {
    v.get(k).and_then(|x| x.as_bool()).unwrap_or(false)
}
fn enc_info(out: &mut Vec<u64>, v: &Value) {
    out.extend([u(v, "offset_bytes"), u(v, "bytes"), u(v, "bytes_total"), u(v, "bytes_stored")]);
    enc_bool(out, b(v, "truncated"));
}
fn prefix(content: &[u8], cap: u64) -> &[u8] {
    &content[..(cap.min(content.len() as u64) as usize)]
}
fn is_char_boundary(content: &[u8], i: usize) -> bool {
    i >= content.len() || (content[i] & 0xC0) != 0x80
}

/// ranges (offset, bytes) must be consecutive from 0 and end at `stored`
fn ranges_tile(r: &[(u64, u64)], stored: u64) -> Option<String> {
    let mut at = 0u64;
    for (i, (o, n)) in r.iter().enumerate() {
        if *o != at {
            return Some(format!("range {i} starts at {o}, previous ranges end at {at}"));
        }
        at += n;
    }
    if at != stored {
        return Some(format!("ranges end at {at}, {stored} bytes are stored"));
    }
    None
}

async fn run_log_writer(cap: u64, content: &Segs, sizes: &[u64]) -> Obs {
    let mut o = Obs::default();
    let ws = Scratch::new("c17lw");
    let bytes = expand(content);
    let chunks = split_sizes(sizes, &bytes);
    let (id, infos, summary) = match ripd::verif::tasks::log_writer_run(ws.path(), cap as usize, &chunks).await {
        Ok(x) => x,
        Err(e) => {
            o.fail("harness_io", format!("log_writer_run: {e}"));
            return o;
        }
    };
    o.enc.push(infos.len() as u64);
    let mut ranges = vec![];
    for i in &infos {
        match i {
            Some(v) => {
                enc_info(&mut o.enc, v);
                ranges.push((u(v, "offset_bytes"), u(v, "bytes")));
            }
            None => o.fail("append_error", "TaskLogWriter::append returned Err".into()),
        }
    }
    let blob = read_blob_settled(&mut o, &blob_path(ws.path(), &id), u(&summary, "bytes_stored"));
    o.enc.extend([u(&summary, "bytes_total"), u(&summary, "bytes_stored")]);
    enc_bool(&mut o.enc, b(&summary, "truncated"));
    o.enc.extend([blob.len() as u64, fnv(&blob)]);
    // oracle
    if blob != prefix(&bytes, cap) {
        o.fail("stored_not_prefix", format!("log holds {} bytes that are not the first min(cap={cap}, {}) bytes written", blob.len(), bytes.len()));
    }
    if let Some(w) = ranges_tile(&ranges, blob.len() as u64) {
        o.fail("append_ranges_do_not_tile", w);
    }
    if u(&summary, "bytes_total") != bytes.len() as u64 || u(&summary, "bytes_stored") != blob.len() as u64 || b(&summary, "truncated") != (bytes.len() as u64 > cap) {
        o.fail("summary_wrong", format!("summary {summary} for {} bytes written, cap {cap}, {} stored", bytes.len(), blob.len()));
    }
    o
}

struct Fetch {
    ws: Scratch,
    id: String,
    reg: Arc<rip_tools::ToolRegistry>,
}
impl Fetch {
    fn new(file: &[u8]) -> Fetch {
        let ws = Scratch::new("c17pg");
        let id = sha_hex(file);
        let p = blob_path(ws.path(), &id);
        std::fs::create_dir_all(p.parent().unwrap()).unwrap();
        std::fs::write(&p, file).unwrap();
        let reg = Arc::new(rip_tools::ToolRegistry::default());
        rip_tools::register_builtin_tools(
            &reg,
            rip_tools::BuiltinToolConfig { workspace_root: ws.path().to_path_buf(), artifact_max_bytes: 1 << 20, max_bytes: 64, max_results: 10, max_depth: 4, follow_symlinks: false, include_hidden: false },
        );
        Fetch { ws, id, reg }
    }
    /// (content, bytes, total, truncated) from both readers; they must agree
    async fn page(&self, o: &mut Obs, off: u64, maxb: u64) -> Option<(Vec<u8>, u64, u64, bool)> {
        let a = ripd::verif::tasks::read_artifact_range(self.ws.path(), &self.id, off, maxb as usize);
        let h = self.reg.get("artifact_fetch").unwrap();
        let out = (h)(rip_tools::ToolInvocation { name: "artifact_fetch".into(), args: json!({"id": self.id, "offset_bytes": off, "max_bytes": maxb}), timeout_ms: None }).await;
        let bq = if out.exit_code == 0 {
            let art = out.artifacts.clone().unwrap_or(Value::Null);
            Some((out.stdout.first().cloned().unwrap_or_default().into_bytes(), u(&art, "bytes"), u(&art, "total_bytes"), b(&art, "truncated")))
        } else {
            None
        };
        let aq = a.ok().map(|(c, n, t, tr)| (c.into_bytes(), n as u64, t, tr));
        if aq != bq {
            o.fail("range_readers_disagree", format!("read_artifact_range and artifact_fetch differ at offset {off} max_bytes {maxb}"));
        }
        aq
    }
}
fn enc_page(out: &mut Vec<u64>, p: &(Vec<u8>, u64, u64, bool)) {
    enc_bytes(out, &p.0);
    out.extend([p.1, p.2]);
    enc_bool(out, p.3);
}
fn page_oracle(o: &mut Obs, file: &[u8], off: u64, maxb: u64, p: &(Vec<u8>, u64, u64, bool)) {
    if p.2 != file.len() as u64 {
        o.fail("page_total_wrong", format!("total_bytes {} for a {}-byte artifact", p.2, file.len()));
    }
    if p.1 > maxb {
        o.fail("page_exceeds_max", format!("page of {} bytes for max_bytes {maxb}", p.1));
    }
    let s = (off.min(file.len() as u64)) as usize;
    let e = (s as u64 + p.1).min(file.len() as u64) as usize;
    if s as u64 + p.1 > file.len() as u64 {
        o.fail("page_past_end", format!("offset {off} + bytes {} beyond the {}-byte artifact", p.1, file.len()));
    }
    if let Ok(t) = std::str::from_utf8(&file[s..e]) {
        if t.as_bytes() != &p.0[..] {
            o.fail("page_content_wrong", format!("page at {off} (+{}) does not carry the stored text", p.1));
        }
    }
}

async fn run_pages(content: &Segs, reqs: &[(u64, u64)]) -> Obs {
    let mut o = Obs::default();
    let file = expand(content);
    let f = Fetch::new(&file);
    for (off, maxb) in reqs {
        match f.page(&mut o, *off, *maxb).await {
            Some(p) => {
                enc_page(&mut o.enc, &p);
                page_oracle(&mut o, &file, *off, *maxb, &p);
            }
            None => o.fail("page_error", format!("range read failed at offset {off} max_bytes {maxb}")),
        }
    }
    o
}

fn max_char_width(text: &str) -> u64 {
    text.chars().map(|c| c.len_utf8() as u64).max().unwrap_or(0)
}

async fn run_walk(content: &Segs, maxb: u64, fuel: u64) -> Obs {
    let mut o = Obs::default();
    let file = expand(content);
    let f = Fetch::new(&file);
    let mut pages = vec![];
    let mut off = 0u64;
    for _ in 0..fuel {
        let Some(p) = f.page(&mut o, off, maxb).await else {
            o.fail("page_error", format!("range read failed at offset {off} max_bytes {maxb}"));
            break;
        };
        let cont = p.3 && p.1 > 0;
        off += p.1;
        pages.push(p);
        if !cont {
            break;
        }
    }
    o.enc.push(pages.len() as u64);
    for p in &pages {
        enc_page(&mut o.enc, p);
    }
    // oracle: a valid UTF-8 artifact read page by page (pages at least as large as its widest
    // character) comes back exactly
    if let Ok(text) = std::str::from_utf8(&file) {
        let finished = pages.last().map(|p| !p.3).unwrap_or(false);
        if maxb >= max_char_width(text).max(1) && (finished || (pages.len() as u64) < fuel) {
            let cat: Vec<u8> = pages.iter().flat_map(|p| p.0.clone()).collect();
            let covered: u64 = pages.iter().map(|p| p.1).sum();
            if !finished {
                o.fail("page_walk_stalls", format!("page walk with max_bytes {maxb} stops making progress at offset {covered} of {}", file.len()));
            } else if cat != file || covered != file.len() as u64 {
                let inside = {
                    let mut at = 0u64;
                    pages.iter().any(|p| {
                        at += p.1;
                        !is_char_boundary(&file, at as usize)
                    })
                };
                let class = if inside { "pages_split_character_lossy" } else { "pages_do_not_reassemble" };
                o.fail(class, format!("pages of max_bytes {maxb} concatenate to {} bytes != the {} stored bytes", cat.len(), file.len()));
            }
        }
    }
    o
}

fn run_trunc(bs: &[u8], maxb: u64) -> Obs {
    let mut o = Obs::default();
    let a = ripd::verif::tasks::truncate_utf8(bs, maxb as usize);
    let c = rip_tools::verif::truncate_utf8(bs, maxb as usize);
    if a != c {
        o.fail("truncate_utf8_copies_disagree", "ripd and rip-tools truncate_utf8 differ".into());
    }
    enc_bytes(&mut o.enc, a.0.as_bytes());
    enc_bool(&mut o.enc, a.1);
    o.enc.push(a.2 as u64);
    // oracle
    let used = a.2;
    if used > bs.len() || (a.1 && used as u64 > maxb) || (!a.1 && used != bs.len()) || (a.1 != (bs.len() as u64 > maxb)) {
        o.fail("truncate_utf8_bounds", format!("used {used} truncated {} for {} bytes, max {maxb}", a.1, bs.len()));
    } else if a.0 != String::from_utf8_lossy(&bs[..used]) {
        o.fail("truncate_utf8_text", "text is not the decoding of the used prefix".into());
    }
    o
}

/// frames of one stream -> (preview bytes, log info)
fn delta_frames(events: &[Value], stream: &str) -> Vec<(Vec<u8>, Value)> {
    events
        .iter()
        .filter(|e| e.get("type").and_then(|t| t.as_str()) == Some("tool_task_output_delta") && e.get("stream").and_then(|t| t.as_str()) == Some(stream))
        .map(|e| (e.get("chunk").and_then(|c| c.as_str()).unwrap_or("").as_bytes().to_vec(), e.get("artifacts").and_then(|a| a.get("log")).cloned().unwrap_or(Value::Null)))
        .collect()
}

/// the preview `truncate_utf8` would give is empty: no non-empty valid UTF-8 prefix fits the limit
fn no_preview_fits(chunk: &[u8], lim: u64) -> bool {
    if chunk.len() as u64 <= lim {
        return chunk.is_empty();
    }
    (1..=(lim as usize).min(chunk.len())).all(|e| std::str::from_utf8(&chunk[..e]).is_err())
}

/// oracle shared by the direct pump drive and real tasks: the ranges named by the output frames
/// and the previews they carry
fn frames_oracle(o: &mut Obs, frames: &[(Vec<u8>, Value)], stored: u64, plimit: u64, content: &[u8], chunks: Option<&[Vec<u8>]>) {
    let lim = plimit.min(8192);
    let ranges: Vec<(u64, u64)> = frames.iter().map(|(_, v)| (u(v, "offset_bytes"), u(v, "bytes"))).collect();
    if let Some(w) = ranges_tile(&ranges, stored) {
        // executable class of S17: some chunk has an empty preview (limit 0, limit smaller than the
        // first character, or no valid prefix within the limit) and therefore no frame
        let explained = match chunks {
            Some(cs) => cs.iter().any(|c| no_preview_fits(c, lim)),
            None => lim < 4,
        };
        let class = if explained { "delta_frames_skip_chunks_with_empty_preview" } else { "delta_ranges_do_not_tile" };
        o.fail(class, format!("output frames of a stream with preview limit {plimit}: {w}"));
    }
    if std::str::from_utf8(content).is_err() {
        return; // binary output has no exact text rendering
    }
    // the previews, frame by frame: the text of the bytes not yet shown, up to the last complete
    // character of this read (a character split across reads is shown once, whole, with the later
    // read), cut to the per-frame limit on a character boundary
    let mut shown = 0usize;
    let mut prev_total = 0usize;
    for (pv, v) in frames {
        let end_total = u(v, "bytes_total") as usize;
        if end_total > content.len() || end_total < shown {
            return;
        }
        let mut e = end_total;
        while !is_char_boundary(content, e) {
            e -= 1;
        }
        let e = e.max(shown);
        let mut k = e.min(shown + lim as usize);
        while !is_char_boundary(content, k) {
            k -= 1;
        }
        let expect = &content[shown..k.max(shown)];
        if pv.as_slice() != expect {
            let split = !is_char_boundary(content, prev_total) || !is_char_boundary(content, end_total);
            let class = if pv.len() as u64 > lim {
                "preview_exceeds_limit"
            } else if split {
                "delta_preview_lossy_at_read_boundary_inside_character"
            } else {
                "preview_not_prefix"
            };
            o.fail(class, format!("frame preview ({} bytes) is not the text of output bytes {shown}..{} (read ends at {end_total}, limit {plimit})", pv.len(), k));
        }
        shown = e;
        prev_total = end_total;
    }
}

async fn run_pump(cap: u64, plimit: u64, content: &Segs, sizes: &[u64], pty: bool) -> Obs {
    let mut o = Obs::default();
    let ws = Scratch::new("c17pu");
    let bytes = expand(content);
    let chunks = split_sizes(sizes, &bytes);
    let data = ws.path().join("data");
    std::fs::create_dir_all(&data).unwrap();
    let ran = if pty {
        // the reader thread never sends an empty read
        let nonempty: Vec<Vec<u8>> = chunks.iter().filter(|c| !c.is_empty()).cloned().collect();
        ripd::verif::tasks::pty_emit_run(&data, ws.path(), &nonempty, cap as usize, plimit as usize).await
    } else {
        ripd::verif::tasks::pump_run(&data, ws.path(), reader(chunks.clone()), cap as usize, plimit as usize).await
    };
    let (id, events, summary) = match ran {
        Ok(x) => x,
        Err(e) => {
            o.fail("harness_io", format!("pump_run: {e}"));
            return o;
        }
    };
    let evs: Vec<Value> = events.iter().map(|e| serde_json::to_value(e).unwrap()).collect();
    let frames = delta_frames(&evs, if pty { "pty" } else { "stdout" });
    o.enc.push(frames.len() as u64);
    for (pv, v) in &frames {
        enc_bytes(&mut o.enc, pv);
        enc_info(&mut o.enc, v);
    }
    let blob = read_blob_settled(&mut o, &blob_path(ws.path(), &id), u(&summary, "bytes_stored"));
    o.enc.extend([u(&summary, "bytes_total"), u(&summary, "bytes_stored")]);
    enc_bool(&mut o.enc, b(&summary, "truncated"));
    o.enc.extend([blob.len() as u64, fnv(&blob)]);
    if blob != prefix(&bytes, cap) {
        o.fail("stored_not_prefix", format!("log holds {} bytes that are not the first min(cap={cap}, {}) bytes written", blob.len(), bytes.len()));
    }
    if evs.len() != frames.len() {
        o.fail("pump_emits_other_frames", "the pump emitted frames other than output deltas".into());
    }
    for (i, e) in evs.iter().enumerate() {
        if u(e, "seq") != i as u64 {
            o.fail("seq_not_consecutive", format!("frame {i} has seq {}", u(e, "seq")));
        }
    }
    frames_oracle(&mut o, &frames, blob.len() as u64, plimit, &bytes, Some(&chunks));
    o
}

fn norm_lines(text: &str) -> Vec<String> {
    // independent re-statement of "the preview, line by line": split at \n, drop CRs before the break
    let mut v: Vec<String> = text.split('\n').map(|l| l.trim_end_matches('\r').to_string()).collect();
    if text.is_empty() || text.ends_with('\n') {
        v.pop();
    }
    v
}

/// oracle + encoding of one captured stream (direct drive and real bash runs)
fn capture_obs(o: &mut Obs, ws: &Path, lines: &[String], j: &Value, bytes: &[u8], pmax: u64, amax: u64) {
    o.enc.push(lines.len() as u64);
    for l in lines {
        enc_bytes(&mut o.enc, l.as_bytes());
    }
    o.enc.extend([u(j, "bytes_preview"), u(j, "bytes_total")]);
    enc_bool(&mut o.enc, b(j, "truncated"));
    if !j.get("error").map(|e| e.is_null()).unwrap_or(true) {
        o.fail("capture_error", format!("capture reported {}", j["error"]));
    }
    let total = bytes.len() as u64;
    let art = j.get("artifact").cloned().unwrap_or(Value::Null);
    if art.is_null() {
        o.enc.push(0);
        if total > pmax && amax > 0 {
            o.fail("artifact_missing", format!("{total} bytes written, preview limit {pmax}, cap {amax}: no artifact"));
        }
    } else {
        let id = art.get("id").and_then(|x| x.as_str()).unwrap_or("").to_string();
        let blob = read_blob_settled(o, &blob_path(ws, &id), u(&art, "bytes"));
        o.enc.extend([1, fnv(&blob), u(&art, "bytes")]);
        enc_bool(&mut o.enc, b(&art, "truncated"));
        o.enc.push(blob.len() as u64);
        if sha_hex(&blob) != id {
            o.fail("artifact_id_not_hash", format!("blob {id} has sha256 {}", sha_hex(&blob)));
        }
        if blob != prefix(bytes, amax) {
            o.fail("stored_not_prefix", format!("artifact holds {} bytes that are not the first min(cap={amax}, {total}) bytes written", blob.len()));
        }
        if u(&art, "bytes") != blob.len() as u64 || b(&art, "truncated") != (total > amax) {
            o.fail("summary_wrong", format!("artifact ref {art} for {total} bytes written, cap {amax}"));
        }
        if total <= pmax {
            o.fail("artifact_unexpected", "artifact although everything fits the preview".into());
        }
    }
    // bytes_preview: everything when it fits; else the limit, minus an incomplete character at the cut
    let fit = total.min(pmax);
    let bp = u(j, "bytes_preview");
    let bp_ok = if total <= pmax {
        bp == total
    } else if std::str::from_utf8(bytes).is_ok() {
        let mut e = fit as usize;
        while !is_char_boundary(bytes, e) {
            e -= 1;
        }
        bp == e as u64 || bp == fit // (== fit with U+FFFD is reported as S19 below)
    } else {
        bp <= fit && bp + 3 >= fit
    };
    if u(j, "bytes_total") != total || b(j, "truncated") != (total > pmax) || !bp_ok {
        o.fail("summary_wrong", format!("capture summary {j} for {total} bytes written, preview limit {pmax}"));
    }
    // preview = the first min(limit,total) bytes, as text lines
    let pre = prefix(bytes, pmax);
    if let Ok(t) = std::str::from_utf8(pre) {
        if norm_lines(t) != lines {
            o.fail("preview_not_prefix", "preview lines are not the first bytes of the output".into());
        }
    } else if std::str::from_utf8(bytes).is_ok() {
        // the cut fell inside a character: the text can only be the prefix up to the last boundary
        let mut e = pre.len();
        while !is_char_boundary(bytes, e) {
            e -= 1;
        }
        if norm_lines(std::str::from_utf8(&bytes[..e]).unwrap()) != lines {
            o.fail("shell_preview_lossy_when_limit_falls_inside_character", format!("preview limit {pmax} falls inside a character: the preview text is not a prefix of the output"));
        }
    }
    let tmp = ws.join(".rip").join("artifacts").join("tmp");
    if let Ok(rd) = std::fs::read_dir(&tmp) {
        if rd.count() > 0 {
            o.fail("tmp_leftover", "spill file left in .rip/artifacts/tmp".into());
        }
    }
}

fn tool_cfg(ws: &Path, pmax: u64, amax: u64) -> rip_tools::BuiltinToolConfig {
    rip_tools::BuiltinToolConfig { workspace_root: ws.to_path_buf(), artifact_max_bytes: amax as usize, max_bytes: pmax as usize, max_results: 10, max_depth: 4, follow_symlinks: false, include_hidden: false }
}

async fn run_capture(pmax: u64, amax: u64, content: &Segs, sizes: &[u64]) -> Obs {
    let mut o = Obs::default();
    let ws = Scratch::new("c17cs");
    let bytes = expand(content);
    let chunks = split_sizes(sizes, &bytes);
    let cfg = tool_cfg(ws.path(), pmax, amax);
    let (lines, j) = rip_tools::verif::capture_stream(reader(chunks), &cfg, pmax as usize).await;
    capture_obs(&mut o, ws.path(), &lines, &j, &bytes, pmax, amax);
    o
}

async fn run_spec(s: &Spec) -> Obs {
    match s {
        Spec::LogWriter { cap, content, sizes } => run_log_writer(*cap, content, sizes).await,
        Spec::Pages { content, reqs } => run_pages(content, reqs).await,
        Spec::Walk { content, maxb, fuel } => run_walk(content, *maxb, *fuel).await,
        Spec::Trunc { bs, maxb } => run_trunc(bs, *maxb),
        Spec::Pump { cap, plimit, content, sizes } => run_pump(*cap, *plimit, content, sizes, false).await,
        Spec::PtyPump { cap, plimit, content, sizes } => run_pump(*cap, *plimit, content, sizes, true).await,
        Spec::Capture { pmax, amax, content, sizes } => run_capture(*pmax, *amax, content, sizes).await,
        Spec::Lifecycle { .. } | Spec::PtyRun { .. } | Spec::Task { .. } | Spec::Bash { .. } | Spec::PtyTask(..) => Obs::default(),
    }
}

// ------------------------------------------------------------------ real tasks through the router
struct World {
    _ws: Scratch,
    ws: PathBuf,
    data: PathBuf,
    app: axum::Router,
    n: u64,
}
impl World {
    fn new() -> World {
        let ws = Scratch::new("c17rt");
        let root = ws.path().join("ws");
        let data = ws.path().join("data");
        std::fs::create_dir_all(&root).unwrap();
        std::fs::create_dir_all(&data).unwrap();
        let app = ripd::verif::build_app(data.clone(), root.clone(), None);
        World { ws: root, data, app, n: 0, _ws: ws }
    }
}
fn req(method: &str, uri: &str, body: Option<Value>) -> axum::http::Request<axum::body::Body> {
    let b = axum::http::Request::builder().method(method).uri(uri);
    match body {
        Some(v) => b.header("content-type", "application/json").body(axum::body::Body::from(v.to_string())).unwrap(),
        None => b.body(axum::body::Body::empty()).unwrap(),
    }
}
async fn call_json(app: &axum::Router, r: axum::http::Request<axum::body::Body>) -> (u16, Value) {
    use http_body_util::BodyExt;
    use tower::ServiceExt;
    let resp = app.clone().oneshot(r).await.expect("infallible");
    let st = resp.status().as_u16();
    let bytes = resp.into_body().collect().await.map(|b| b.to_bytes()).unwrap_or_default();
    (st, serde_json::from_slice(&bytes).unwrap_or(Value::Null))
}
fn task_frames(data: &Path, id: &str) -> Vec<Value> {
    let Ok(text) = std::fs::read_to_string(data.join("events.jsonl")) else { return vec![] };
    text.lines().filter_map(|l| serde_json::from_str::<Value>(l).ok()).filter(|v| v.get("session_id").and_then(|x| x.as_str()) == Some(id)).collect()
}
fn frame_code(e: &Value) -> u64 {
    let st = |e: &Value| match e.get("status").and_then(|x| x.as_str()).unwrap_or("") {
        "running" => 1,
        "exited" => 22,
        "cancelled" => 23,
        "failed" => 24,
        _ => 99,
    };
    match e.get("type").and_then(|x| x.as_str()).unwrap_or("") {
        "tool_task_spawned" => 0,
        "tool_task_status" => st(e),
        "tool_task_output_delta" => match e.get("stream").and_then(|x| x.as_str()) {
            Some("stderr") => 11,
            Some("pty") => 12,
            _ => 10,
        },
        "tool_task_stdin_written" => 30,
        "tool_task_resized" => 31,
        "tool_task_signalled" => 32,
        "tool_task_cancel_requested" => 2,
        "tool_task_cancelled" => 3,
        _ => 98,
    }
}
/// the property's lifecycle clause, checked directly on the kind sequence (independent of the model)
fn lifecycle_oracle(o: &mut Obs, codes: &[u64], spawnless_expected: bool) {
    lifecycle_oracle_mode(o, codes, spawnless_expected, false)
}
/// pty = the stream of a PTY task: its output frames are `pty` deltas (12) and it may carry the acknowledgements
/// of terminal input / resize / signal (30..32) while it runs; a pipes task has stdout / stderr deltas only
fn lifecycle_oracle_mode(o: &mut Obs, codes: &[u64], spawnless_expected: bool, pty: bool) {
    let term = |c: u64| (22..=24).contains(&c);
    let foreign = |c: u64| c >= 98 || if pty { c == 10 || c == 11 } else { c == 12 || (30..=32).contains(&c) };
    if let Some(i) = codes.iter().position(|c| (30..=32).contains(c)) {
        if !codes[..i].contains(&1) {
            o.fail("control_ack_before_running", format!("{codes:?}"));
        }
    }
    if codes.iter().any(|c| foreign(*c)) {
        o.fail("task_stream_foreign_frame", format!("unexpected frame kind in a task stream: {codes:?}"));
    }
    let nterm = codes.iter().filter(|c| term(**c)).count();
    if nterm != 1 {
        o.fail("terminal_status_not_exactly_once", format!("{nterm} terminal status frames: {codes:?}"));
    } else if !term(*codes.last().unwrap()) {
        o.fail("frame_after_terminal_status", format!("frames follow the terminal status: {codes:?}"));
    }
    if spawnless_expected {
        if codes != [24] {
            o.fail("pre_spawn_failure_not_single_failed_frame", format!("pre-spawn failure stream is {codes:?}"));
        }
        return;
    }
    if codes.first() != Some(&0) || codes.iter().filter(|c| **c == 0).count() != 1 {
        o.fail("stream_does_not_open_with_spawn_frame", format!("{codes:?}"));
    }
    if codes.iter().filter(|c| **c == 1).count() > 1 {
        o.fail("running_reported_twice", format!("{codes:?}"));
    }
    if let Some(i) = codes.iter().position(|c| (10..=12).contains(c)) {
        if !codes[..i].contains(&1) {
            o.fail("output_before_running", format!("{codes:?}"));
        }
    }
    let creq = codes.iter().position(|c| *c == 2);
    let cdone = codes.iter().position(|c| *c == 3);
    match (creq, cdone) {
        (None, Some(_)) => o.fail("cancelled_without_cancel_request", format!("{codes:?}")),
        (Some(a), Some(b)) if a > b => o.fail("cancelled_before_cancel_request", format!("{codes:?}")),
        _ => {}
    }
    if codes.last() == Some(&23) && cdone.is_none() {
        o.fail("cancelled_status_without_cancelled_frame", format!("{codes:?}"));
    }
    if cdone.is_some() && codes.last() == Some(&22) {
        o.fail("exited_after_cancelled", format!("{codes:?}"));
    }
}

/// Live observation of a task stream: GET /tasks/{id}/events (SSE: snapshot, then live frames; the
/// response never ends by itself) read in the background until the caller aborts the reader.
fn sse_watch(app: &axum::Router, id: &str) -> (Arc<std::sync::Mutex<Vec<Value>>>, tokio::task::JoinHandle<()>) {
    use http_body_util::BodyExt;
    use tower::ServiceExt;
    let got = Arc::new(std::sync::Mutex::new(vec![]));
    let sink = got.clone();
    let app = app.clone();
    let uri = format!("/tasks/{id}/events");
    let h = tokio::spawn(async move {
        let Ok(resp) = app.oneshot(req("GET", &uri, None)).await;
        let mut body = resp.into_body();
        let mut buf: Vec<u8> = vec![];
        while let Some(Ok(frame)) = body.frame().await {
            let Ok(data) = frame.into_data() else { continue };
            buf.extend_from_slice(&data);
            while let Some(i) = buf.windows(2).position(|w| w == b"\n\n") {
                let ev: Vec<u8> = buf.drain(..i + 2).collect();
                for line in String::from_utf8_lossy(&ev).lines() {
                    if let Some(d) = line.strip_prefix("data:") {
                        if let Ok(v) = serde_json::from_str::<Value>(d.trim()) {
                            sink.lock().unwrap().push(v);
                        }
                    }
                }
            }
        }
    });
    (got, h)
}

async fn run_task(w: &mut World, spec: &Spec) -> (Obs, Vec<u64>) {
    let Spec::Task { variant, out, err, cap, plimit, exit, cancel_after_ms, page, late_ms } = spec else { return (Obs::default(), vec![]) };
    let (variant, cap, plimit, exit, cancel_after_ms, page, late_ms) = (*variant, *cap, *plimit, *exit, *cancel_after_ms, *page, *late_ms);
    let mut o = Obs::default();
    w.n += 1;
    let (outb, errb) = (expand(out), expand(err));
    let (fo, fe) = (format!("o{}.bin", w.n), format!("e{}.bin", w.n));
    std::fs::write(w.ws.join(&fo), &outb).unwrap();
    std::fs::write(w.ws.join(&fe), &errb).unwrap();
    let tail = if variant == 8 { "; sleep 1.2" } else if cancel_after_ms.is_some() { "; sleep 3" } else { "" };
    let late = (5..=7).contains(&variant) || variant == 11;
    let dstart = format!("daemon{}.started", w.n);
    let marker = format!("late{}.done", w.n);
    let d = format!("{}.{:03}", late_ms / 1000, late_ms % 1000);
    // variant 4: the shell exits at once while a background writer still holds stderr: the terminal
    // status must wait for the pumps (EOF), so the late output precedes it.
    // variants 5-7: the same with a descendant that outlives the shell by `late_ms` (> 1 s) and holds
    // stdout only / stderr only / both; it leaves a marker file when it has written, so the harness
    // knows (independently of load) from when on nothing more can come.
    let command = match variant {
        4 => format!("cat {fo}; (sleep 0.2; cat {fe} >&2) & exit {exit}"),
        5 => format!("cat {fo}; (sleep {d}; cat {fe}; touch {marker}) 2>/dev/null & exit {exit}"),
        6 => format!("cat {fo}; (sleep {d}; cat {fe} >&2; touch {marker}) >/dev/null & exit {exit}"),
        7 => format!("cat {fo}; (sleep {d}; cat {fe}; cat {fe} >&2; touch {marker}) & exit {exit}"),
        11 => format!("cat {fo}; (setsid sh -c 'touch {dstart}; sleep {d}; cat {fe}; touch {marker}' 2>/dev/null &); sleep 30; exit {exit}"),
        _ => format!("cat {fo}; cat {fe} >&2{tail}; exit {exit}"),
    };
    // what each stream of the process tree writes, in order
    let (exp_out, exp_err): (Vec<u8>, Vec<u8>) = match variant {
        5 | 11 => ([outb.clone(), errb.clone()].concat(), vec![]),
        7 => ([outb.clone(), errb.clone()].concat(), errb.clone()),
        _ => (outb.clone(), errb.clone()),
    };
    let body = match variant {
        1 => json!({"tool": "python", "args": {"command": command}}),
        2 => json!({"tool": "bash", "args": {"command": 17}}),
        3 => json!({"tool": "bash", "args": {"command": command, "cwd": "/", "artifact_max_bytes": cap, "max_bytes": plimit}}),
        9 => json!({"tool": "bash", "args": {"command": command, "cwd": ".", "env": {"PATH": "/nonexistent-c17"}, "artifact_max_bytes": cap, "max_bytes": plimit}}),
        _ => json!({"tool": "bash", "args": {"command": command, "cwd": ".", "artifact_max_bytes": cap, "max_bytes": plimit}}),
    };
    if variant == 10 {
        let _ = std::fs::remove_dir_all(w.ws.join(".rip"));
        std::fs::write(w.ws.join(".rip"), b"not a directory").unwrap();
    }
    let (st, created) = call_json(&w.app, req("POST", "/tasks", Some(body))).await;
    let id = created.get("task_id").and_then(|x| x.as_str()).unwrap_or("").to_string();
    if id.is_empty() {
        // the router refuses tools other than bash/shell outright (no stream is ever created)
        if !(variant == 1 && st == 400) {
            o.fail("task_spawn_rejected", format!("POST /tasks -> {st} {created}"));
        }
        return (o, vec![]);
    }
    let live = if late { Some(sse_watch(&w.app, &id)) } else { None };
    if variant == 11 {
        // cancel once the daemon is certainly in a session of its own (it says so itself)
        for _ in 0..12_000 {
            if w.ws.join(&dstart).exists() {
                break;
            }
            tokio::time::sleep(Duration::from_millis(5)).await;
        }
    }
    if let Some(ms) = cancel_after_ms {
        if ms > 0 {
            tokio::time::sleep(Duration::from_micros(ms * 700)).await;
        }
        let (cst, _) = call_json(&w.app, req("POST", &format!("/tasks/{id}/cancel"), Some(json!({"reason": "c17"})))).await;
        if cst != 202 {
            o.fail("cancel_not_accepted", format!("POST /tasks/{{id}}/cancel -> {cst}"));
        }
    }
    // wait (generously) for the terminal status frame in the event log, then let stragglers land
    let mut frames = vec![];
    for _ in 0..24_000 {
        frames = task_frames(&w.data, &id);
        if frames.iter().any(|e| (22..=24).contains(&frame_code(e))) {
            break;
        }
        tokio::time::sleep(Duration::from_millis(5)).await;
    }
    // late writers: keep observing until the descendant has written (marker file; up to 60 s more: a
    // descendant that never reports was killed with the shell, which the property does not forbid) and
    // then for a grace period in which a detached pump would deliver what it read
    let mut late_done = false;
    if late {
        for _ in 0..12_000 {
            if w.ws.join(&marker).exists() {
                late_done = true;
                break;
            }
            tokio::time::sleep(Duration::from_millis(5)).await;
        }
    }
    tokio::time::sleep(Duration::from_millis(if late { 700 } else if variant == 4 { 500 } else { 60 })).await;
    frames = task_frames(&w.data, &id);
    let codes: Vec<u64> = frames.iter().map(frame_code).collect();
    if !codes.iter().any(|c| (22..=24).contains(c)) {
        o.fail("task_never_terminates", format!("no terminal status after 120 s: {codes:?}"));
        return (o, codes);
    }
    for (i, e) in frames.iter().enumerate() {
        if u(e, "seq") != i as u64 {
            o.fail("seq_not_consecutive", format!("frame {i} has seq {}", u(e, "seq")));
        }
    }
    lifecycle_oracle(&mut o, &codes, false);
    if let Some((got, h)) = live {
        // the live stream (SSE) over the same period: seqs from 0 without gap, nothing after the terminal frame
        h.abort();
        let seen: Vec<Value> = got.lock().unwrap().clone();
        let lc: Vec<u64> = seen.iter().map(frame_code).collect();
        if seen.iter().enumerate().any(|(i, e)| u(e, "seq") != i as u64) {
            o.fail("live_stream_seq_not_consecutive", format!("GET /tasks/{{id}}/events delivered seqs {:?}", seen.iter().map(|e| u(e, "seq")).collect::<Vec<_>>()));
        }
        if let Some(t) = lc.iter().position(|c| (22..=24).contains(c)) {
            if t + 1 != lc.len() {
                o.fail("frame_after_terminal_status", format!("the live stream (GET /tasks/{{id}}/events) delivers frames after the terminal status: {lc:?}"));
            }
        }
    }
    if variant != 0 && variant != 4 && variant != 8 && !late {
        if codes.last() != Some(&24) {
            o.fail("failure_not_reported_failed", format!("{codes:?}"));
        }
        // which refusal path of run_task / run_pipes_task this was (for the distribution only)
        if let Some(e) = frames.last().and_then(|f| f.get("error")).and_then(|e| e.as_str()) {
            o.enc_note = Some(format!("refusal={}", e.split(|c: char| c == ':' || c == '(').next().unwrap_or("").trim()));
        }
        return (o, codes);
    }
    // streams
    let spawn = &frames[0];
    // the terminal status frame (normally the last frame; when frames follow it that is reported above)
    let last = frames.iter().find(|e| (22..=24).contains(&frame_code(e))).unwrap();
    let cancelled = codes.contains(&2);
    if !cancelled && (frame_code(last) != 22 || last.get("exit_code").and_then(|x| x.as_u64()) != Some(exit)) {
        o.fail("exit_status_wrong", format!("expected exited/{exit}: {}", last));
    }
    // GET /tasks/{id} after the end reports what the terminal frame reported
    let (sst, status) = call_json(&w.app, req("GET", &format!("/tasks/{id}"), None)).await;
    if sst != 200 || status["artifacts"] != last["artifacts"] || status["exit_code"] != last["exit_code"] {
        o.fail("status_differs_from_terminal_frame", format!("GET /tasks/{{id}} -> {sst} {status} after the terminal frame {last}"));
    }
    for (name, content) in [("stdout", &exp_out), ("stderr", &exp_err)] {
        let lid = spawn["artifacts"]["logs"][name]["id"].as_str().unwrap_or("").to_string();
        let sum = &last["artifacts"]["logs"][name];
        let blob = read_blob_settled(&mut o, &blob_path(&w.ws, &lid), u(sum, "bytes_stored"));
        if !sum["error"].is_null() {
            o.fail("summary_wrong", format!("{name} summary of a task whose process tree has ended carries an error: {sum}"));
        }
        if (cancelled && variant != 11) || (late && !late_done) {
            if blob.len() as u64 > cap || !content.starts_with(&blob) {
                o.fail("stored_not_prefix", format!("{name} log of a cancelled task ({} bytes) is not a prefix of the output within cap {cap}", blob.len()));
            }
        } else {
            if blob != prefix(content, cap) {
                o.fail("stored_not_prefix", format!("{name} log holds {} bytes that are not the first min(cap={cap}, {}) bytes written", blob.len(), content.len()));
            }
            if u(sum, "bytes_total") != content.len() as u64 || b(sum, "truncated") != (content.len() as u64 > cap) {
                o.fail("summary_wrong", format!("{name} summary {sum} for {} bytes written, cap {cap}", content.len()));
            }
        }
        if u(sum, "bytes_stored") != blob.len() as u64 {
            o.fail("summary_wrong", format!("{name} summary {sum}, {} bytes in the log", blob.len()));
        }
        let fr = delta_frames(&frames, name);
        let upto = u(sum, "bytes_total").min(content.len() as u64) as usize;
        frames_oracle(&mut o, &fr, blob.len() as u64, plimit, &content[..upto], None);
        // page walk over GET /tasks/{id}/output
        if page > 0 {
            let (mut off, mut cat, mut done) = (0u64, vec![], false);
            for _ in 0..(blob.len() as u64 / page.saturating_sub(3).max(1) + 8) {
                let (st, p) = call_json(&w.app, req("GET", &format!("/tasks/{id}/output?stream={name}&offset_bytes={off}&max_bytes={page}"), None)).await;
                if st != 200 {
                    o.fail("page_error", format!("GET output -> {st}"));
                    break;
                }
                cat.extend_from_slice(p["content"].as_str().unwrap_or("").as_bytes());
                off += u(&p, "bytes");
                if u(&p, "total_bytes") != blob.len() as u64 {
                    o.fail("page_total_wrong", format!("total_bytes {} for a {}-byte log", u(&p, "total_bytes"), blob.len()));
                }
                if !b(&p, "truncated") || u(&p, "bytes") == 0 {
                    done = !b(&p, "truncated");
                    break;
                }
            }
            if std::str::from_utf8(&blob).is_ok() && page >= 4 {
                if !done {
                    o.fail("page_walk_stalls", format!("page walk over the {name} log with max_bytes {page} does not finish"));
                } else if cat != blob {
                    o.fail("pages_split_character_lossy", format!("pages of max_bytes {page} over the {name} log concatenate to {} bytes != the {} stored bytes", cat.len(), blob.len()));
                }
            }
        }
    }
    (o, codes)
}

async fn run_bash(w: &mut World, out: &Segs, err: &Segs, pmax: u64, amax: u64, exit: u64, late_ms: u64) -> (Obs, Vec<(Spec, Vec<u64>)>) {
    let mut o = Obs::default();
    w.n += 1;
    let (outb, errb) = (expand(out), expand(err));
    let (fo, fe) = (format!("o{}.bin", w.n), format!("e{}.bin", w.n));
    std::fs::write(w.ws.join(&fo), &outb).unwrap();
    std::fs::write(w.ws.join(&fe), &errb).unwrap();
    let reg = Arc::new(rip_tools::ToolRegistry::default());
    rip_tools::register_builtin_tools(&reg, tool_cfg(&w.ws, pmax, amax));
    let h = reg.get("bash").unwrap();
    let command = if late_ms > 0 {
        format!("cat {fo}; (sleep {}.{:03}; cat {fe} >&2) & exit {exit}", late_ms / 1000, late_ms % 1000)
    } else {
        format!("cat {fo}; cat {fe} >&2; exit {exit}")
    };
    let res = (h)(rip_tools::ToolInvocation { name: "bash".into(), args: json!({"command": command, "cwd": "."}), timeout_ms: None }).await;
    if res.exit_code as u64 != exit {
        o.fail("exit_status_wrong", format!("bash exit code {} for `exit {exit}`", res.exit_code));
    }
    let arts = res.artifacts.clone().unwrap_or(Value::Null);
    let mut derived = vec![];
    for (name, lines, content, segs) in [("stdout", &res.stdout, &outb, out), ("stderr", &res.stderr, &errb, err)] {
        let mut oo = Obs::default();
        capture_obs(&mut oo, &w.ws, lines, &arts[name], content, pmax, amax);
        // the capture is the same for every chunking (c17_stored_is_prefix_capture): compare the real
        // run with the model fed the whole output as one chunk
        derived.push((Spec::Capture { pmax, amax, content: segs.clone(), sizes: vec![] }, oo.enc.clone()));
        for (what, class) in oo.fails {
            o.fail(&class, format!("{name}: {what}"));
        }
    }
    (o, derived)
}


// ------------------------------------------------------------------ real PTY tasks through the router
fn pty_op_json(s: &PtyStep) -> Value {
    match &s.op {
        PtyOp::Stdin(b) => json!({"when": s.when, "op": "stdin", "bytes_hex": hex::encode(b)}),
        PtyOp::Resize(r, c) => json!({"when": s.when, "op": "resize", "rows": r, "cols": c}),
        PtyOp::Signal(g) => json!({"when": s.when, "op": "signal", "signal": g}),
        PtyOp::Cancel => json!({"when": s.when, "op": "cancel"}),
    }
}
fn pty_json(p: &PtySpec) -> Value {
    json!({"kind": "pty_task", "shape": p.shape, "stdout": segs_json(&p.out), "stderr": segs_json(&p.err), "raw": p.raw, "cap": p.cap, "preview_limit": p.plimit,
           "exit": p.exit, "ops": p.ops.iter().map(pty_op_json).collect::<Vec<_>>(), "page": p.page, "late_ms": p.late_ms, "rows": p.rows, "cols": p.cols})
}
fn pty_from_json(v: &Value) -> Option<PtySpec> {
    let g = |k: &str| v.get(k).and_then(|x| x.as_u64()).unwrap_or(0);
    let mut ops = vec![];
    for o in v.get("ops").and_then(|x| x.as_array()).cloned().unwrap_or_default() {
        let gg = |k: &str| o.get(k).and_then(|x| x.as_u64()).unwrap_or(0);
        let op = match o.get("op")?.as_str()? {
            "stdin" => PtyOp::Stdin(hex::decode(o["bytes_hex"].as_str()?).ok()?),
            "resize" => PtyOp::Resize(gg("rows"), gg("cols")),
            "signal" => PtyOp::Signal(o["signal"].as_str()?.to_string()),
            "cancel" => PtyOp::Cancel,
            _ => return None,
        };
        ops.push(PtyStep { when: gg("when"), op });
    }
    Some(PtySpec { shape: g("shape"), out: segs_from(&v["stdout"]), err: segs_from(&v["stderr"]), raw: v.get("raw").and_then(|x| x.as_bool()).unwrap_or(false), cap: g("cap"), plimit: g("preview_limit"),
                   exit: g("exit"), ops, page: g("page"), late_ms: g("late_ms"), rows: g("rows"), cols: g("cols") })
}
/// what the terminal's output processing (OPOST|ONLCR, the default of a fresh pty) makes of program output
fn onlcr(b: &[u8]) -> Vec<u8> {
    let mut v = Vec::with_capacity(b.len() + 8);
    for x in b {
        if *x == b'\n' {
            v.push(b'\r');
        }
        v.push(*x);
    }
    v
}
fn b64(b: &[u8]) -> String {
    const T: &[u8; 64] = b"ABCDEFGHIJKLMNOPQRSTUVWXYZabcdefghijklmnopqrstuvwxyz0123456789+/";
    let mut s = String::new();
    for c in b.chunks(3) {
        let n = (c[0] as u32) << 16 | (*c.get(1).unwrap_or(&0) as u32) << 8 | *c.get(2).unwrap_or(&0) as u32;
        s.push(T[(n >> 18) as usize & 63] as char);
        s.push(T[(n >> 12) as usize & 63] as char);
        s.push(if c.len() > 1 { T[(n >> 6) as usize & 63] as char } else { '=' });
        s.push(if c.len() > 2 { T[n as usize & 63] as char } else { '=' });
    }
    s
}
fn pty_available() -> bool {
    std::fs::OpenOptions::new().read(true).write(true).open("/dev/ptmx").is_ok()
}
/// the command of a PTY case and the bytes the master side delivers when it runs to its end: program output
/// after the terminal's output processing (LF -> CR LF unless the command switched it off), plus what the line
/// discipline echoes of the input typed at the master (the line and its CR LF; `^C`, `^\` for the signal keys)
fn pty_command(p: &PtySpec, n: u64) -> (String, Vec<u8>, Option<u64>) {
    let (fo, fe) = (format!("o{n}.bin"), format!("e{n}.bin"));
    let (outb, errb) = (expand(&p.out), expand(&p.err));
    let tr = |b: Vec<u8>| if p.raw { b } else { onlcr(&b) };
    let stty = if p.raw { "stty -opost; " } else { "" };
    let exit = p.exit;
    let d = format!("{}.{:03}", p.late_ms / 1000, p.late_ms % 1000);
    let line: Vec<u8> = p.ops.iter().find_map(|s| match (&s.op, s.when) { (PtyOp::Stdin(b), 1) => Some(b.strip_suffix(b"\n").unwrap_or(b).to_vec()), _ => None }).unwrap_or_default();
    match p.shape {
        1 => (
            format!("{stty}cat {fo}; (setsid sh -c 'touch dstart{n}; sleep {d}; cat {fe}; touch late{n}.done' &); while [ ! -e dstart{n} ]; do sleep 0.01; done; exit {exit}"),
            tr([outb, errb].concat()),
            Some(exit),
        ),
        2 => {
            let mut e = vec![];
            if !p.raw {
                e.extend_from_slice(&line);
                e.extend_from_slice(b"\r\n");
            }
            e.extend_from_slice(b"got:");
            e.extend_from_slice(&line);
            e.extend_from_slice(b"\r\n");
            (format!("{}touch started{n}; IFS= read -r l; printf 'got:%s\\n' \"$l\"; exit {exit}", if p.raw { "stty -echo; " } else { "" }), e, Some(exit))
        }
        3 => {
            let (r, c) = p.ops.iter().rev().find_map(|s| match (&s.op, s.when) { (PtyOp::Resize(r, c), 1) => Some((*r, *c)), _ => None }).unwrap_or((if p.rows == 0 { 24 } else { p.rows }, if p.cols == 0 { 80 } else { p.cols }));
            (format!("touch started{n}; read x; stty size; exit {exit}"), format!("\r\n{r} {c}\r\n").into_bytes(), Some(exit))
        }
        4 => {
            let sig = p.ops.iter().find_map(|s| match &s.op { PtyOp::Signal(g) => Some(g.trim().to_ascii_uppercase().trim_start_matches("SIG").to_string()), _ => None }).unwrap_or_default();
            let (e, x): (&[u8], Option<u64>) = match sig.as_str() { "INT" => (b"^CI\r\n", Some(4)), "QUIT" => (b"^\\Q\r\n", Some(5)), _ => (b"", None) };
            (format!("trap 'echo I; exit 4' INT; trap 'echo Q; exit 5' QUIT; touch started{n}; read x; echo no; exit 9"), e.to_vec(), x)
        }
        5 => (format!("{stty}cat {fo}; touch started{n}; read x; exit {exit}"), tr(outb), None),
        6 => (format!("{stty}cat {fo}; exec >/dev/null 2>&1 </dev/null; sleep 0.2; exit {exit}"), tr(outb), Some(exit)),
        7 | 8 | 9 => (format!("cat {fo}; exit {exit}"), vec![], None),
        _ => {
            if errb.is_empty() {
                (format!("{stty}cat {fo}; exit {exit}"), tr(outb), Some(exit))
            } else {
                (format!("{stty}cat {fo}; sleep 0.03; cat {fe}; exit {exit}"), tr([outb, errb].concat()), Some(exit))
            }
        }
    }
}

/// the schedule of the PTY waiter model that reproduces an observed frame sequence (one model action per event
/// source: reader thread, control channel, cancel channel, child, the loop's arms): the model run on it must
/// emit exactly the observed kinds and end
fn pty_sched(codes: &[u64]) -> Vec<String> {
    let ok = !codes.contains(&24);
    let mut s: Vec<String> = vec![];
    let mut running = false;
    let mut closed = false;
    let close = |s: &mut Vec<String>, closed: &mut bool| {
        if !*closed {
            *closed = true;
            for a in ["QChildExit", "QSlaveClosed", "QReaderEof"] {
                s.push(a.into());
            }
            s.push(format!("QLoopExit {ok}"));
            s.push("QLoopChunk".into());
            s.push("QLoopDone".into());
        }
    };
    for c in codes {
        match *c {
            0 => s.push("QSpawnFrame".into()),
            1 => {
                running = true;
                s.push("QStartRunning".into())
            }
            12 => {
                s.push("QRead true".into());
                s.push("QLoopChunk".into())
            }
            30..=32 => {
                s.push(format!("QCtlSend {}", c - 30));
                s.push("QLoopCtl true".into())
            }
            2 => {
                s.push("QCancel".into());
                s.push("QLoopCancel".into())
            }
            3 => {
                close(&mut s, &mut closed);
                s.push("QEmitCancelled".into())
            }
            22..=24 => {
                if running {
                    close(&mut s, &mut closed);
                    s.push("QEmitFinal".into())
                } else {
                    s.push("QFail".into())
                }
            }
            _ => {}
        }
    }
    s
}

struct PtyRunOut {
    o: Obs,
    codes: Vec<u64>,
    ended: bool,
    notes: Vec<String>,
}

async fn pty_post(app: &axum::Router, id: &str, step: &PtyStep) -> u16 {
    let (path, body) = match &step.op {
        PtyOp::Stdin(b) => ("stdin", json!({"chunk_b64": b64(b)})),
        PtyOp::Resize(r, c) => ("resize", json!({"rows": r, "cols": c})),
        PtyOp::Signal(g) => ("signal", json!({"signal": g})),
        PtyOp::Cancel => ("cancel", json!({"reason": "c17"})),
    };
    call_json(app, req("POST", &format!("/tasks/{id}/{path}"), Some(body))).await.0
}

async fn run_pty_task(w: &mut World, p: &PtySpec) -> PtyRunOut {
    let mut o = Obs::default();
    let mut notes = vec![];
    w.n += 1;
    let n = w.n;
    std::fs::write(w.ws.join(format!("o{n}.bin")), expand(&p.out)).unwrap();
    std::fs::write(w.ws.join(format!("e{n}.bin")), expand(&p.err)).unwrap();
    let (command, expect, exit_expected) = pty_command(p, n);
    let mut args = json!({"command": command, "cwd": ".", "artifact_max_bytes": p.cap, "max_bytes": p.plimit});
    if p.rows > 0 {
        args["rows"] = json!(p.rows);
        args["cols"] = json!(p.cols);
    }
    match p.shape {
        7 => args["env"] = json!({"PATH": "/nonexistent-c17"}),
        8 => args["cwd"] = json!("/"),
        _ => {}
    }
    let (st, created) = call_json(&w.app, req("POST", "/tasks", Some(json!({"tool": "bash", "args": args, "execution_mode": "pty"})))).await;
    let id = created.get("task_id").and_then(|x| x.as_str()).unwrap_or("").to_string();
    if id.is_empty() {
        o.fail("task_spawn_rejected", format!("POST /tasks (pty) -> {st} {created}"));
        return PtyRunOut { o, codes: vec![], ended: false, notes };
    }
    let mut log_blocked = false;
    if p.shape == 9 {
        // current-thread runtime: run_task has not been polled yet; put a directory where its log file goes
        let (_, status) = call_json(&w.app, req("GET", &format!("/tasks/{id}"), None)).await;
        let lid = status["artifacts"]["logs"]["pty"]["id"].as_str().unwrap_or("").to_string();
        if lid.is_empty() {
            o.fail("harness_io", format!("no pty log ref in GET /tasks/{{id}}: {status}"));
        } else {
            let _ = std::fs::create_dir_all(blob_path(&w.ws, &lid));
            log_blocked = blob_path(&w.ws, &lid).is_dir();
        }
    }
    let live = sse_watch(&w.app, &id);
    let mut accepted = [0u64; 4]; // 202s per op kind: stdin, resize, signal, cancel
    let kind = |op: &PtyOp| match op { PtyOp::Stdin(_) => 0usize, PtyOp::Resize(..) => 1, PtyOp::Signal(_) => 2, PtyOp::Cancel => 3 };
    let mut cancel_sent_while_unknown = false;
    let mut early_input_accepted = false;
    for s in p.ops.iter().filter(|s| s.when == 0) {
        let st = pty_post(&w.app, &id, s).await;
        if st == 202 && matches!(s.op, PtyOp::Stdin(_) | PtyOp::Signal(_)) {
            early_input_accepted = true;
        }
        notes.push(format!("pty_op_before_start={}:{st}", ["stdin", "resize", "signal", "cancel"][kind(&s.op)]));
        if st == 202 {
            accepted[kind(&s.op)] += 1;
        }
        if s.op == PtyOp::Cancel {
            cancel_sent_while_unknown = true;
            if st != 202 {
                o.fail("cancel_not_accepted", format!("POST /tasks/{{id}}/cancel -> {st}"));
            }
        }
    }
    let mut last_action = std::time::Instant::now();
    let has_terminal = |data: &Path, id: &str| task_frames(data, id).iter().any(|e| (22..=24).contains(&frame_code(e)));
    if p.ops.iter().any(|s| s.when == 1) {
        // the command says itself when it is running and about to block on the terminal
        let started = w.ws.join(format!("started{n}"));
        let mut up = false;
        for _ in 0..24_000 {
            if started.exists() {
                up = true;
                break;
            }
            if has_terminal(&w.data, &id) {
                break;
            }
            tokio::time::sleep(Duration::from_millis(5)).await;
        }
        if up {
            for s in p.ops.iter().filter(|s| s.when == 1) {
                let st = pty_post(&w.app, &id, s).await;
                notes.push(format!("pty_op_running={}:{st}", ["stdin", "resize", "signal", "cancel"][kind(&s.op)]));
                if st == 202 {
                    accepted[kind(&s.op)] += 1;
                } else {
                    o.fail("control_refused_while_running", format!("POST {:?} to a running PTY task -> {st}", s.op));
                }
            }
            last_action = std::time::Instant::now();
        }
    }
    // The task must END.  Watchdog: 120 s after the harness's last action on it (the commands need milliseconds
    // of CPU; none sleeps longer than late_ms), never a retry.
    let mut ended = false;
    loop {
        if has_terminal(&w.data, &id) {
            ended = true;
            break;
        }
        if last_action.elapsed() > Duration::from_millis(120_000 + p.late_ms) {
            break;
        }
        tokio::time::sleep(Duration::from_millis(5)).await;
    }
    if !ended {
        let codes: Vec<u64> = task_frames(&w.data, &id).iter().map(frame_code).collect();
        let (_, status) = call_json(&w.app, req("GET", &format!("/tasks/{id}"), None)).await;
        live.1.abort();
        if codes.contains(&1) {
            o.fail("pty_task_never_reaches_terminal_status", format!("PTY task `{command}`: no terminal status frame 120 s after the last action; frames {codes:?}, GET /tasks/{{id}} says {}", status["status"]));
        } else {
            o.fail("task_never_terminates", format!("PTY task never started running nor failed within 120 s: {codes:?}"));
        }
        return PtyRunOut { o, codes, ended, notes };
    }
    // after the end: every control operation and a cancel; nothing may follow the terminal frame
    for s in p.ops.iter().filter(|s| s.when == 2) {
        let st = pty_post(&w.app, &id, s).await;
        notes.push(format!("pty_op_after_end={}:{st}", ["stdin", "resize", "signal", "cancel"][kind(&s.op)]));
        if st == 202 {
            accepted[kind(&s.op)] += 1;
        }
    }
    if p.shape == 1 {
        for _ in 0..12_000 {
            if w.ws.join(format!("late{n}.done")).exists() {
                break;
            }
            tokio::time::sleep(Duration::from_millis(5)).await;
        }
    }
    tokio::time::sleep(Duration::from_millis(if p.shape == 1 { 700 } else if p.ops.iter().any(|s| s.when == 2) { 300 } else { 80 })).await;
    let frames = task_frames(&w.data, &id);
    let codes: Vec<u64> = frames.iter().map(frame_code).collect();
    for (i, e) in frames.iter().enumerate() {
        if u(e, "seq") != i as u64 {
            o.fail("seq_not_consecutive", format!("frame {i} has seq {}", u(e, "seq")));
        }
    }
    lifecycle_oracle_mode(&mut o, &codes, false, true);
    {
        live.1.abort();
        let seen: Vec<Value> = live.0.lock().unwrap().clone();
        let lc: Vec<u64> = seen.iter().map(frame_code).collect();
        if seen.iter().enumerate().any(|(i, e)| u(e, "seq") != i as u64) {
            o.fail("live_stream_seq_not_consecutive", format!("GET /tasks/{{id}}/events delivered seqs {:?}", seen.iter().map(|e| u(e, "seq")).collect::<Vec<_>>()));
        }
        if let Some(t) = lc.iter().position(|c| (22..=24).contains(c)) {
            if t + 1 != lc.len() {
                o.fail("frame_after_terminal_status", format!("the live stream (GET /tasks/{{id}}/events) delivers frames after the terminal status: {lc:?}"));
            }
        }
    }
    // acknowledgements only for requests that were accepted
    for (k, name) in ["stdin_written", "resized", "signalled"].iter().enumerate() {
        let acks = codes.iter().filter(|c| **c == 30 + k as u64).count() as u64;
        if acks > accepted[k] {
            o.fail("control_ack_without_request", format!("{acks} `{name}` frames for {} accepted requests: {codes:?}", accepted[k]));
        }
    }
    let last = frames.iter().find(|e| (22..=24).contains(&frame_code(e))).unwrap();
    if p.shape == 9 && !log_blocked {
        // run_task got to its log file before the harness did: an ordinary run, nothing more to say about it
        notes.push("pty_log_uncreatable=not_arranged(run_task was polled first)".into());
        return PtyRunOut { o, codes, ended, notes };
    }
    if (7..=9).contains(&p.shape) {
        if codes != [0, 24] {
            o.fail("failure_not_reported_failed", format!("{codes:?}"));
        }
        if let Some(e) = last.get("error").and_then(|e| e.as_str()) {
            o.enc_note = Some(format!("pty_refusal={}", e.split(|c: char| c == ':' || c == '(').next().unwrap_or("").trim()));
        }
        return PtyRunOut { o, codes, ended, notes };
    }
    let cancelled = codes.contains(&2);
    if early_input_accepted {
        notes.push("pty_early_input=accepted(content not predicted)".into());
    }
    if cancelled {
        if frame_code(last) != 23 {
            o.fail("exit_status_wrong", format!("cancel recorded, terminal status is {}", last["status"]));
        }
    } else {
        if frame_code(last) != 22 {
            o.fail("exit_status_wrong", format!("expected exited: {last}"));
        }
        if let Some(x) = exit_expected.filter(|_| !early_input_accepted) {
            if last.get("exit_code").and_then(|v| v.as_u64()) != Some(x) {
                o.fail("exit_status_wrong", format!("expected exited/{x}: {last}"));
            }
        }
    }
    if p.ops.iter().any(|s| s.op == PtyOp::Cancel && s.when < 2) {
        notes.push(if cancelled { "pty_cancel=taken".into() } else { "pty_cancel=lost(202, never recorded)".into() });
    }
    let (sst, status) = call_json(&w.app, req("GET", &format!("/tasks/{id}"), None)).await;
    if sst != 200 || status["artifacts"] != last["artifacts"] || status["exit_code"] != last["exit_code"] {
        o.fail("status_differs_from_terminal_frame", format!("GET /tasks/{{id}} -> {sst} {status} after the terminal frame {last}"));
    }
    // the captured output = the bytes the master delivered, in order
    let spawn = &frames[0];
    let lid = spawn["artifacts"]["logs"]["pty"]["id"].as_str().unwrap_or("").to_string();
    let sum = &last["artifacts"]["logs"]["pty"];
    let blob = read_blob_settled(&mut o, &blob_path(&w.ws, &lid), u(sum, "bytes_stored"));
    if !sum["error"].is_null() {
        o.fail("summary_wrong", format!("pty summary of a task that ended carries an error: {sum}"));
    }
    let cap = p.cap;
    // a cancel that is not tied to a known point of the command, or a kill signal, may cut the command short
    let exact = !(cancelled && (cancel_sent_while_unknown || p.shape == 10));
    if early_input_accepted {
        // the terminal echoed input somewhere in the output: only bytes_stored / ranges (below) can be checked
    } else if exact {
        if blob != prefix(&expect, cap) {
            let class = if p.raw || !expect.contains(&b'\r') { "stored_not_prefix" } else if blob == prefix(&onlcr_inverse(&expect), cap) { "pty_log_not_what_the_master_delivered" } else { "stored_not_prefix" };
            o.fail(class, format!("pty log holds {} bytes that are not the first min(cap={cap}, {}) bytes the terminal delivered", blob.len(), expect.len()));
        }
        if u(sum, "bytes_total") != expect.len() as u64 || b(sum, "truncated") != (expect.len() as u64 > cap) {
            o.fail("summary_wrong", format!("pty summary {sum} for {} bytes delivered, cap {cap}", expect.len()));
        }
    } else if blob.len() as u64 > cap || !expect.starts_with(&blob) {
        o.fail("stored_not_prefix", format!("pty log of a cancelled task ({} bytes) is not a prefix of the terminal output within cap {cap}", blob.len()));
    }
    if u(sum, "bytes_stored") != blob.len() as u64 {
        o.fail("summary_wrong", format!("pty summary {sum}, {} bytes in the log", blob.len()));
    }
    let fr = delta_frames(&frames, "pty");
    let upto = u(sum, "bytes_total").min(expect.len() as u64) as usize;
    if early_input_accepted {
        let ranges: Vec<(u64, u64)> = fr.iter().map(|(_, v)| (u(v, "offset_bytes"), u(v, "bytes"))).collect();
        if let Some(wh) = ranges_tile(&ranges, blob.len() as u64) {
            o.fail("delta_ranges_do_not_tile", format!("output frames of a PTY task: {wh}"));
        }
    } else {
        frames_oracle(&mut o, &fr, blob.len() as u64, p.plimit, &expect[..upto], None);
    }
    notes.push(format!("pty_reads={}", match fr.len() { 0 => "0", 1 => "1", 2..=4 => "2-4", _ => "5+" }));
    if fr.windows(2).any(|w| !is_char_boundary(&expect, u(&w[0].1, "bytes_total") as usize)) {
        notes.push("pty_read_boundary_inside_character".into());
    }
    if p.page > 0 {
        let page = p.page;
        let (mut off, mut cat, mut done) = (0u64, vec![], false);
        for _ in 0..(blob.len() as u64 / page.saturating_sub(3).max(1) + 8) {
            let (st, pg) = call_json(&w.app, req("GET", &format!("/tasks/{id}/output?stream=pty&offset_bytes={off}&max_bytes={page}"), None)).await;
            if st != 200 {
                o.fail("page_error", format!("GET output -> {st}"));
                break;
            }
            cat.extend_from_slice(pg["content"].as_str().unwrap_or("").as_bytes());
            off += u(&pg, "bytes");
            if u(&pg, "total_bytes") != blob.len() as u64 {
                o.fail("page_total_wrong", format!("total_bytes {} for a {}-byte log", u(&pg, "total_bytes"), blob.len()));
            }
            if !b(&pg, "truncated") || u(&pg, "bytes") == 0 {
                done = !b(&pg, "truncated");
                break;
            }
        }
        if std::str::from_utf8(&blob).is_ok() && page >= 4 {
            if !done {
                o.fail("page_walk_stalls", format!("page walk over the pty log with max_bytes {page} does not finish"));
            } else if cat != blob {
                o.fail("pages_split_character_lossy", format!("pages of max_bytes {page} over the pty log concatenate to {} bytes != the {} stored bytes", cat.len(), blob.len()));
            }
        }
    }
    PtyRunOut { o, codes, ended, notes }
}
/// CR LF -> LF (what a log would hold if it recorded the program's bytes instead of the terminal's)
fn onlcr_inverse(b: &[u8]) -> Vec<u8> {
    let mut v = vec![];
    let mut i = 0;
    while i < b.len() {
        if b[i] == b'\r' && b.get(i + 1) == Some(&b'\n') {
            i += 1;
        }
        v.push(b[i]);
        i += 1;
    }
    v
}

/// the model case of a real PTY task: its frames, re-enacted by the PTY waiter model
fn pty_case(out: &PtyRunOut) -> Vec<(Spec, Vec<u64>)> {
    if out.codes.is_empty() || !out.ended {
        return vec![];
    }
    let mut enc = vec![1, 1, 1];
    enc.extend(out.codes.iter().copied());
    vec![(Spec::PtyRun { sched: pty_sched(&out.codes) }, enc)]
}

// ------------------------------------------------------------------ generators
const UNITS: [&str; 10] = ["a", "b", "\n", "\r\n", "é", "€", "😀", "\u{fffd}", " ", "z"];
fn gen_text(r: &mut Rng, n: u64) -> Vec<u8> {
    let mut s = String::new();
    for _ in 0..n {
        s.push_str(*r.pick(&UNITS[..]));
    }
    s.into_bytes()
}
fn gen_binary(r: &mut Rng, n: u64) -> Vec<u8> {
    // bytes biased to the interesting lead / continuation / invalid values
    const B: [u8; 16] = [0x00, 0x41, 0x0a, 0x80, 0xbf, 0xc0, 0xc2, 0xdf, 0xe0, 0xa0, 0xed, 0x9f, 0xf0, 0x90, 0xf4, 0xff];
    (0..n).map(|_| if r.chance(3, 4) { *r.pick(&B[..]) } else { r.below(256) as u8 }).collect()
}
/// content: mostly valid multi-byte text, some binary, some large (repeated pattern)
fn gen_content(r: &mut Rng, around: &[u64], allow_big: bool) -> Segs {
    let mode = r.below(10);
    if allow_big && mode == 0 {
        // large: (optional odd prefix) + repeated unit, sized around 8192 multiples
        let unit = *r.pick(&["a", "é", "€", "😀", "ab\n"]);
        let target = *r.pick(&[8191u64, 8192, 8193, 16384, 16385, 20000]);
        let mut segs: Segs = vec![];
        if r.chance(1, 2) {
            segs.push((b"x".to_vec(), 1));
        }
        segs.push((unit.as_bytes().to_vec(), target / unit.len() as u64 + r.below(2)));
        return segs;
    }
    let base = *r.pick(around);
    let n = match r.below(4) {
        0 => base.saturating_sub(r.below(3)),
        1 => base + r.below(3),
        2 => r.below(12),
        _ => r.below(base.max(1) * 2 + 4),
    };
    if mode <= 2 {
        vec![(gen_binary(r, n.min(300)), 1)]
    } else {
        vec![(gen_text(r, n.min(300)), 1)]
    }
}
fn gen_sizes(r: &mut Rng, len: u64, lo: u64) -> Vec<u64> {
    let style = r.below(5);
    let mut v = vec![];
    let mut left = len;
    let mut guard = 0;
    while left > 0 && guard < 400 {
        guard += 1;
        let k = match style {
            0 => 1,
            1 => r.range(lo, 4),
            2 => r.range(lo, 40),
            3 => *r.pick(&[8192u64, 8191, 1, 4096]),
            _ => left,
        };
        let k = k.min(left);
        v.push(k);
        left -= k;
        if k == 0 && v.len() > 6 {
            break;
        }
    }
    normalize_sizes(&v, len, lo)
}
fn gen_spec(r: &mut Rng) -> Spec {
    let limits: [u64; 12] = [0, 0, 1, 2, 3, 4, 5, 8, 16, 64, 8191, 8192];
    match r.below(12) {
        0 | 1 => {
            let cap = *r.pick(&[0u64, 1, 2, 3, 7, 16, 50, 100, 8192, 16384, u64::MAX >> 1]);
            let content = gen_content(r, &[cap.min(200), 10, 40], true);
            let len = expand(&content).len() as u64;
            let mut sizes = gen_sizes(r, len, 0);
            if r.chance(1, 3) {
                sizes.insert(r.below(sizes.len() as u64 + 1) as usize, 0);
            }
            Spec::LogWriter { cap, content, sizes }
        }
        2 | 3 => {
            let content = gen_content(r, &[0, 5, 30, 100], false);
            let len = expand(&content).len() as u64;
            let reqs = (0..r.range(1, 6)).map(|_| (r.below(len + 3), *r.pick(&[0u64, 1, 2, 3, 4, 5, 8, 64, 4096]))).collect();
            Spec::Pages { content, reqs }
        }
        4 | 5 => {
            let big = r.chance(1, 6);
            let content = gen_content(r, &[0, 5, 30, 100], big);
            let len = expand(&content).len() as u64;
            let maxb = if len > 1000 { *r.pick(&[4095u64, 4096, 8191, 8192, 5000]) } else { *r.pick(&[1u64, 2, 3, 4, 5, 6, 7, 8, 13, 64]) };
            Spec::Walk { content, maxb, fuel: 140 }
        }
        6 => {
            let (n1, n2) = (r.below(20), r.below(24));
            let bs = if r.chance(1, 2) { gen_text(r, n1) } else { gen_binary(r, n2) };
            let maxb = r.below(bs.len() as u64 + 3);
            Spec::Trunc { bs, maxb }
        }
        7 | 8 => {
            let plimit = *r.pick(&limits[..]);
            let cap = *r.pick(&[0u64, 1, 5, 33, 100, 8192, 20000, 1 << 20]);
            let content = gen_content(r, &[plimit.min(200), cap.min(200), 20], true);
            let len = expand(&content).len() as u64;
            let sizes = gen_sizes(r, len, 1);
            if r.chance(1, 3) {
                Spec::PtyPump { cap, plimit, content, sizes }
            } else {
                Spec::Pump { cap, plimit, content, sizes }
            }
        }
        _ => {
            let pmax = *r.pick(&limits[..]);
            let amax = *r.pick(&[0u64, 1, 2, 5, 33, 100, 8192, 8193, 20000, 1 << 20]);
            let content = gen_content(r, &[pmax.min(200), amax.min(200), 20], true);
            let len = expand(&content).len() as u64;
            let sizes = gen_sizes(r, len, 1);
            Spec::Capture { pmax, amax, content, sizes }
        }
    }
}

fn corpus() -> Vec<Spec> {
    let e = "é".as_bytes().to_vec(); // C3 A9
    vec![
        // S12: page boundary inside a character
        Spec::Walk { content: vec![(b"a".to_vec(), 1), (e.clone(), 3)], maxb: 4, fuel: 20 },
        Spec::Walk { content: vec![("😀".as_bytes().to_vec(), 3)], maxb: 5, fuel: 20 },
        Spec::Pages { content: vec![(e.clone(), 2)], reqs: vec![(0, 1), (1, 1), (0, 3), (1, 2)] },
        // S17: preview limit 0 / smaller than the first character
        Spec::Pump { cap: 100, plimit: 0, content: vec![(b"hello".to_vec(), 1)], sizes: vec![2, 3] },
        Spec::Pump { cap: 100, plimit: 1, content: vec![(e.clone(), 2), (b"ab".to_vec(), 1)], sizes: vec![4, 2] },
        // S20 on the PTY path: "éé" read as 1 + 3 bytes; S17 on the PTY path
        Spec::PtyPump { cap: 100, plimit: 64, content: vec![(e.clone(), 2)], sizes: vec![1, 3] },
        Spec::PtyPump { cap: 100, plimit: 0, content: vec![(b"hello".to_vec(), 1)], sizes: vec![2, 3] },
        // hand-over corners of capture_stream
        Spec::Capture { pmax: 4, amax: 100, content: vec![(b"abcdefgh".to_vec(), 1)], sizes: vec![4, 4] },
        Spec::Capture { pmax: 4, amax: 3, content: vec![(b"abcdefgh".to_vec(), 1)], sizes: vec![3, 3, 2] },
        Spec::Capture { pmax: 0, amax: 5, content: vec![(b"abcdefgh".to_vec(), 1)], sizes: vec![1, 7] },
        Spec::Capture { pmax: 3, amax: 100, content: vec![(e.clone(), 3)], sizes: vec![1, 5] },
        Spec::LogWriter { cap: 5, content: vec![(b"abcdefgh".to_vec(), 1)], sizes: vec![3, 0, 3, 2] },
    ]
}

fn nontrivial(s: &Spec) -> bool {
    match s {
        Spec::LogWriter { cap, content, sizes } => sizes.len() > 1 && expand(content).len() as u64 > *cap / 2,
        Spec::Pages { content, .. } | Spec::Walk { content, .. } => expand(content).iter().any(|b| *b >= 0x80),
        Spec::Trunc { bs, maxb } => (bs.len() as u64) > *maxb,
        Spec::Pump { content, sizes, .. } | Spec::PtyPump { content, sizes, .. } | Spec::Capture { content, sizes, .. } => sizes.len() > 1 && !expand(content).is_empty(),
        Spec::Lifecycle { codes } => codes.len() > 2,
        Spec::PtyRun { sched } => sched.len() > 4,
        Spec::PtyTask(p) => !expand(&p.out).is_empty() || !expand(&p.err).is_empty() || !p.ops.is_empty(),
        Spec::Task { out, err, .. } | Spec::Bash { out, err, .. } => !expand(out).is_empty() || !expand(err).is_empty(),
    }
}
fn kind_name(s: &Spec) -> &'static str {
    match s {
        Spec::LogWriter { .. } => "log_writer",
        Spec::Pages { .. } => "pages",
        Spec::Walk { .. } => "walk",
        Spec::Trunc { .. } => "truncate_utf8",
        Spec::Pump { .. } => "pump",
        Spec::PtyPump { .. } => "pty_pump",
        Spec::Capture { .. } => "capture_stream",
        Spec::Lifecycle { .. } => "lifecycle",
        Spec::PtyRun { .. } => "pty_run",
        Spec::PtyTask(..) => "pty_task",
        Spec::Task { .. } => "task",
        Spec::Bash { .. } => "bash",
    }
}

fn gen_real(r: &mut Rng) -> Spec {
    let limits: [u64; 10] = [0, 1, 3, 4, 5, 16, 64, 100, 8191, 8192];
    let caps: [u64; 9] = [0, 1, 5, 33, 100, 8192, 8193, 20000, 1 << 20];
    if r.chance(3, 5) {
        let plimit = *r.pick(&limits[..]);
        let cap = *r.pick(&caps[..]);
        let variant = match r.below(20) {
            0 => 1,
            1 => 2,
            2 => 3,
            3 | 4 => 4,
            5 => 9,
            6 => 10,
            _ => 0,
        };
        let out = gen_content(r, &[plimit.min(200), cap.min(200), 20], true);
        let big = r.chance(1, 4);
        let err = if r.chance(1, 2) { gen_content(r, &[plimit.min(200), 7, 0], big) } else { vec![] };
        let cancel_after_ms = if variant == 0 && r.chance(1, 4) { Some(r.below(40)) } else { None };
        Spec::Task { variant, out, err, cap, plimit, exit: *r.pick(&[0u64, 0, 1, 3, 7]), cancel_after_ms, page: *r.pick(&[0u64, 4, 5, 7, 64, 4096, 8192]), late_ms: 0 }
    } else {
        let pmax = *r.pick(&limits[..]);
        let amax = *r.pick(&caps[..]);
        let out = gen_content(r, &[pmax.min(200), amax.min(200), 20], true);
        let big = r.chance(1, 4);
        let err = if r.chance(1, 2) { gen_content(r, &[pmax.min(200), 7, 0], big) } else { vec![] };
        Spec::Bash { out, err, pmax, amax, exit: *r.pick(&[0u64, 0, 2]), late_ms: 0 }
    }
}

/// a task whose shell exits at once while a descendant keeps the inherited pipe(s) and writes `late_ms`
/// later (1.2 - 3 s: longer than any plausible "drain" timeout of a second); the i-th such case of a run
/// takes the i-th variant / delay so that a handful of them covers stdout-only, stderr-only and both
fn gen_late(r: &mut Rng, i: u64) -> Spec {
    const DELAYS: [u64; 6] = [1300, 2200, 3000, 1700, 2600, 1200];
    let n0 = 1 + r.below(30);
    let out = if r.chance(1, 5) { vec![] } else { vec![(gen_text(r, n0), 1)] };
    let n = 1 + r.below(20);
    let err = vec![(gen_text(r, n), 1)];
    Spec::Task {
        variant: 5 + i % 3,
        out,
        err,
        cap: *r.pick(&[5u64, 100, 1 << 20, 1 << 20]),
        plimit: *r.pick(&[0u64, 4, 64, 8192]),
        exit: *r.pick(&[0u64, 0, 3]),
        cancel_after_ms: None,
        page: *r.pick(&[0u64, 5, 64]),
        late_ms: DELAYS[(i % 6) as usize] + if i >= 6 { r.below(400) } else { 0 },
    }
}


/// PTY tasks: the i-th one of a run takes the i-th slot of a table that covers every output shape of the pipes
/// cases (text with multi-byte characters and CR / LF, binary, nothing, bursts, large output against the cap, a
/// left-behind daemon writing after the shell's exit), cooked and raw terminals, every control operation before
/// the start / while running / after the end, the failure paths; content, limits and delays are drawn from the seed
fn gen_pty(r: &mut Rng, i: u64) -> Spec {
    let limits: [u64; 9] = [0, 1, 3, 4, 16, 64, 100, 8191, 8192];
    let caps: [u64; 8] = [0, 1, 5, 33, 100, 8192, 20000, 1 << 20];
    let mut p = PtySpec { shape: 0, out: vec![], err: vec![], raw: false, cap: 1 << 20, plimit: *r.pick(&limits[..]), exit: *r.pick(&[0u64, 0, 1, 3, 7]), ops: vec![], page: *r.pick(&[0u64, 4, 5, 64, 4096]), late_ms: 0, rows: 0, cols: 0 };
    let n1 = 1 + r.below(40);
    let line_units = ["a", "b", "é", "€", "😀", " ", "z", "Q"];
    let mut line = String::new();
    for _ in 0..(1 + r.below(12)) {
        line.push_str(*r.pick(&line_units[..]));
    }
    let step = |when: u64, op: PtyOp| PtyStep { when, op };
    let slot = if i < 24 { i } else { r.below(24) };
    match slot {
        0 => p.out = gen_content(r, &[p.plimit.min(200), 20, 60], true),
        1 => {
            p.raw = true;
            p.out = vec![(gen_text(r, n1), 1)];
            p.cap = *r.pick(&caps[..]);
        }
        2 => {
            // a long run of one multi-byte character after an odd prefix: the terminal delivers it in several
            // reads, some of which end inside a character
            let unit = *r.pick(&["é", "€", "😀"]);
            p.out = vec![(b"x".to_vec(), 1 + r.below(2)), (unit.as_bytes().to_vec(), *r.pick(&[4096u64, 8192, 20000]) / unit.len() as u64 + r.below(3))];
            p.plimit = *r.pick(&[64u64, 8191, 8192]);
            p.raw = r.chance(1, 2);
        }
        3 => {
            let k = 20 + r.below(200);
            p.out = vec![(gen_binary(r, k), 1)]
        }
        4 => {}
        5 => {
            p.out = gen_content(r, &[100, 200], true);
            p.err = vec![(gen_text(r, n1), 1)];
            p.cap = *r.pick(&caps[..6]);
        }
        6 => {
            p.shape = 1;
            p.out = if r.chance(1, 4) { vec![] } else { vec![(gen_text(r, n1), 1)] };
            let k = 1 + r.below(20);
            p.err = vec![(gen_text(r, k), 1)];
            p.late_ms = 1200 + r.below(900);
            p.raw = r.chance(1, 3);
        }
        7 | 8 | 23 => {
            p.shape = 2;
            p.raw = slot == 8;
            if slot == 23 {
                p.plimit = *r.pick(&[0u64, 1, 3, 4]);
            }
            p.ops = vec![step(1, PtyOp::Stdin(format!("{line}\n").into_bytes()))];
        }
        9 => {
            p.shape = 3;
            p.ops = vec![step(1, PtyOp::Resize(1 + r.below(200), 1 + r.below(300))), step(1, PtyOp::Stdin(b"\n".to_vec()))];
        }
        10 => {
            p.shape = 3;
            p.rows = 1 + r.below(100);
            p.cols = 1 + r.below(250);
            p.ops = vec![step(1, PtyOp::Stdin(b"\n".to_vec()))];
        }
        11 => {
            p.shape = 4;
            p.ops = vec![step(1, PtyOp::Signal((*r.pick(&["SIGINT", "int", "INT", " sigint "])).to_string()))];
        }
        12 => {
            p.shape = 4;
            p.ops = vec![step(1, PtyOp::Signal((*r.pick(&["SIGQUIT", "quit"])).to_string()))];
        }
        13 => {
            p.shape = 4;
            p.ops = vec![step(1, PtyOp::Signal((*r.pick(&["SIGTERM", "KILL", "hup"])).to_string()))];
        }
        14 => {
            p.shape = 5;
            p.out = gen_content(r, &[p.plimit.min(200), 30], true);
            p.raw = r.chance(1, 3);
            p.ops = vec![step(1, PtyOp::Cancel)];
            if r.chance(1, 2) {
                p.ops.push(step(2, PtyOp::Cancel));
            }
        }
        15 => {
            p.shape = 6;
            p.out = vec![(gen_text(r, n1), 1)];
        }
        16 | 17 | 18 => {
            p.shape = 7 + (slot - 16);
            p.out = vec![(gen_text(r, 5), 1)];
        }
        19 => {
            p.shape = 10;
            p.out = vec![(gen_text(r, n1), 1)];
            p.ops = vec![step(0, PtyOp::Cancel)];
        }
        20 => {
            p.out = vec![(gen_text(r, n1), 1)];
            // before the start the control channel usually does not exist yet (400); a request that IS accepted takes
            // effect (typed input is echoed, ^C kills the command): then only the structure of the log is checked
            let early = match r.below(3) {
                0 => PtyOp::Resize(30, 100),
                1 => PtyOp::Stdin(b"x\n".to_vec()),
                _ => PtyOp::Signal("SIGINT".into()),
            };
            p.ops = vec![
                step(0, early),
                step(2, PtyOp::Stdin(b"late\n".to_vec())),
                step(2, PtyOp::Resize(10, 10)),
                step(2, PtyOp::Signal("SIGINT".into())),
                step(2, PtyOp::Cancel),
            ];
        }
        21 => {
            p.out = gen_content(r, &[60, 200], true);
            p.ops = vec![step(0, PtyOp::Cancel)];
        }
        _ => {
            // CR / LF in every combination, cooked: the log holds what the terminal made of it
            p.out = vec![((*r.pick(&["a\nb\r\nc\n", "\n\n\r\n", "x\ry\n", "é\n€\r\n😀"])).as_bytes().to_vec(), 1 + r.below(50))];
            p.cap = *r.pick(&caps[..]);
        }
    }
    Spec::PtyTask(p)
}

fn main() {
    // PTY tasks are policy-gated; the router reads the switch when it is built
    std::env::set_var("RIP_TASKS_ALLOW_PTY", "1");
    let a = parse_args();
    let mut res = RunResult::new("C17", &a);
    res.rule = "direct-drive cases = (caps, preview limits, content, chunking) from a seeded generator: content valid multi-byte text / biased binary / large repeated patterns around 8192; chunk sizes 1, small, 8191/8192, whole; caps and limits incl. 0; random (offset,max_bytes) pages and page walks; real runs = background tasks through the router (POST /tasks, cancel at random delays, pre-/post-spawn failures, GET output page walks) and foreground bash tool runs with generated stdout/stderr volumes; non-trivial = more than one chunk or multi-byte content or an actual truncation or a real run with output; distinct by hash of the case".into();
    let (n, nreal, nlate) = if a.thorough() { (6000, 700, 18) } else { (600, 70, 4) };
    let npty: u64 = if a.thorough() { 144 } else { 30 };
    let pty_ok = pty_available();
    let rt = tokio::runtime::Builder::new_multi_thread().worker_threads(4).enable_all().build().unwrap();
    let mut r = Rng::new(a.seed);
    let mut w = CaseWriter::new(&a.out, "Model.Capture", "check_case", "model_obs", 60);
    let mut distinct = Distinct::default();
    let mut all: Vec<Spec> = vec![];
    if let Some(path) = &a.replay {
        // a replay file written by ./check ({"case": spec, ..}) or a corpus file (the spec itself)
        let v: Value = serde_json::from_str(&std::fs::read_to_string(path).expect("replay file")).expect("replay json");
        let c = v.get("case").cloned().unwrap_or(v);
        all.push(spec_from_json(&c).expect("replayable spec"));
    } else {
        all = corpus();
        if let Ok(rd) = std::fs::read_dir(concat!(env!("CARGO_MANIFEST_DIR"), "/../corpus/C17")) {
            let mut files: Vec<_> = rd.filter_map(|e| e.ok()).map(|e| e.path()).collect();
            files.sort();
            for f in files {
                if let Some(sp) = std::fs::read_to_string(&f).ok().and_then(|t| serde_json::from_str::<Value>(&t).ok()).and_then(|v| spec_from_json(&v)) {
                    all.push(sp);
                }
            }
        }
        for _ in 0..n {
            all.push(gen_spec(&mut r));
        }
        for _ in 0..nreal {
            all.push(gen_real(&mut r));
        }
        for i in 0..nlate {
            all.push(gen_late(&mut r, i));
        }
        for i in 0..(nlate / 2) {
            let (out, err) = (vec![(gen_text(&mut r, 10), 1)], vec![(gen_text(&mut r, 8), 1)]);
            all.push(Spec::Bash { out, err, pmax: *r.pick(&[4u64, 64, 8192]), amax: *r.pick(&[5u64, 100, 1 << 20]), exit: *r.pick(&[0u64, 2]), late_ms: [1400u64, 2400, 1900, 2900][(i % 4) as usize] });
        }
        for _ in 0..(nlate / 4) {
            let (out, err) = (vec![(gen_text(&mut r, 10), 1)], vec![(gen_text(&mut r, 8), 1)]);
            all.push(Spec::Task { variant: 11, out, err, cap: 1 << 20, plimit: *r.pick(&[0u64, 64]), exit: 0, cancel_after_ms: Some(0), page: 0, late_ms: 1200 + r.below(800) });
        }
        for _ in 0..(nlate / 4) {
            let out = vec![(gen_text(&mut r, 12), 1)];
            all.push(Spec::Task { variant: 8, out, err: vec![], cap: 1 << 20, plimit: 64, exit: 0, cancel_after_ms: Some(0), page: 0, late_ms: 0 });
        }
        for i in 0..npty {
            all.push(gen_pty(&mut r, i));
        }
    }
    // the late-writer tasks cost seconds of wall time each (and nothing else): they are started now,
    // each in a world of its own (tasks of one world share the workspace lock), and run concurrently
    // with the rest of the cases; the loop below collects them where they stand in the case list
    let mut started: std::collections::HashMap<usize, tokio::task::JoinHandle<(Obs, Vec<u64>)>> = Default::default();
    let mut started_bash: std::collections::HashMap<usize, tokio::task::JoinHandle<(Obs, Vec<(Spec, Vec<u64>)>)>> = Default::default();
    for (i, s) in all.iter().enumerate() {
        if let Spec::Task { variant: 5..=7 | 10 | 11, .. } = s {
            let sp = s.clone();
            started.insert(i, rt.spawn(async move {
                let mut wd = World::new();
                run_task(&mut wd, &sp).await
            }));
        }
        if let Spec::Bash { out, err, pmax, amax, exit, late_ms: 1.. } = s {
            let Spec::Bash { late_ms, .. } = s else { unreachable!() };
            let (out, err, pmax, amax, exit, late_ms) = (out.clone(), err.clone(), *pmax, *amax, *exit, *late_ms);
            started_bash.insert(i, rt.spawn(async move {
                let mut wd = World::new();
                run_bash(&mut wd, &out, &err, pmax, amax, exit, late_ms).await
            }));
        }
    }
    // PTY tasks: a world each (an unfinished task would keep the workspace lock), started now; the ones that need
    // the harness to act before run_task is first polled get a current-thread runtime (and a thread) of their own
    let mut started_pty: std::collections::HashMap<usize, tokio::task::JoinHandle<PtyRunOut>> = Default::default();
    let mut threads_pty: std::collections::HashMap<usize, std::thread::JoinHandle<PtyRunOut>> = Default::default();
    for (i, s) in all.iter().enumerate() {
        if let Spec::PtyTask(p) = s {
            if !pty_ok {
                continue;
            }
            let p = p.clone();
            if p.shape == 9 || p.shape == 10 {
                threads_pty.insert(i, std::thread::spawn(move || {
                    let rt1 = tokio::runtime::Builder::new_current_thread().enable_all().build().unwrap();
                    let out = rt1.block_on(async move {
                        let mut wd = World::new();
                        run_pty_task(&mut wd, &p).await
                    });
                    rt1.shutdown_background();
                    out
                }));
            } else {
                started_pty.insert(i, rt.spawn(async move {
                    let mut wd = World::new();
                    run_pty_task(&mut wd, &p).await
                }));
            }
        }
    }
    // early cancel: a current-thread runtime of its own (a thread each), so that nothing polls the spawned
    // run_task between POST /tasks and POST cancel
    let mut threads: std::collections::HashMap<usize, std::thread::JoinHandle<(Obs, Vec<u64>)>> = Default::default();
    for (i, s) in all.iter().enumerate() {
        if let Spec::Task { variant: 8, .. } = s {
            let sp = s.clone();
            threads.insert(i, std::thread::spawn(move || {
                let rt1 = tokio::runtime::Builder::new_current_thread().enable_all().build().unwrap();
                rt1.block_on(async move {
                    let mut wd = World::new();
                    run_task(&mut wd, &sp).await
                })
            }));
        }
    }
    let mut world: Option<World> = None;
    for (i, s) in all.iter().enumerate() {
        let s2 = s.clone();
        res.evaluations += 1;
        res.oracle_checks += 1;
        res.bump(&format!("kind={}", kind_name(s)));
        // (observations, cases for the model)
        let got: Result<(Obs, Vec<(Spec, Vec<u64>)>), _> = match s {
            Spec::Task { variant, late_ms, .. } => {
                if (5..=7).contains(variant) || *variant == 11 {
                    res.bump(&format!("late_writer=v{variant}/{}ms", late_ms / 500 * 500));
                }
                if let Some(h) = started.remove(&i) {
                    match rt.block_on(h) {
                        Ok((o, codes)) => {
                            if let Some(n) = &o.enc_note {
                                res.bump(n);
                            }
                            Ok(res_codes_case(o, codes, *variant))
                        }
                        Err(e) => Err(Box::new(e.to_string()) as Box<dyn std::any::Any + Send>),
                    }
                } else if let Some(h) = threads.remove(&i) {
                    h.join().map(|(o, codes)| {
                        // observation, not a violation (the property orders the two cancel frames when they
                        // exist): is a request made before run_task subscribed ever noticed?
                        res.bump(if codes.contains(&2) { "early_cancel=taken" } else { "early_cancel=lost(202, never recorded)" });
                        res_codes_case(o, codes, *variant)
                    })
                } else {
                    if world.is_none() {
                        let _g = rt.enter();
                        world = Some(World::new());
                    }
                    let wd = world.as_mut().unwrap();
                    std::panic::catch_unwind(std::panic::AssertUnwindSafe(|| {
                        let (o, codes) = rt.block_on(run_task(wd, s));
                        res_codes_case(o, codes, *variant)
                    }))
                    .map(|(o, c)| {
                        if let Some(n) = &o.enc_note {
                            res.bump(n);
                        }
                        (o, c)
                    })
                }
            }
            Spec::PtyTask(p) => {
                res.bump(&format!("pty_shape={}{}", p.shape, if p.raw { "/raw" } else { "" }));
                let got: Result<PtyRunOut, Box<dyn std::any::Any + Send>> = if let Some(h) = started_pty.remove(&i) {
                    rt.block_on(h).map_err(|e| Box::new(e.to_string()) as Box<dyn std::any::Any + Send>)
                } else if let Some(h) = threads_pty.remove(&i) {
                    h.join()
                } else {
                    // no PTY on this machine (/dev/ptmx cannot be opened): the case is skipped, with a note
                    res.bump("pty=skipped(no /dev/ptmx)");
                    Ok(PtyRunOut { o: Obs::default(), codes: vec![], ended: false, notes: vec![] })
                };
                got.map(|out| {
                    for n in &out.notes {
                        res.bump(n);
                    }
                    if let Some(n) = &out.o.enc_note {
                        res.bump(n);
                    }
                    if let Some(c) = out.codes.iter().find(|c| (22..=24).contains(*c)) {
                        res.bump(&format!("pty_task_end={c}"));
                    }
                    let cases = pty_case(&out);
                    (out.o, cases)
                })
            }
            Spec::Bash { late_ms: 1.., .. } if started_bash.contains_key(&i) => {
                res.bump("late_writer=bash");
                rt.block_on(started_bash.remove(&i).unwrap()).map_err(|e| Box::new(e.to_string()) as Box<dyn std::any::Any + Send>)
            }
            Spec::Bash { out, err, pmax, amax, exit, late_ms } => {
                if world.is_none() {
                    let _g = rt.enter();
                    world = Some(World::new());
                }
                let wd = world.as_mut().unwrap();
                std::panic::catch_unwind(std::panic::AssertUnwindSafe(|| rt.block_on(run_bash(wd, out, err, *pmax, *amax, *exit, *late_ms))))
            }
            _ => std::panic::catch_unwind(std::panic::AssertUnwindSafe(|| {
                let o = rt.block_on(run_spec(&s2));
                let enc = o.enc.clone();
                (o, vec![(s2.clone(), enc)])
            })),
        };
        match got {
            Err(_) => {
                res.impl_panics += 1;
                res.oracle_violations.push(OracleViolation { case_id: i as i64, what: format!("{} panicked", kind_name(s)), class: "panic".into(), replay: spec_json(s) });
            }
            Ok((o, cases)) => {
                let mut id = i as i64;
                if !a.oracle_only() {
                    for (cs, enc) in &cases {
                        id = w.push(coq_case(cs, enc)) as i64;
                        if res.case_index.len() < 3000 {
                            res.case_index.insert(id.to_string(), json!({"run": spec_json(s), "compared": spec_json(cs)}));
                        }
                    }
                }
                for (what, class) in o.fails {
                    res.bump(&format!("violation={class}"));
                    res.oracle_violations.push(OracleViolation { case_id: id, what, class, replay: spec_json(s) });
                }
                if nontrivial(s) {
                    distinct.add(&format!("{:?}", s));
                }
                if let Spec::Task { .. } = s {
                    if let Some((Spec::Lifecycle { codes }, _)) = cases.first() {
                        res.bump(&format!("task_end={}", codes.last().copied().unwrap_or(0)));
                        if codes.contains(&2) {
                            res.bump("task_cancel_taken");
                        }
                    }
                }
            }
        }
        if res.samples.len() < 3 && nontrivial(s) && i >= 10 {
            res.samples.push(spec_json(s));
        }
    }
    drop(world);
    if !pty_ok {
        println!("c17: no PTY available (/dev/ptmx cannot be opened): PTY task cases skipped");
    }
    w.flush();
    res.distinct_nontrivial = distinct.count();
    res.case_files = w.files.iter().map(|p| p.display().to_string()).collect();
    res.write(&a.out);
    println!("c17: {} cases, {} distinct non-trivial, {} oracle violations, {} panics", res.evaluations, res.distinct_nontrivial, res.oracle_violations.len(), res.impl_panics);
    // a PTY task that never ends leaves its reader thread blocked in read(2): do not wait for it
    rt.shutdown_background();
}

/// a real task's kind sequence becomes a lifecycle case for the model's recogniser: the expected
/// observation says "accepted as a complete word" (or the single failed frame of a pre-spawn failure)
fn res_codes_case(o: Obs, codes: Vec<u64>, variant: u64) -> (Obs, Vec<(Spec, Vec<u64>)>) {
    if codes.is_empty() {
        return (o, vec![]);
    }
    let spawnless = false; // since the repair of S12b every stream opens with the spawn frame
    let _ = variant;
    let mut enc = if spawnless { vec![0, 0, 1] } else { vec![1, 1, 0] };
    enc.extend(codes.iter().copied());
    (o, vec![(Spec::Lifecycle { codes }, enc)])
}
