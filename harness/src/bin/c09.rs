//! C09 — compaction (cut points / manual checkpoint / auto / schedule / status) of the real
//! `ripd::ContinuityStore` vs coq/Model/Compaction.v, plus the independent oracle:
//! cut points recomputed from a replay of events.jsonl by a small reference, "nothing to do =>
//! events.jsonl unchanged", every checkpoint references a readable summary with matching coverage,
//! job bracket, ordinal-index path == truth path (store copy without continuity_streams/),
//! same history built twice => same canonical observations and summary text.
use ripd::{
    CompactionAutoScheduleV1Request, CompactionAutoV1Request, CompactionCheckpointCumulativeV1Request,
    CompactionCutPointsV1Request, CompactionStatusV1Request, ContinuityStore,
};
use rip_kernel::{Event, EventKind, StreamKind};
use rip_log::EventLog;
use rv::*;
use serde_json::{json, Value};
use std::collections::{BTreeMap, HashMap};
use std::path::{Path, PathBuf};
use std::sync::Arc;

// ------------------------------------------------------------------ cases
#[derive(Clone, Debug, PartialEq)]
enum Op {
    Msg { actor: u64, content: u64 },
    Other(u64),
    Manual { md: Option<u64>, art: Option<u64>, to_mid: Option<u64>, to_seq: Option<u64>, stride: Option<u64> },
    Cut { stride: Option<u64>, limit: Option<u64> },
    Status { stride: Option<u64> },
    Auto { stride: Option<u64>, maxnew: Option<u64>, dry: Option<bool> },
    Sched { stride: Option<u64>, maxnew: Option<u64>, block: Option<bool>, exec: Option<bool>, dry: Option<bool> },
    DropArt(u64),
    /// damage the rebuildable caches under data/continuity_streams (no effect in the model: caches are not truth)
    Fault(u64),
}

fn coq_on(o: &Option<u64>) -> String {
    coq_opt(o, |x| coq_n(*x))
}
fn coq_ob(o: &Option<bool>) -> String {
    coq_opt(o, |x| coq_bool(*x).to_string())
}
fn coq_op(o: &Op) -> String {
    match o {
        Op::Msg { actor, content } => format!("OMsg {actor} {content}"),
        Op::Other(_) => "OOther".into(),
        Op::Manual { md, art, to_mid, to_seq, stride } => format!(
            "OManual {{| mr_md := {}; mr_art := {}; mr_to_mid := {}; mr_to_seq := {}; mr_stride := {} |}}",
            coq_on(md),
            coq_on(art),
            coq_on(to_mid),
            coq_on(to_seq),
            coq_on(stride)
        ),
        Op::Cut { stride, limit } => format!("OCut {} {}", coq_on(stride), coq_on(limit)),
        Op::Status { stride } => format!("OStatus {}", coq_on(stride)),
        Op::Auto { stride, maxnew, dry } => format!("OAuto {} {} {}", coq_on(stride), coq_on(maxnew), coq_ob(dry)),
        Op::Sched { stride, maxnew, block, exec, dry } => {
            format!("OSched {} {} {} {} {}", coq_on(stride), coq_on(maxnew), coq_ob(block), coq_ob(exec), coq_ob(dry))
        }
        Op::DropArt(a) => format!("ODropArt {a}"),
        Op::Fault(_) => "OOther".into(), // never printed: filtered out by coq_case
    }
}
fn coq_case(ops: &[Op], expect: &[u64]) -> String {
    let model_ops: Vec<Op> = ops.iter().filter(|o| !matches!(o, Op::Fault(_))).cloned().collect();
    format!("{{| c_consts := real_consts; c_ops := {}; c_expect := {} |}}", coq_list(&model_ops, coq_op), coq_list_n(expect))
}
fn case_json(ops: &[Op]) -> Value {
    json!({ "ops": ops.iter().map(|o| format!("{o:?}")).collect::<Vec<_>>() })
}

// ------------------------------------------------------------------ message text
const WORDS: [&str; 24] = [
    "alpha", "beta", "gamma", "delta", "cache", "index", "replay", "stream", "cursor", "frame", "thread", "sidecar",
    "Kernel", "PARSER", "résumé", "naïve", "snake_case", "kebab-case", "x86", "a1", "the", "and", "12345", "zz",
];
fn content_text(tok: u64) -> String {
    // deterministic text with ties in word counts, > 12 distinct words, notable-looking lines, blank first lines
    let mut r = Rng::new(tok.wrapping_mul(7919) + 11);
    let lines = 1 + r.below(4);
    let mut s = String::new();
    if tok % 5 == 0 {
        s.push_str("\n  \n");
    }
    for li in 0..lines {
        match r.below(6) {
            0 => s.push_str("TODO: "),
            1 => s.push_str("- [ ] "),
            2 => s.push_str("Decision: "),
            3 => s.push_str("ERROR "),
            _ => {}
        }
        let n = 1 + r.below(9);
        for _ in 0..n {
            s.push_str(*r.pick(&WORDS[..]));
            s.push(' ');
        }
        if li == 0 {
            // the first non-blank line names the content token: a `## Recent Delta Highlights` entry of a summary
            // identifies the message it was taken from
            s.push_str(&format!("tok{tok}"));
        }
        if li + 1 < lines {
            s.push('\n');
        }
    }
    s
}
/// `extract_cumulative_summary_section` as the summary contract describes it: the text between the line
/// `## Cumulative Summary` and the next `## ` heading, trimmed; None when blank (independent re-implementation)
fn cumulative_section(md: &str) -> Option<String> {
    let mut it = md.lines();
    for l in it.by_ref() {
        if l.trim() == "## Cumulative Summary" {
            break;
        }
    }
    let mut out = String::new();
    for l in it {
        if l.trim_start().starts_with("## ") {
            break;
        }
        out.push_str(l);
        out.push('\n');
    }
    let t = out.trim();
    if t.is_empty() { None } else { Some(t.to_string()) }
}
const MAX_SUMMARY_CHARS: usize = 20_000;
const LEGACY_MD: &str = "# Compaction summary (auto)\n\n- kind: cumulative_v1\n- cut_rule_id: stride_messages_v1/2\n- stride_messages: 2\n- target_message_ordinal: 2\n- to_seq: 2\n- to_message_id: x\n";

// ------------------------------------------------------------------ world
struct World {
    _scratch: Scratch,
    root: PathBuf,
    data: PathBuf,
    ws: PathBuf,
    log: Arc<EventLog>,
    store: Arc<ContinuityStore>,
    tid: String,
    events: Vec<Event>,
    fid: HashMap<String, u64>,  // frame uuid -> canonical id (seq + 1)
    arts: Vec<(String, Vec<u64>, String)>, // artifact uuid, encoding (as first read), markdown
    jobs: Vec<String>,
    contents: HashMap<String, u64>,
    /// findings made while reading a summary artifact for the first time (text-level checks of what fed it)
    art_viol: std::cell::RefCell<Vec<Viol>>,
    /// a summary reached the 20 000-character cap: its trailing sections are cut, the case is not compared
    truncated: std::cell::Cell<bool>,
    /// no concurrent callers in this world
    sequential: bool,
}

fn unknown_uuid(k: u64) -> String {
    format!("00000000-0000-4000-8000-{:012x}", k)
}

impl World {
    fn new(tag: &str) -> World {
        let scratch = Scratch::new(tag);
        let root = scratch.path().to_path_buf();
        let data = root.join("data");
        let ws = root.join("ws");
        std::fs::create_dir_all(&ws).unwrap();
        let log = Arc::new(EventLog::new(data.join("events.jsonl")).unwrap());
        let store = Arc::new(ContinuityStore::new(data.clone(), ws.clone(), log.clone()).unwrap());
        let tid = store.ensure_default().unwrap();
        let mut w = World { _scratch: scratch, root, data, ws, log, store, tid, events: vec![], fid: HashMap::new(), arts: vec![], jobs: vec![], contents: HashMap::new(), art_viol: Default::default(), truncated: Default::default(), sequential: true };
        w.refresh();
        w
    }
    /// re-read truth (events.jsonl) and extend the canonical id maps
    fn refresh(&mut self) {
        self.events = self.log.replay_stream(StreamKind::Continuity, &self.tid).unwrap();
        for e in &self.events {
            self.fid.entry(e.id.clone()).or_insert(e.seq + 1);
        }
        let evs = self.events.clone();
        for e in &evs {
            match &e.kind {
                EventKind::ContinuityCompactionCheckpointCreated { summary_artifact_id, .. } => {
                    if !self.arts.iter().any(|a| &a.0 == summary_artifact_id) {
                        let (enc, md) = self.read_art(summary_artifact_id);
                        self.check_base_choice(summary_artifact_id, e.seq);
                        self.arts.push((summary_artifact_id.clone(), enc, md));
                    }
                }
                EventKind::ContinuityJobSpawned { job_id, .. } => {
                    if !self.jobs.contains(job_id) {
                        self.jobs.push(job_id.clone());
                    }
                }
                _ => {}
            }
        }
    }
    /// Sequential runs only (no other call appends between a summary's base look-up and its checkpoint frame): the
    /// base a new summary records is the summary of the latest checkpoint frame below its cut — greatest to_seq
    /// < coverage.to_seq, then the latest frame — among the frames before the one that introduces the summary.
    /// Recomputed from events.jsonl and the artifact alone (c09_summary_base_is_latest_below_cut).
    fn check_base_choice(&self, id: &str, frame_seq: u64) {
        if !self.sequential {
            return;
        }
        let Some(v) = self.read_art_json(id) else { return };
        let Some(t) = v["coverage"]["to_seq"].as_u64() else { return };
        let want = self
            .events
            .iter()
            .filter(|e| e.seq < frame_seq)
            .filter_map(|e| match &e.kind {
                EventKind::ContinuityCompactionCheckpointCreated { summary_artifact_id, to_seq, .. } if *to_seq < t => Some((*to_seq, e.seq, summary_artifact_id.clone())),
                _ => None,
            })
            .max_by_key(|x| (x.0, x.1))
            .map(|x| x.2);
        let got = v["basis"]["base_summary_artifact_id"].as_str().map(|x| x.to_string());
        if got != want {
            self.art_viol.borrow_mut().push(Viol {
                what: format!("summary {id} (coverage to_seq {t}, introduced by frame seq {frame_seq}) records base {:?} (artifact #{}); the latest checkpoint frame below the cut names {:?} (artifact #{})", got, got.as_ref().map(|g| self.art_no(g)).unwrap_or(0), want, want.as_ref().map(|g| self.art_no(g)).unwrap_or(0)),
                class: "summary_base_not_latest_checkpoint".into(),
            });
        }
    }
    fn art_no(&self, id: &str) -> u64 {
        self.arts.iter().position(|a| a.0 == id).map(|i| i as u64 + 1).unwrap_or(999_999)
    }
    fn job_no(&self, id: &str) -> u64 {
        self.jobs.iter().position(|a| a == id).map(|i| i as u64 + 1).unwrap_or(999_999)
    }
    fn frame_no(&self, id: &str) -> u64 {
        self.fid.get(id).copied().unwrap_or(999_999)
    }
    fn uuid_of_frame(&self, canon: u64) -> String {
        self.events.iter().find(|e| e.seq + 1 == canon).map(|e| e.id.clone()).unwrap_or_else(|| unknown_uuid(canon))
    }
    fn uuid_of_art(&self, canon: u64) -> String {
        if canon >= 1 && (canon as usize) <= self.arts.len() {
            self.arts[canon as usize - 1].0.clone()
        } else {
            format!("{:032x}{:032x}", canon, 7u8)
        }
    }
    fn blob(&self, id: &str) -> PathBuf {
        self.ws.join(".rip").join("artifacts").join("blobs").join(id)
    }
    fn read_art_json(&self, id: &str) -> Option<Value> {
        let b = std::fs::read(self.blob(id)).ok()?;
        serde_json::from_slice(&b).ok()
    }
    /// encoding of a summary artifact (mirrors enc_summ minus the leading id) + markdown
    fn read_art(&self, id: &str) -> (Vec<u64>, String) {
        let mut out = vec![];
        let Some(v) = self.read_art_json(id) else { return (vec![777_777], String::new()) };
        out.push(v["coverage"]["to_seq"].as_u64().unwrap_or(888_888));
        enc_opt(&mut out, v["coverage"]["to_message_id"].as_str().map(|s| self.frame_no(s)));
        enc_opt(&mut out, v["basis"]["base_summary_artifact_id"].as_str().map(|s| self.art_no(s)));
        let note = match v["basis"]["note"].as_str() {
            None => 0,
            Some(n) if n.contains("legacy_base") => 1,
            Some(n) if n.contains("base_read_failed") => 2,
            Some(_) => 9,
        };
        out.push(note);
        let auto = v["provenance"]["produced_by"]["type"].as_str() == Some("job");
        out.push(auto as u64);
        let md = v["summary_markdown"].as_str().unwrap_or("").to_string();
        let delta = if auto {
            md.lines().find_map(|l| l.strip_prefix("- delta_message_count: ")).and_then(|x| x.trim().parse::<u64>().ok()).unwrap_or(666_666)
        } else {
            0
        };
        out.push(delta);
        // which messages fed the summary, as far as it records them: `- delta_actors:` (per-actor counts of the
        // delta, first 6) and `## Recent Delta Highlights` (the last 12 messages of the delta: actor + first line)
        if md.chars().count() >= MAX_SUMMARY_CHARS {
            self.truncated.set(true);
        }
        let mut actors: Vec<(u64, u64)> = vec![];
        if auto {
            if let Some(l) = md.lines().find_map(|l| l.strip_prefix("- delta_actors: ")) {
                if l.trim() != "none" {
                    for part in l.split(", ") {
                        let (a, c) = part.split_once('=').unwrap_or(("", ""));
                        actors.push((a.trim().trim_start_matches("actor").parse().unwrap_or(444_444), c.trim().parse().unwrap_or(444_444)));
                    }
                }
            } else {
                actors.push((555_555, 555_555));
            }
        }
        out.push(actors.len() as u64);
        for (a, c) in &actors {
            out.extend([*a, *c]);
        }
        let mut high: Vec<(u64, u64)> = vec![];
        if auto {
            match md.rfind("## Recent Delta Highlights") {
                None => high.push((555_555, 555_555)),
                Some(at) => {
                    for l in md[at..].lines().skip(1) {
                        let Some(l) = l.strip_prefix("- ") else { continue };
                        let (a, rest) = l.split_once(": ").unwrap_or(("", ""));
                        let tok = rest.split_whitespace().last().and_then(|w| w.strip_prefix("tok")).and_then(|x| x.parse::<u64>().ok());
                        high.push((a.trim_start_matches("actor").parse().unwrap_or(444_444), tok.unwrap_or(444_444)));
                    }
                }
            }
        }
        out.push(high.len() as u64);
        for (a, c) in &high {
            out.extend([*a, *c]);
        }
        // independent re-computation of the delta: a cumulative summary covers the thread up to its to_seq; what its base
        // (when its text is carried forward) does not cover already — the messages after the base's to_seq up to the
        // cut — must be what was folded in: their number, their per-actor counts, the last 12 of them
        if auto && !self.truncated.get() {
            let t = v["coverage"]["to_seq"].as_u64().unwrap_or(0);
            let lo = if note == 0 {
                match v["basis"]["base_summary_artifact_id"].as_str() {
                    None => Some(0),
                    Some(b) => self.read_art_json(b).and_then(|bj| bj["coverage"]["to_seq"].as_u64()),
                }
            } else {
                Some(0)
            };
            if let Some(lo) = lo {
                let want: Vec<(u64, u64)> = self
                    .events
                    .iter()
                    .filter_map(|e| match &e.kind {
                        EventKind::ContinuityMessageAppended { actor_id, content, .. } if e.seq > lo && e.seq <= t => Some((actor_id.trim_start_matches("actor").parse().unwrap_or(444_444), self.contents.get(content).copied().unwrap_or(444_444))),
                        _ => None,
                    })
                    .collect();
                let mut counts: BTreeMap<u64, u64> = BTreeMap::new();
                for (a, _) in &want {
                    *counts.entry(*a).or_default() += 1;
                }
                let mut want_actors: Vec<(u64, u64)> = counts.into_iter().collect();
                want_actors.sort_by(|x, y| y.1.cmp(&x.1).then(x.0.cmp(&y.0)));
                want_actors.truncate(6);
                let want_high: Vec<(u64, u64)> = want[want.len().saturating_sub(12)..].to_vec();
                if delta != want.len() as u64 || actors != want_actors || high != want_high {
                    self.art_viol.borrow_mut().push(Viol {
                        what: format!("summary {id} (coverage to_seq {t}, base coverage to_seq {lo}) was built from {delta} message(s), actors {actors:?}, last (actor, content) {high:?}; the messages with {lo} < seq <= {t} are {} with actors {want_actors:?}, last {want_high:?}", want.len()),
                        class: "summary_delta_not_the_uncovered_messages".into(),
                    });
                }
            }
        }
        // text level: a cumulative summary built on a readable, non-placeholder base carries that base's cumulative
        // section forward at the head of its own; a bootstrap summary starts from the topics of the whole history
        // (not judged on a summary that reached the character cap: the carried section itself may be cut)
        if auto && md.chars().count() < MAX_SUMMARY_CHARS {
            let base_md = v["basis"]["base_summary_artifact_id"].as_str().and_then(|b| self.arts.iter().find(|a| a.0 == b)).map(|a| a.2.clone());
            let own = cumulative_section(&md).unwrap_or_default();
            match (note, base_md) {
                (0, Some(b)) => {
                    let want = cumulative_section(&b).unwrap_or_else(|| b.trim().to_string());
                    if !own.starts_with(want.trim()) {
                        self.art_viol.borrow_mut().push(Viol { what: format!("summary {id} names base summary {} but its cumulative section does not start with that base's cumulative section:\n{own}\n---- base section ----\n{want}", v["basis"]["base_summary_artifact_id"]), class: "summary_base_not_carried".into() });
                    }
                }
                (0, None) if v["basis"]["base_summary_artifact_id"].is_string() => {}
                _ => {
                    if !own.starts_with("Topics so far (best-effort):") && delta > 0 {
                        self.art_viol.borrow_mut().push(Viol { what: format!("bootstrap summary {id} (no usable base) does not start from the history's topics:\n{own}"), class: "summary_base_not_carried".into() });
                    }
                }
            }
        }
        (out, md)
    }
    /// summary text with every store-specific identifier replaced by its canonical name
    fn canon_text(&self, md: &str) -> String {
        let mut s = md.replace(&self.tid, "<thread>");
        for (i, a) in self.arts.iter().enumerate() {
            s = s.replace(&a.0, &format!("<art{}>", i + 1));
        }
        for e in &self.events {
            s = s.replace(&e.id, &format!("<f{}>", e.seq + 1));
        }
        for (i, j) in self.jobs.iter().enumerate() {
            s = s.replace(j, &format!("<job{}>", i + 1));
        }
        s
    }
    /// a second store over a copy of truth only (no continuity_streams/): the truth path
    fn truth_copy(&self) -> (Scratch, ContinuityStore) {
        let sc = Scratch::new("c09t");
        let d = sc.path().join("data");
        std::fs::create_dir_all(&d).unwrap();
        std::fs::copy(self.data.join("events.jsonl"), d.join("events.jsonl")).unwrap();
        std::fs::create_dir_all(d.join("continuities")).unwrap();
        let _ = std::fs::copy(self.data.join("continuities").join("index.json"), d.join("continuities").join("index.json"));
        let log = Arc::new(EventLog::new(d.join("events.jsonl")).unwrap());
        let st = ContinuityStore::new(d, self.ws.clone(), log).unwrap();
        (sc, st)
    }
    /// a third store over a copy of truth + only the messages+runs caches (sidecar, ordinal / seek / message-id
    /// indexes) as they are now: the planner counts and resolves the messages through the caches, finds neither the
    /// checkpoint sidecar nor a full sidecar to rebuild it from, and resolves the checkpoint of the first cut point
    /// it examines on its truth-log fallback (the replay then rebuilds the caches for the following ones)
    fn mr_only_copy(&self) -> (Scratch, ContinuityStore) {
        let sc = Scratch::new("c09m");
        let d = sc.path().join("data");
        let cs = d.join("continuity_streams");
        std::fs::create_dir_all(&cs).unwrap();
        std::fs::copy(self.data.join("events.jsonl"), d.join("events.jsonl")).unwrap();
        std::fs::create_dir_all(d.join("continuities")).unwrap();
        let _ = std::fs::copy(self.data.join("continuities").join("index.json"), d.join("continuities").join("index.json"));
        let prefix = format!("{}.mr.", self.tid);
        if let Ok(rd) = std::fs::read_dir(self.data.join("continuity_streams")) {
            for e in rd.flatten() {
                let name = e.file_name().to_string_lossy().to_string();
                if name.starts_with(&prefix) {
                    let _ = std::fs::copy(e.path(), cs.join(&name));
                }
            }
        }
        let log = Arc::new(EventLog::new(d.join("events.jsonl")).unwrap());
        let st = ContinuityStore::new(d, self.ws.clone(), log).unwrap();
        (sc, st)
    }
    /// the stores the read-only queries are repeated on: (what is lost, store)
    fn copies(&self) -> Vec<(&'static str, Scratch, ContinuityStore)> {
        let (a, b) = self.truth_copy();
        let (c, d) = self.mr_only_copy();
        vec![("without caches", a, b), ("with only the messages+runs caches", c, d)]
    }
}

// ------------------------------------------------------------------ cache faults
const FAULT_NAMES: [&str; 10] = [
    "ord_drop_last_record", "ord_drop_last_2_records", "ord_delete", "ord_truncate_mid_record", "comp_idx_delete", "mr_sidecar_delete", "comp_sidecar_delete", "all_caches_delete",
    "full_and_comp_sidecars_and_comp_idx_delete", "full_and_comp_sidecars_delete",
];
/// faults after which `compaction_cut_points_v1` resolves the checkpoint of the FIRST cut point it examines on its
/// truth-log fallback (messages+runs sidecar and ordinal index still answer, the checkpoint sidecar is gone and cannot
/// be rebuilt from the full sidecar); that replay rebuilds the caches, so the fault is re-applied before every query
fn fault_forces_truth_checkpoint_path(kind: u64) -> bool {
    kind == 8 || kind == 9
}
/// Damage that a crash or a lost file can leave in the rebuildable caches and that the code recognises today
/// (a lagging / torn / missing file).  States that are open C04 findings (a well-formed derived file that is not
/// the projection: S4 / S4b / S4c / S4d) are not generated: the faults are applied only at the end of a case,
/// followed by read-only queries, so no append can re-create a partial file.
fn apply_fault(w: &World, kind: u64) {
    let dir = w.data.join("continuity_streams");
    let f = |suffix: &str| dir.join(format!("{}{}", w.tid, suffix));
    let ord = f(".mr.msgord.v1.bin");
    let shrink = |p: &Path, by: u64| {
        if let Ok(m) = std::fs::metadata(p) {
            if m.len() >= by {
                if let Ok(file) = std::fs::OpenOptions::new().write(true).open(p) {
                    let _ = file.set_len(m.len() - by);
                }
            }
        }
    };
    match kind {
        0 => shrink(&ord, 24),
        1 => shrink(&ord, 48),
        2 => {
            let _ = std::fs::remove_file(&ord);
        }
        3 => shrink(&ord, 7),
        4 => {
            let _ = std::fs::remove_file(f(".comp.idx.v1.jsonl"));
        }
        5 => {
            let _ = std::fs::remove_file(f(".mr.v1.jsonl"));
        }
        6 => {
            let _ = std::fs::remove_file(f(".comp.v1.jsonl"));
        }
        8 => {
            let _ = std::fs::remove_file(f(".jsonl"));
            let _ = std::fs::remove_file(f(".comp.v1.jsonl"));
            let _ = std::fs::remove_file(f(".comp.idx.v1.jsonl"));
        }
        9 => {
            let _ = std::fs::remove_file(f(".jsonl"));
            let _ = std::fs::remove_file(f(".comp.v1.jsonl"));
        }
        _ => {
            let _ = std::fs::remove_dir_all(&dir);
        }
    }
}

// ------------------------------------------------------------------ encoders (mirror enc_* of the model)
fn rule_no(rule: &str) -> u64 {
    if rule == "manual_v1" {
        0
    } else {
        rule.strip_prefix("stride_messages_v1/").and_then(|s| s.parse::<u64>().ok()).map(|s| s + 1).unwrap_or(555_555)
    }
}
fn decision_no(d: &str) -> u64 {
    match d {
        "noop" => 0,
        "dry_run" => 1,
        "skipped_inflight" => 2,
        "scheduled" => 3,
        "completed" => 4,
        "failed" => 5,
        _ => 99,
    }
}
fn job_err_no(e: &str) -> u64 {
    if e.contains("message not found") {
        20
    } else if e.contains("message mismatch") {
        21
    } else {
        99
    }
}
fn manual_err_no(e: &str) -> u64 {
    let t = [
        ("requires summary_markdown and/or", 1),
        ("requires only one of", 2),
        ("requires at least one message", 3),
        ("to_message_id not found", 4),
        ("must be a message boundary", 5),
        ("stride_messages must be > 0", 6),
        ("stride_messages not reached", 7),
        ("artifact read failed", 8),
        ("summary parse failed", 8),
        ("to_seq mismatch", 9),
        ("out of range", 11),
    ];
    t.iter().find(|(k, _)| e.contains(k)).map(|x| x.1).unwrap_or(99)
}
fn enc_plans(w: &World, out: &mut Vec<u64>, ps: &[(u64, u64, String)]) {
    out.push(ps.len() as u64);
    for (o, s, m) in ps {
        out.extend([*o, *s, w.frame_no(m)]);
    }
}
fn enc_createds(w: &World, out: &mut Vec<u64>, cs: &[(String, String, u64, String)]) {
    out.push(cs.len() as u64);
    for (ck, art, s, m) in cs {
        out.extend([w.frame_no(ck), w.art_no(art), *s, w.frame_no(m)]);
    }
}
fn plans_of_value(v: &Value) -> Vec<(u64, u64, String)> {
    v.as_array()
        .map(|a| {
            a.iter()
                .map(|p| (p["target_message_ordinal"].as_u64().unwrap_or(0), p["to_seq"].as_u64().unwrap_or(0), p["to_message_id"].as_str().unwrap_or("").to_string()))
                .collect()
        })
        .unwrap_or_default()
}
fn createds_of_value(v: &Value) -> Vec<(String, String, u64, String)> {
    v.as_array()
        .map(|a| {
            a.iter()
                .map(|p| {
                    (
                        p["checkpoint_id"].as_str().unwrap_or("").to_string(),
                        p["summary_artifact_id"].as_str().unwrap_or("").to_string(),
                        p["to_seq"].as_u64().unwrap_or(0),
                        p["to_message_id"].as_str().unwrap_or("").to_string(),
                    )
                })
                .collect()
        })
        .unwrap_or_default()
}
fn enc_body(w: &World, out: &mut Vec<u64>, e: &Event) {
    match &e.kind {
        EventKind::ContinuityMessageAppended { actor_id, content, .. } => {
            out.extend([1, actor_id.trim_start_matches("actor").parse().unwrap_or(444_444), w.contents.get(content).copied().unwrap_or(444_444)]);
        }
        EventKind::ContinuityCompactionCheckpointCreated { cut_rule_id, summary_artifact_id, to_seq, to_message_id, .. } => {
            out.extend([2, rule_no(cut_rule_id), w.art_no(summary_artifact_id), *to_seq]);
            enc_opt(out, to_message_id.as_ref().map(|m| w.frame_no(m)));
        }
        EventKind::ContinuityJobSpawned { job_id, details, .. } => {
            let d = details.clone().unwrap_or(Value::Null);
            out.extend([3, w.job_no(job_id), d["stride_messages"].as_u64().unwrap_or(333_333)]);
            enc_plans(w, out, &plans_of_value(&d["planned"]));
        }
        EventKind::ContinuityJobEnded { job_id, status, result, .. } => {
            out.extend([4, w.job_no(job_id), if status == "completed" { 0 } else { 1 }]);
            let r = result.clone().unwrap_or(Value::Null);
            enc_createds(w, out, &createds_of_value(&r["created"]));
        }
        EventKind::ContinuityCompactionAutoScheduleDecided { decision, job_id, planned, stride_messages, max_new_checkpoints, block_on_inflight, execute, message_count, .. } => {
            out.extend([5, decision_no(decision)]);
            enc_opt(out, job_id.as_ref().map(|j| w.job_no(j)));
            let ps: Vec<(u64, u64, String)> = planned.iter().map(|p| (p.target_message_ordinal, p.to_seq, p.to_message_id.clone())).collect();
            enc_plans(w, out, &ps);
            out.extend([*stride_messages, *max_new_checkpoints as u64]);
            enc_bool(out, *block_on_inflight);
            enc_bool(out, *execute);
            out.push(*message_count);
        }
        _ => out.push(0),
    }
}

// ------------------------------------------------------------------ the reference (independent of the model)
#[derive(Debug, Clone, PartialEq)]
struct RefCut {
    ord: u64,
    seq: u64,
    id: String,
    done: bool,
    ck: Option<String>,
}
/// cut points straight from a replay of events.jsonl
fn ref_cut_points(events: &[Event], stride: u64, limit: u64) -> Vec<RefCut> {
    let msgs: Vec<(u64, String)> = events.iter().filter(|e| matches!(e.kind, EventKind::ContinuityMessageAppended { .. })).map(|e| (e.seq, e.id.clone())).collect();
    let mut out = vec![];
    let mut k = msgs.len() as u64 / stride;
    while k >= 1 && (out.len() as u64) < limit.clamp(1, 32) {
        let (seq, id) = msgs[(k * stride - 1) as usize].clone();
        let ck = events.iter().rev().find_map(|e| match &e.kind {
            EventKind::ContinuityCompactionCheckpointCreated { checkpoint_id, to_seq, .. } if *to_seq == seq => Some(checkpoint_id.clone()),
            _ => None,
        });
        out.push(RefCut { ord: k * stride, seq, id, done: ck.is_some(), ck });
        k -= 1;
    }
    out
}
fn ref_plan(events: &[Event], stride: u64, maxnew: u64) -> Vec<RefCut> {
    ref_cut_points(events, stride, 32).into_iter().filter(|c| !c.done).take(maxnew.clamp(1, 32) as usize).collect()
}
/// summarizer jobs spawned and not ended, with the number of frames after the spawn frame
fn ref_inflight(events: &[Event]) -> Vec<(String, usize)> {
    let mut v = vec![];
    for (i, e) in events.iter().enumerate() {
        if let EventKind::ContinuityJobSpawned { job_id, job_kind, .. } = &e.kind {
            if job_kind == "compaction_summarizer_v1" && !events.iter().any(|x| matches!(&x.kind, EventKind::ContinuityJobEnded { job_id: j, .. } if j == job_id)) {
                v.push((job_id.clone(), events.len() - 1 - i));
            }
        }
    }
    v
}

struct Viol {
    what: String,
    class: String,
}

/// checks on the frames appended by one auto / schedule call
fn oracle_appended(w: &World, before: &[Event], after: &[Event], stride: u64, maxnew: u64, dry: bool, sched: Option<(bool, bool)>, v: &mut Vec<Viol>) {
    let new = &after[before.len().min(after.len())..];
    if after.len() < before.len() || after[..before.len()].iter().zip(before).any(|(a, b)| a.id != b.id) {
        v.push(Viol { what: "history is not a prefix of the history after the call".into(), class: "history_rewritten".into() });
        return;
    }
    let plan = ref_plan(before, stride, maxnew);
    if plan.is_empty() || dry {
        if !new.is_empty() {
            v.push(Viol { what: format!("nothing to do (planned={}, dry_run={dry}) but {} frame(s) were appended", plan.len(), new.len()), class: "noop_appended_frames".into() });
        }
        return;
    }
    let infl = ref_inflight(before);
    let mut rest: Vec<&Event> = new.iter().collect();
    if let Some((block, exec)) = sched {
        let code_skipped = matches!(rest.first().map(|e| &e.kind), Some(EventKind::ContinuityCompactionAutoScheduleDecided { decision, .. }) if decision == "skipped_inflight");
        if code_skipped {
            if !block || infl.is_empty() {
                v.push(Viol { what: "skipped_inflight decided although no summarizer job is in flight / block_on_inflight=false".into(), class: "phantom_inflight".into() });
            }
            if rest.len() != 1 {
                v.push(Viol { what: "skipped_inflight appended more than the decision frame".into(), class: "auto_frames_not_planned".into() });
            }
            return;
        }
        if block && infl.iter().any(|(_, dist)| *dist < 500) {
            v.push(Viol { what: "a summarizer job is in flight inside the tail window but the scheduler spawned another".into(), class: "inflight_missed".into() });
            return;
        }
        // expected: spawned, decided(scheduled), [ckpts, ended]
        if rest.len() < 2 || !matches!(&rest[1].kind, EventKind::ContinuityCompactionAutoScheduleDecided { decision, .. } if decision == "scheduled") {
            v.push(Viol { what: "schedule did not append job_spawned + decision(scheduled)".into(), class: "auto_frames_not_planned".into() });
            return;
        }
        rest.remove(1);
        if !exec {
            if rest.len() != 1 || !matches!(&rest[0].kind, EventKind::ContinuityJobSpawned { .. }) {
                v.push(Viol { what: "execute=false must append exactly job_spawned + decision".into(), class: "auto_frames_not_planned".into() });
            }
            return;
        }
    }
    // [spawned] ++ ckpts(planned ascending) ++ [ended]
    let ok_shape = rest.len() == plan.len() + 2
        && matches!(&rest[0].kind, EventKind::ContinuityJobSpawned { .. })
        && matches!(&rest[rest.len() - 1].kind, EventKind::ContinuityJobEnded { status, .. } if status == "completed");
    if !ok_shape {
        v.push(Viol { what: format!("auto appended {} frames for {} planned cut(s); expected spawned + checkpoints + ended(completed)", rest.len(), plan.len()), class: "auto_frames_not_planned".into() });
        return;
    }
    let (j0, j1) = match (&rest[0].kind, &rest[rest.len() - 1].kind) {
        (EventKind::ContinuityJobSpawned { job_id: a, .. }, EventKind::ContinuityJobEnded { job_id: b, .. }) => (a.clone(), b.clone()),
        _ => unreachable!(),
    };
    if j0 != j1 {
        v.push(Viol { what: "job_ended names another job than job_spawned".into(), class: "job_bracket".into() });
    }
    let mut want: Vec<&RefCut> = plan.iter().collect();
    want.sort_by_key(|c| c.seq);
    for (e, c) in rest[1..rest.len() - 1].iter().zip(want) {
        match &e.kind {
            EventKind::ContinuityCompactionCheckpointCreated { to_seq, to_message_id, summary_artifact_id, cut_rule_id, .. } => {
                if *to_seq != c.seq || to_message_id.as_deref() != Some(c.id.as_str()) || cut_rule_id != &format!("stride_messages_v1/{stride}") {
                    v.push(Viol { what: format!("checkpoint frame to_seq={to_seq} does not equal its plan entry (ordinal {}, to_seq {})", c.ord, c.seq), class: "auto_frames_not_planned".into() });
                }
                match w.read_art_json(summary_artifact_id) {
                    None => v.push(Viol { what: format!("summary {summary_artifact_id} of the new checkpoint is not readable"), class: "summary_unreadable".into() }),
                    Some(s) => {
                        if s["coverage"]["to_seq"].as_u64() != Some(*to_seq) || s["coverage"]["to_message_id"].as_str() != to_message_id.as_deref() || s["coverage"]["thread_id"].as_str() != Some(w.tid.as_str()) || s["coverage"]["from_seq"].as_u64() != Some(0) {
                            v.push(Viol { what: format!("summary coverage {} differs from the checkpoint frame (to_seq {to_seq})", s["coverage"]), class: "summary_coverage_mismatch".into() });
                        }
                    }
                }
            }
            _ => v.push(Viol { what: "a frame between job_spawned and job_ended is not a checkpoint".into(), class: "auto_frames_not_planned".into() }),
        }
    }
}

/// whole-history invariants: contiguous seq, job bracket, every checkpoint's summary coverage
fn oracle_history(w: &World, dropped: &[String], v: &mut Vec<Viol>) {
    for (i, e) in w.events.iter().enumerate() {
        if e.seq != i as u64 {
            v.push(Viol { what: format!("frame {i} has seq {}", e.seq), class: "seq_not_contiguous".into() });
            break;
        }
    }
    let mut spawned: BTreeMap<String, Vec<usize>> = BTreeMap::new();
    let mut ended: BTreeMap<String, Vec<usize>> = BTreeMap::new();
    for (i, e) in w.events.iter().enumerate() {
        match &e.kind {
            EventKind::ContinuityJobSpawned { job_id, .. } => spawned.entry(job_id.clone()).or_default().push(i),
            EventKind::ContinuityJobEnded { job_id, .. } => ended.entry(job_id.clone()).or_default().push(i),
            EventKind::ContinuityCompactionCheckpointCreated { to_seq, to_message_id, summary_artifact_id, .. } => {
                let is_msg = w.events.iter().any(|m| m.seq == *to_seq && Some(&m.id) == to_message_id.as_ref() && matches!(m.kind, EventKind::ContinuityMessageAppended { .. }));
                if !is_msg {
                    v.push(Viol { what: format!("checkpoint to_seq={to_seq} is not a message boundary"), class: "checkpoint_not_on_message".into() });
                }
                if !dropped.contains(summary_artifact_id) {
                    match w.read_art_json(summary_artifact_id) {
                        None => v.push(Viol { what: format!("summary {summary_artifact_id} unreadable"), class: "summary_unreadable".into() }),
                        Some(s) => {
                            if s["coverage"]["to_seq"].as_u64() != Some(*to_seq) {
                                v.push(Viol { what: format!("summary coverage to_seq {} != checkpoint to_seq {to_seq}", s["coverage"]["to_seq"]), class: "summary_coverage_mismatch".into() });
                            } else if s["coverage"]["thread_id"].as_str() != Some(w.tid.as_str()) || s["coverage"]["from_seq"].as_u64() != Some(0) || s["coverage"]["to_message_id"].as_str() != to_message_id.as_deref() {
                                v.push(Viol { what: format!("summary coverage {} does not match the checkpoint frame (thread {}, from_seq 0, to_seq {to_seq}, to_message_id {to_message_id:?})", s["coverage"], w.tid), class: "summary_coverage_mismatch".into() });
                            }
                        }
                    }
                }
            }
            _ => {}
        }
    }
    for (j, s) in &spawned {
        let e = ended.get(j).cloned().unwrap_or_default();
        if s.len() != 1 || e.len() > 1 || e.iter().any(|x| *x < s[0]) {
            v.push(Viol { what: format!("job {j}: {} spawned / {} ended frames", s.len(), e.len()), class: "job_bracket".into() });
        }
    }
    for j in ended.keys() {
        if !spawned.contains_key(j) {
            v.push(Viol { what: format!("job {j} ended but never spawned"), class: "job_bracket".into() });
        }
    }
}

// ------------------------------------------------------------------ running one case
struct Run {
    obs: Vec<u64>,
    texts: Vec<String>,
    viol: Vec<Viol>,
    n_ckpt: usize,
    n_cut: usize,
    stats: Vec<String>,
    truncated: bool,
}

fn run_case(ops: &[Op], check_truth_path: bool) -> Run {
    let mut w = World::new("c09");
    let mut obs: Vec<u64> = vec![];
    let mut viol: Vec<Viol> = vec![];
    let mut dropped: Vec<String> = vec![];
    let mut n_cut = 0;
    let mut stats = vec![];
    for op in ops {
        match op {
            Op::Msg { actor, content } => {
                let text = content_text(*content);
                w.contents.insert(text.clone(), *content);
                w.store.append_message(&w.tid, format!("actor{actor}"), "test".into(), text).unwrap();
                w.refresh();
            }
            Op::Other(k) => {
                let mid = w.events.iter().rev().find(|e| matches!(e.kind, EventKind::ContinuityMessageAppended { .. })).map(|e| e.id.clone()).unwrap_or_else(|| unknown_uuid(1));
                if k % 2 == 0 {
                    w.store.append_run_spawned(&w.tid, &mid, "sess-1", "actor0".into(), "test".into()).unwrap();
                } else {
                    w.store.append_run_ended(&w.tid, &mid, "sess-1", "done".into(), "actor0".into(), "test".into()).unwrap();
                }
                w.refresh();
            }
            Op::DropArt(a) => {
                let id = w.uuid_of_art(*a);
                if std::fs::remove_file(w.blob(&id)).is_ok() {
                    dropped.push(id);
                }
            }
            Op::Fault(k) => {
                apply_fault(&w, *k);
                stats.push(format!("fault={}", FAULT_NAMES[if (*k as usize) < FAULT_NAMES.len() { *k as usize } else { 7 }]));
            }
            Op::Cut { stride, limit } => {
                let req = CompactionCutPointsV1Request { stride_messages: *stride, limit: limit.map(|l| l as u32) };
                let r = w.store.compaction_cut_points_v1(&w.tid, req.clone());
                match &r {
                    Err(e) => {
                        obs.extend([1, if e == "invalid_stride" { 10 } else { 99 }]);
                        if stride != &Some(0) {
                            viol.push(Viol { what: format!("cut_points failed: {e}"), class: "unexpected_error".into() });
                        }
                    }
                    Ok(r) => {
                        obs.extend([0, r.stride_messages, r.message_count, rule_no(&r.cut_rule_id), r.cut_points.len() as u64]);
                        for c in &r.cut_points {
                            obs.extend([c.target_message_ordinal, c.to_seq, w.frame_no(&c.to_message_id)]);
                            enc_bool(&mut obs, c.already_checkpointed);
                            enc_opt(&mut obs, c.latest_checkpoint_id.as_ref().map(|x| w.frame_no(x)));
                        }
                        n_cut += r.cut_points.len();
                        // independent oracle
                        if stride == &Some(0) {
                            viol.push(Viol { what: "stride 0 accepted by cut_points".into(), class: "stride_zero_accepted".into() });
                        } else {
                            let want = ref_cut_points(&w.events, r.stride_messages, limit.unwrap_or(1));
                            let got: Vec<RefCut> = r.cut_points.iter().map(|c| RefCut { ord: c.target_message_ordinal, seq: c.to_seq, id: c.to_message_id.clone(), done: c.already_checkpointed, ck: c.latest_checkpoint_id.clone() }).collect();
                            let key = |v: &Vec<RefCut>| v.iter().map(|c| (c.ord, c.seq, c.id.clone())).collect::<Vec<_>>();
                            let n_msgs = w.events.iter().filter(|e| matches!(e.kind, EventKind::ContinuityMessageAppended { .. })).count() as u64;
                            if key(&want) != key(&got) || r.message_count != n_msgs {
                                viol.push(Viol { what: format!("cut points {:?} differ from the k*stride-th messages {:?}", key(&got), key(&want)), class: "cut_points_wrong".into() });
                            } else if want.iter().map(|c| c.done).ne(got.iter().map(|c| c.done)) {
                                viol.push(Viol { what: format!("already_checkpointed / latest_checkpoint_id {:?} differ from the checkpoint frames {:?}", got, want), class: "checkpointed_flag_wrong".into() });
                            } else if want != got {
                                let show = |v: &Vec<RefCut>| v.iter().map(|c| (c.ord, c.ck.as_ref().map(|x| format!("frame {}", w.frame_no(x))))).collect::<Vec<_>>();
                                viol.push(Viol { what: format!("latest_checkpoint_id (ordinal, frame) {:?} is not the LATEST checkpoint frame of the cut point, which is {:?}", show(&got), show(&want)), class: "latest_checkpoint_id_not_latest_frame".into() });
                            }
                        }
                    }
                }
                if check_truth_path {
                    for (lost, _sc, t) in w.copies() {
                        let r2 = t.compaction_cut_points_v1(&w.tid, req.clone());
                        let a = r.as_ref().map(|x| serde_json::to_value(x).unwrap()).map_err(|e| e.clone());
                        let b = r2.as_ref().map(|x| serde_json::to_value(x).unwrap()).map_err(|e| e.clone());
                        if a != b {
                            viol.push(Viol { what: format!("cut_points with caches {a:?} != {lost} {b:?}"), class: "fast_truth_differ".into() });
                        }
                    }
                }
            }
            Op::Status { stride } => {
                let req = CompactionStatusV1Request { stride_messages: *stride };
                let r = w.store.compaction_status_v1(&w.tid, req.clone());
                match &r {
                    Err(e) => obs.extend([1, if e == "invalid_stride" { 10 } else { 99 }]),
                    Ok(r) => {
                        obs.extend([0, r.stride_messages, r.message_count]);
                        match &r.latest_checkpoint {
                            None => obs.push(0),
                            Some(c) => {
                                obs.extend([1, w.frame_no(&c.checkpoint_id), rule_no(&c.cut_rule_id), w.art_no(&c.summary_artifact_id), c.to_seq]);
                                enc_opt(&mut obs, c.to_message_id.as_ref().map(|m| w.frame_no(m)));
                            }
                        }
                        match &r.next_cut_point {
                            None => obs.push(0),
                            Some(p) => obs.extend([1, p.target_message_ordinal, p.to_seq, w.frame_no(&p.to_message_id)]),
                        }
                        enc_opt(&mut obs, r.inflight_job_id.as_ref().map(|j| w.job_no(j)));
                        match &r.last_schedule_decision {
                            None => obs.push(0),
                            Some(d) => {
                                obs.extend([1, d.seq, 5, decision_no(&d.decision)]);
                                enc_opt(&mut obs, d.job_id.as_ref().map(|j| w.job_no(j)));
                                let ps: Vec<(u64, u64, String)> = d.planned.iter().map(|p| (p.target_message_ordinal, p.to_seq, p.to_message_id.clone())).collect();
                                enc_plans(&w, &mut obs, &ps);
                                obs.extend([d.stride_messages, d.max_new_checkpoints as u64]);
                                enc_bool(&mut obs, d.block_on_inflight);
                                enc_bool(&mut obs, d.execute);
                                obs.push(d.message_count);
                            }
                        }
                        match &r.last_job_outcome {
                            None => obs.push(0),
                            Some(o) => {
                                obs.extend([1, o.seq, 4, w.job_no(&o.job_id), if o.status == "completed" { 0 } else { 1 }]);
                                let cs: Vec<(String, String, u64, String)> = o.created.iter().map(|c| (c.checkpoint_id.clone(), c.summary_artifact_id.clone(), c.to_seq, c.to_message_id.clone())).collect();
                                enc_createds(&w, &mut obs, &cs);
                            }
                        }
                        // oracle: next cut point = first unchecked reference cut point
                        if stride != &Some(0) {
                            let want = ref_cut_points(&w.events, r.stride_messages, 32).into_iter().find(|c| !c.done).map(|c| (c.ord, c.seq, c.id));
                            let got = r.next_cut_point.as_ref().map(|p| (p.target_message_ordinal, p.to_seq, p.to_message_id.clone()));
                            if want != got {
                                viol.push(Viol { what: format!("status.next_cut_point {got:?} != first unchecked cut point {want:?}"), class: "checkpointed_flag_wrong".into() });
                            }
                        }
                    }
                }
                if check_truth_path {
                    for (lost, _sc, t) in w.copies() {
                        let r2 = t.compaction_status_v1(&w.tid, req.clone());
                        let a = r.as_ref().map(|x| serde_json::to_value(x).unwrap()).map_err(|e| e.clone());
                        let b = r2.as_ref().map(|x| serde_json::to_value(x).unwrap()).map_err(|e| e.clone());
                        if a != b {
                            viol.push(Viol { what: format!("status with caches {a:?} != {lost} {b:?}"), class: "fast_truth_differ".into() });
                        }
                    }
                }
            }
            Op::Manual { md, art, to_mid, to_seq, stride } => {
                let before = w.events.clone();
                let req = CompactionCheckpointCumulativeV1Request {
                    summary_markdown: md.map(|k| if k == 1 { LEGACY_MD.to_string() } else { format!("manual summary {k}\n\n## Cumulative Summary\n\nhand written {k}\n") }),
                    summary_artifact_id: art.map(|a| w.uuid_of_art(a)),
                    to_message_id: to_mid.map(|m| w.uuid_of_frame(m)),
                    to_seq: *to_seq,
                    stride_messages: *stride,
                    actor_id: "actor0".into(),
                    origin: "test".into(),
                };
                let r = w.store.compaction_checkpoint_cumulative_v1(&w.tid, req);
                w.refresh();
                match &r {
                    Err(e) => {
                        obs.extend([1, manual_err_no(e)]);
                        if w.events.len() != before.len() {
                            viol.push(Viol { what: format!("refused manual checkpoint ({e}) appended frames"), class: "noop_appended_frames".into() });
                        }
                    }
                    Ok((ck, a, ts, tm, rule)) => {
                        obs.extend([0, w.frame_no(ck), w.art_no(a), *ts, w.frame_no(tm), rule_no(rule)]);
                        let is_msg = before.iter().any(|m| m.seq == *ts && &m.id == tm && matches!(m.kind, EventKind::ContinuityMessageAppended { .. }));
                        if !is_msg {
                            viol.push(Viol { what: format!("manual checkpoint accepted at to_seq={ts} which is not a message boundary"), class: "checkpoint_not_on_message".into() });
                        }
                        if stride == &Some(0) && to_mid.is_none() && to_seq.is_none() {
                            viol.push(Viol { what: "manual checkpoint accepted stride 0".into(), class: "stride_zero_accepted".into() });
                        }
                        if w.events.len() != before.len() + 1 {
                            viol.push(Viol { what: "manual checkpoint did not append exactly one frame".into(), class: "auto_frames_not_planned".into() });
                        }
                    }
                }
            }
            Op::Auto { stride, maxnew, dry } => {
                let before = w.events.clone();
                let req = CompactionAutoV1Request { stride_messages: *stride, max_new_checkpoints: maxnew.map(|m| m as u32), dry_run: *dry, actor_id: "actor0".into(), origin: "test".into() };
                if check_truth_path && stride != &Some(0) {
                    let mut rq = req.clone();
                    rq.dry_run = Some(true);
                    let b = w.store.compaction_auto_v1(&w.tid, rq.clone()).map(|x| serde_json::to_value(x.planned).unwrap());
                    for (lost, _sc, t) in w.copies() {
                        let a = t.compaction_auto_v1(&w.tid, rq.clone()).map(|x| serde_json::to_value(x.planned).unwrap());
                        if a != b {
                            viol.push(Viol { what: format!("auto plan with caches {b:?} != {lost} {a:?}"), class: "fast_truth_differ".into() });
                        }
                    }
                }
                let r = w.store.compaction_auto_v1(&w.tid, req);
                w.refresh();
                match &r {
                    Err(e) => {
                        obs.extend([1, if e == "invalid_stride" { 10 } else { 99 }]);
                        if stride != &Some(0) {
                            viol.push(Viol { what: format!("auto failed: {e}"), class: "unexpected_error".into() });
                        } else if w.events.len() != before.len() {
                            viol.push(Viol { what: "auto with stride 0 appended frames".into(), class: "noop_appended_frames".into() });
                        }
                    }
                    Ok(r) => {
                        let st = match r.status.as_str() {
                            "noop" => 0,
                            "spawned" => 1,
                            "completed" => 2,
                            "failed" => 3,
                            _ => 99,
                        };
                        obs.extend([0, st, r.stride_messages, r.message_count]);
                        enc_opt(&mut obs, r.job_id.as_ref().map(|j| w.job_no(j)));
                        let ps: Vec<(u64, u64, String)> = r.planned.iter().map(|p| (p.target_message_ordinal, p.to_seq, p.to_message_id.clone())).collect();
                        enc_plans(&w, &mut obs, &ps);
                        let cs: Vec<(String, String, u64, String)> = r.result.iter().map(|c| (c.checkpoint_id.clone(), c.summary_artifact_id.clone(), c.to_seq, c.to_message_id.clone())).collect();
                        enc_createds(&w, &mut obs, &cs);
                        enc_opt(&mut obs, r.error.as_ref().map(|e| job_err_no(e)));
                        if stride == &Some(0) {
                            viol.push(Viol { what: "auto accepted stride 0".into(), class: "stride_zero_accepted".into() });
                        } else {
                            oracle_appended(&w, &before, &w.events, r.stride_messages, maxnew.unwrap_or(1), dry.unwrap_or(false), None, &mut viol);
                            stats.push(format!("auto={}", r.status));
                        }
                    }
                }
            }
            Op::Sched { stride, maxnew, block, exec, dry } => {
                let before = w.events.clone();
                let req = CompactionAutoScheduleV1Request { stride_messages: *stride, max_new_checkpoints: maxnew.map(|m| m as u32), block_on_inflight: *block, execute: *exec, dry_run: *dry, actor_id: "actor0".into(), origin: "test".into() };
                let r = w.store.compaction_auto_schedule_v1(&w.tid, req);
                w.refresh();
                match &r {
                    Err(e) => {
                        obs.extend([1, if e == "invalid_stride" { 10 } else { 99 }]);
                        if stride != &Some(0) {
                            viol.push(Viol { what: format!("schedule failed: {e}"), class: "unexpected_error".into() });
                        } else if w.events.len() != before.len() {
                            viol.push(Viol { what: "schedule with stride 0 appended frames".into(), class: "noop_appended_frames".into() });
                        }
                    }
                    Ok(r) => {
                        obs.extend([0, decision_no(&r.decision)]);
                        enc_opt(&mut obs, r.decision_id.as_ref().map(|d| w.frame_no(d)));
                        enc_bool(&mut obs, r.execute);
                        obs.extend([r.stride_messages, r.max_new_checkpoints as u64]);
                        enc_bool(&mut obs, r.block_on_inflight);
                        obs.push(r.message_count);
                        let ps: Vec<(u64, u64, String)> = r.planned.iter().map(|p| (p.target_message_ordinal, p.to_seq, p.to_message_id.clone())).collect();
                        enc_plans(&w, &mut obs, &ps);
                        enc_opt(&mut obs, r.job_id.as_ref().map(|j| w.job_no(j)));
                        let cs: Vec<(String, String, u64, String)> = r.result.iter().map(|c| (c.checkpoint_id.clone(), c.summary_artifact_id.clone(), c.to_seq, c.to_message_id.clone())).collect();
                        enc_createds(&w, &mut obs, &cs);
                        enc_opt(&mut obs, r.error.as_ref().map(|e| job_err_no(e)));
                        if stride == &Some(0) {
                            viol.push(Viol { what: "schedule accepted stride 0".into(), class: "stride_zero_accepted".into() });
                        } else {
                            oracle_appended(&w, &before, &w.events, r.stride_messages, maxnew.unwrap_or(1), dry.unwrap_or(false), Some((block.unwrap_or(true), exec.unwrap_or(true))), &mut viol);
                            stats.push(format!("sched={}", r.decision));
                        }
                    }
                }
            }
        }
    }
    w.refresh();
    oracle_history(&w, &dropped, &mut viol);
    viol.append(&mut w.art_viol.borrow_mut());
    // final history + artifacts
    obs.push(w.events.len() as u64);
    for e in &w.events {
        obs.extend([e.seq, w.frame_no(&e.id)]);
        enc_body(&w, &mut obs, e);
    }
    obs.push(w.arts.len() as u64);
    for (i, a) in w.arts.iter().enumerate() {
        obs.push(i as u64 + 1);
        obs.extend(a.1.iter().copied());
    }
    let texts = w.arts.iter().map(|a| w.canon_text(&a.2)).collect();
    let n_ckpt = w.events.iter().filter(|e| matches!(e.kind, EventKind::ContinuityCompactionCheckpointCreated { .. })).count();
    let _ = &w.root;
    let truncated = w.truncated.get();
    Run { obs, texts, viol, n_ckpt, n_cut, stats, truncated }
}

// ------------------------------------------------------------------ long histories (beyond the bounded scans)
/// A thread written straight into events.jsonl: 4 messages, a checkpoint at the 2nd message, then `n_after`
/// checkpoint frames at the 4th message.  Returns (first answer, second answer, reference) for
/// cut_points(stride 2, limit 2) — the first call rebuilds the caches from truth, the second one uses them.
fn long_checkpoint_history(n_after: usize) -> Vec<Viol> {
    let sc = Scratch::new("c09long");
    let data = sc.path().join("data");
    let ws = sc.path().join("ws");
    std::fs::create_dir_all(&ws).unwrap();
    let log = Arc::new(EventLog::new(data.join("events.jsonl")).unwrap());
    let tid = uuid::Uuid::new_v4().to_string();
    let mut seq = 0u64;
    let mut push = |kind: EventKind| -> (u64, String) {
        let id = uuid::Uuid::new_v4().to_string();
        log.append(&Event { id: id.clone(), session_id: tid.clone(), timestamp_ms: 1, seq, kind }).unwrap();
        seq += 1;
        (seq - 1, id)
    };
    push(EventKind::ContinuityCreated { workspace: "w".into(), title: None });
    let mut msgs = vec![];
    for i in 0..4 {
        msgs.push(push(EventKind::ContinuityMessageAppended { actor_id: "actor0".into(), origin: "test".into(), content: format!("m{i}") }));
    }
    let ck = |to: &(u64, String)| {
        let id = uuid::Uuid::new_v4().to_string();
        let _ = id;
        EventKind::ContinuityCompactionCheckpointCreated {
            checkpoint_id: uuid::Uuid::new_v4().to_string(),
            cut_rule_id: "manual_v1".into(),
            summary_kind: "cumulative_v1".into(),
            summary_artifact_id: "0".repeat(64),
            from_seq: 0,
            from_message_id: None,
            to_seq: to.0,
            to_message_id: Some(to.1.clone()),
            actor_id: "actor0".into(),
            origin: "test".into(),
        }
    };
    let k1 = ck(&msgs[1]);
    push(k1);
    for _ in 0..n_after {
        let k = ck(&msgs[3]);
        push(k);
    }
    let store = ContinuityStore::new(data.clone(), ws, log.clone()).unwrap();
    let events = log.replay_stream(StreamKind::Continuity, &tid).unwrap();
    let reference = ref_cut_points(&events, 2, 2);
    let want: Vec<(u64, bool)> = reference.iter().map(|c| (c.ord, c.done)).collect();
    let want_ids: Vec<Option<String>> = reference.iter().map(|c| c.ck.clone()).collect();
    let mut out = vec![];
    for call in 0..2 {
        let r = store.compaction_cut_points_v1(&tid, CompactionCutPointsV1Request { stride_messages: Some(2), limit: Some(2) });
        let got: Vec<(u64, bool)> = r.as_ref().map(|r| r.cut_points.iter().map(|c| (c.target_message_ordinal, c.already_checkpointed)).collect()).unwrap_or_default();
        let got_ids: Vec<Option<String>> = r.as_ref().map(|r| r.cut_points.iter().map(|c| c.latest_checkpoint_id.clone()).collect()).unwrap_or_default();
        if got != want {
            out.push(Viol { what: format!("thread with {} checkpoint frames, cut_points call #{call}: (ordinal, already_checkpointed) = {got:?}, checkpoint frames say {want:?}", n_after + 1), class: "checkpointed_flag_wrong_beyond_scan_window".into() });
        } else if got_ids != want_ids {
            // n_after frames for the same cut point: the last of them in stream order is the checkpoint of that cut,
            // also when the answer comes from the truth log (> 10 000 frames: the bounded sidecar scan refuses)
            out.push(Viol { what: format!("thread with {n_after} checkpoint frames for the same cut point, cut_points call #{call}: latest_checkpoint_id = {got_ids:?}, the latest frames in stream order are {want_ids:?}"), class: "latest_checkpoint_id_not_latest_frame".into() });
        }
    }
    // status.latest_checkpoint: the checkpoint with the greatest to_seq, the latest frame among those (beyond the
    // scan window it comes from the fallback scan over the replayed stream)
    let want_latest = events
        .iter()
        .filter_map(|e| match &e.kind {
            EventKind::ContinuityCompactionCheckpointCreated { checkpoint_id, to_seq, .. } => Some((*to_seq, e.seq, checkpoint_id.clone())),
            _ => None,
        })
        .max_by_key(|x| (x.0, x.1))
        .map(|x| x.2);
    match store.compaction_status_v1(&tid, CompactionStatusV1Request { stride_messages: Some(2) }) {
        Ok(st) => {
            let got = st.latest_checkpoint.as_ref().map(|c| c.checkpoint_id.clone());
            if got != want_latest {
                out.push(Viol { what: format!("thread with {n_after} checkpoint frames for the newest cut point: status.latest_checkpoint = {got:?}, the latest frame of the greatest to_seq is {want_latest:?}"), class: "latest_checkpoint_id_not_latest_frame".into() });
            }
            if st.next_cut_point.is_some() {
                out.push(Viol { what: format!("thread with {} checkpoint frames, every cut point checkpointed: status.next_cut_point = {:?}", n_after + 1, st.next_cut_point.map(|p| p.target_message_ordinal)), class: "checkpointed_flag_wrong_beyond_scan_window".into() });
            }
        }
        Err(e) => out.push(Viol { what: format!("status on a thread with {} checkpoint frames failed: {e}", n_after + 1), class: "unexpected_error".into() }),
    }
    out
}

// ------------------------------------------------------------------ the job's base selection beyond the bounded scan
/// A thread written straight into events.jsonl: 2 messages, `n` checkpoint frames for the 2nd message (each naming its
/// own summary artifact id), 2 more messages.  auto(stride 2) plans the 4th message; the base of its summary is the
/// latest checkpoint frame below the cut: the LAST of the n frames (c09_summary_base_is_latest_below_cut).  With
/// n > 10 000 the bounded sidecar scan refuses and the job selects the base from its replay snapshot.
fn long_history_auto_base(n: usize) -> Vec<Viol> {
    let sc = Scratch::new("c09lb");
    let data = sc.path().join("data");
    let ws = sc.path().join("ws");
    std::fs::create_dir_all(&ws).unwrap();
    let log = Arc::new(EventLog::new(data.join("events.jsonl")).unwrap());
    let tid = uuid::Uuid::new_v4().to_string();
    let mut seq = 0u64;
    let mut push = |kind: EventKind| -> (u64, String) {
        let id = uuid::Uuid::new_v4().to_string();
        log.append(&Event { id: id.clone(), session_id: tid.clone(), timestamp_ms: 1, seq, kind }).unwrap();
        seq += 1;
        (seq - 1, id)
    };
    push(EventKind::ContinuityCreated { workspace: "w".into(), title: None });
    let msg = |i: usize| EventKind::ContinuityMessageAppended { actor_id: "actor0".into(), origin: "test".into(), content: format!("message {i} tok{i}") };
    push(msg(0));
    let m1 = push(msg(1));
    let art = |i: usize| format!("{:064x}", i + 1);
    for i in 0..n {
        push(EventKind::ContinuityCompactionCheckpointCreated {
            checkpoint_id: uuid::Uuid::new_v4().to_string(),
            cut_rule_id: "manual_v1".into(),
            summary_kind: "cumulative_v1".into(),
            summary_artifact_id: art(i),
            from_seq: 0,
            from_message_id: None,
            to_seq: m1.0,
            to_message_id: Some(m1.1.clone()),
            actor_id: "actor0".into(),
            origin: "test".into(),
        });
    }
    push(msg(2));
    let m3 = push(msg(3));
    let store = ContinuityStore::new(data.clone(), ws.clone(), log.clone()).unwrap();
    let mut out = vec![];
    let r = store.compaction_auto_v1(&tid, CompactionAutoV1Request { stride_messages: Some(2), max_new_checkpoints: Some(1), dry_run: None, actor_id: "actor0".into(), origin: "test".into() });
    match r {
        Ok(r) if r.status == "completed" && r.result.len() == 1 && r.result[0].to_seq == m3.0 => {
            let blob = ws.join(".rip").join("artifacts").join("blobs").join(&r.result[0].summary_artifact_id);
            let v: Value = std::fs::read(&blob).ok().and_then(|b| serde_json::from_slice(&b).ok()).unwrap_or(Value::Null);
            let got = v["basis"]["base_summary_artifact_id"].as_str().map(|x| x.to_string());
            if got != Some(art(n - 1)) {
                let which = got.as_ref().and_then(|g| (0..n).find(|i| &art(*i) == g));
                out.push(Viol { what: format!("{n} checkpoint frames for the cut below: the summary of the next cut names as base the artifact of frame #{which:?} (0-based) of them, the latest in stream order is #{}", n - 1), class: "summary_base_not_latest_checkpoint".into() });
            }
            // unreadable base (the artifacts do not exist): bootstrap from all 4 messages
            let md = v["summary_markdown"].as_str().unwrap_or("");
            if !md.contains("- delta_message_count: 4\n") || !v["basis"]["note"].as_str().unwrap_or("").contains("base_read_failed") {
                out.push(Viol { what: format!("unreadable base: expected a bootstrap summary over all 4 messages with note base_read_failed, got basis {} / {}", v["basis"], md.lines().find(|l| l.starts_with("- delta_message_count")).unwrap_or("")), class: "summary_coverage_mismatch".into() });
            }
        }
        other => out.push(Viol { what: format!("auto on a thread with {n} checkpoint frames below the cut: {:?}", other.map(|r| (r.status, r.planned.len(), r.error))), class: "auto_frames_not_planned".into() }),
    }
    out
}

// ------------------------------------------------------------------ a summary artifact of another thread
/// Parent thread [created, m, m, m]; a branch child [created, branched, m, m]: seq 2 and 3 are message boundaries in
/// both.  A manual checkpoint of the child at seq 2 yields a summary artifact covering (child, 2).  Offering that
/// artifact for a checkpoint of the PARENT at seq 2 must be refused (coverage names another thread) and append nothing;
/// offering it for the child at seq 3 must be refused (coverage ends elsewhere); for the child at seq 2 it is accepted.
fn foreign_summary_scenario() -> Vec<Viol> {
    let mut w = World::new("c09f");
    let mut v = vec![];
    for i in 0..3 {
        w.store.append_message(&w.tid, "actor0".into(), "test".into(), format!("parent {i}")).unwrap();
    }
    let child = match w.store.branch(&w.tid, None, None, None, "actor0".into(), "test".into()) {
        Ok((id, _, _)) => id,
        Err(e) => return vec![Viol { what: format!("branch failed: {e}"), class: "unexpected_error".into() }],
    };
    for i in 0..2 {
        w.store.append_message(&child, "actor0".into(), "test".into(), format!("child {i}")).unwrap();
    }
    let req = |art: Option<String>, md: Option<&str>, to_seq: u64| CompactionCheckpointCumulativeV1Request {
        summary_markdown: md.map(|m| m.to_string()),
        summary_artifact_id: art,
        to_message_id: None,
        to_seq: Some(to_seq),
        stride_messages: None,
        actor_id: "actor0".into(),
        origin: "test".into(),
    };
    let art = match w.store.compaction_checkpoint_cumulative_v1(&child, req(None, Some("child summary\n\n## Cumulative Summary\n\nchild text\n"), 2)) {
        Ok((_, a, _, _, _)) => a,
        Err(e) => return vec![Viol { what: format!("manual checkpoint of the child failed: {e}"), class: "unexpected_error".into() }],
    };
    let count = |tid: &str| w.log.replay_stream(StreamKind::Continuity, tid).map(|e| e.len()).unwrap_or(0);
    let (p0, c0) = (count(&w.tid), count(&child));
    if let Ok((ck, ..)) = w.store.compaction_checkpoint_cumulative_v1(&w.tid, req(Some(art.clone()), None, 2)) {
        v.push(Viol { what: format!("a summary artifact whose coverage names another thread was accepted as the summary of a checkpoint (frame {ck}) of this thread at the same seq"), class: "summary_coverage_mismatch".into() });
    } else if count(&w.tid) != p0 {
        v.push(Viol { what: "refused manual checkpoint (foreign summary) appended frames".into(), class: "noop_appended_frames".into() });
    }
    if let Ok((ck, ..)) = w.store.compaction_checkpoint_cumulative_v1(&child, req(Some(art.clone()), None, 3)) {
        v.push(Viol { what: format!("a summary artifact covering to_seq 2 was accepted for a checkpoint (frame {ck}) at to_seq 3"), class: "summary_coverage_mismatch".into() });
    } else if count(&child) != c0 {
        v.push(Viol { what: "refused manual checkpoint (coverage ends elsewhere) appended frames".into(), class: "noop_appended_frames".into() });
    }
    let c1 = count(&child);
    match w.store.compaction_checkpoint_cumulative_v1(&child, req(Some(art.clone()), None, 2)) {
        Ok(_) if count(&child) == c1 + 1 => {}
        other => v.push(Viol { what: format!("a summary artifact with matching coverage was not accepted as one more checkpoint: {:?}", other.map(|x| x.0)), class: "unexpected_error".into() }),
    }
    w.refresh();
    v
}

// ------------------------------------------------------------------ the job's error path (artifact store unwritable)
/// 2 messages, `.rip/artifacts` replaced by a regular file: the summary cannot be written, the job must fail and
/// still be bracketed (job_spawned + job_ended(failed) of the same job, nothing else); after the obstruction is
/// removed the same cut is planned again and completes.  Not modelled (I/O failure): oracle only.
fn io_failure_scenario(schedule: bool) -> Vec<Viol> {
    let mut w = World::new("c09io");
    let mut v = vec![];
    for i in 0..2 {
        w.store.append_message(&w.tid, "actor0".into(), "test".into(), format!("m{i}")).unwrap();
    }
    w.refresh();
    let rip = w.ws.join(".rip");
    let _ = std::fs::remove_dir_all(rip.join("artifacts"));
    std::fs::create_dir_all(&rip).unwrap();
    std::fs::write(rip.join("artifacts"), b"not a directory").unwrap();
    let before = w.events.len();
    let (status, err, job) = if schedule {
        match w.store.compaction_auto_schedule_v1(&w.tid, CompactionAutoScheduleV1Request { stride_messages: Some(2), max_new_checkpoints: Some(1), block_on_inflight: Some(true), execute: Some(true), dry_run: None, actor_id: "actor0".into(), origin: "test".into() }) {
            Ok(r) => (r.decision, r.error, r.job_id),
            Err(e) => (format!("Err({e})"), None, None),
        }
    } else {
        match w.store.compaction_auto_v1(&w.tid, CompactionAutoV1Request { stride_messages: Some(2), max_new_checkpoints: Some(1), dry_run: None, actor_id: "actor0".into(), origin: "test".into() }) {
            Ok(r) => (r.status, r.error, r.job_id),
            Err(e) => (format!("Err({e})"), None, None),
        }
    };
    w.refresh();
    let new: Vec<&Event> = w.events[before..].iter().filter(|e| !matches!(e.kind, EventKind::ContinuityCompactionAutoScheduleDecided { .. })).collect();
    if status != "failed" || err.is_none() {
        v.push(Viol { what: format!("summary store unwritable but the call answered status={status} error={err:?}"), class: "io_failure_not_reported".into() });
    }
    let shape_ok = new.len() == 2
        && matches!(&new[0].kind, EventKind::ContinuityJobSpawned { job_id, .. } if Some(job_id) == job.as_ref())
        && matches!(&new[1].kind, EventKind::ContinuityJobEnded { job_id, status, .. } if Some(job_id) == job.as_ref() && status == "failed");
    if !shape_ok {
        v.push(Viol { what: format!("failed job is not bracketed: appended {:?}", new.iter().map(|e| format!("{:?}", e.kind).chars().take(40).collect::<String>()).collect::<Vec<_>>()), class: "job_bracket".into() });
    }
    oracle_history(&w, &[], &mut v);
    // repair and retry
    std::fs::remove_file(rip.join("artifacts")).unwrap();
    let before2 = w.events.clone();
    let r = w.store.compaction_auto_v1(&w.tid, CompactionAutoV1Request { stride_messages: Some(2), max_new_checkpoints: Some(1), dry_run: None, actor_id: "actor0".into(), origin: "test".into() });
    w.refresh();
    match r {
        Ok(r) if r.status == "completed" => oracle_appended(&w, &before2, &w.events, 2, 1, false, None, &mut v),
        other => v.push(Viol { what: format!("retry after the failed job did not complete: {:?}", other.map(|r| r.status)), class: "auto_frames_not_planned".into() }),
    }
    oracle_history(&w, &[], &mut v);
    v
}

// ------------------------------------------------------------------ concurrent schedule / auto calls
/// One public call made by an actor thread, with resolved parameters (stride != 0, max_new in 1..=32).
#[derive(Clone, Debug)]
struct Call {
    sched: bool,
    stride: u64,
    maxnew: u64,
    block: bool,
    exec: bool,
}
fn coq_call(c: &Call) -> String {
    format!(
        "{{| c_sched := {}; c_stride := {}; c_maxnew := {}; c_block := {}; c_exec := {} |}}",
        coq_bool(c.sched),
        coq_n(c.stride),
        coq_n(c.maxnew),
        coq_bool(c.block),
        coq_bool(c.exec)
    )
}
/// what one actor thread does: one public call, or a client appending messages meanwhile
#[derive(Clone, Debug)]
enum Spec {
    Call(Call),
    Msgs(Vec<(u64, u64)>),
}
fn coq_spec(x: &Spec) -> String {
    match x {
        Spec::Call(c) => format!("SCall {}", coq_call(c)),
        Spec::Msgs(ms) => format!("SMsgs {}", coq_list(ms, |(a, c)| format!("({a}, {c})"))),
    }
}
fn coq_ccase(prefix: &[Op], calls: &[Spec], schedule: &[u64], expect: &[u64]) -> String {
    format!(
        "{{| cc_consts := real_consts; cc_prefix := {}; cc_calls := {}; cc_schedule := {}; cc_expect := {} |}}",
        coq_list(prefix, coq_op),
        coq_list(calls, coq_spec),
        coq_list_n(schedule),
        coq_list_n(expect)
    )
}
fn ccase_json(prefix: &[Op], calls: &[Spec], schedule: &[u64]) -> Value {
    json!({ "prefix": prefix.iter().map(|o| format!("{o:?}")).collect::<Vec<_>>(), "calls": calls.iter().map(|c| format!("{c:?}")).collect::<Vec<_>>(), "schedule": schedule })
}

enum Resp {
    Sched(Result<ripd::CompactionAutoScheduleV1Response, String>),
    Auto(Result<ripd::CompactionAutoV1Response, String>),
    Msgs,
}

struct ConcRun {
    obs: Vec<u64>,
    texts: Vec<String>,
    schedule: Vec<u64>,
    viol: Vec<Viol>,
    inconclusive: Option<String>,
    jobs: usize,
    ckpts: usize,
    dup_ckpts: usize,
    truncated: bool,
}

/// sequential prefix (no observations): the history the concurrent calls start from
fn apply_prefix(w: &mut World, ops: &[Op]) {
    for op in ops {
        match op {
            Op::Msg { actor, content } => {
                let text = content_text(*content);
                w.contents.insert(text.clone(), *content);
                w.store.append_message(&w.tid, format!("actor{actor}"), "test".into(), text).unwrap();
            }
            Op::Other(k) => {
                let mid = w.events.iter().rev().find(|e| matches!(e.kind, EventKind::ContinuityMessageAppended { .. })).map(|e| e.id.clone()).unwrap_or_else(|| unknown_uuid(1));
                if k % 2 == 0 {
                    w.store.append_run_spawned(&w.tid, &mid, "sess-1", "actor0".into(), "test".into()).unwrap();
                } else {
                    w.store.append_run_ended(&w.tid, &mid, "sess-1", "done".into(), "actor0".into(), "test".into()).unwrap();
                }
            }
            Op::Manual { md, art, to_mid, to_seq, stride } => {
                let req = CompactionCheckpointCumulativeV1Request {
                    summary_markdown: md.map(|k| if k == 1 { LEGACY_MD.to_string() } else { format!("manual summary {k}\n\n## Cumulative Summary\n\nhand written {k}\n") }),
                    summary_artifact_id: art.map(|a| w.uuid_of_art(a)),
                    to_message_id: to_mid.map(|m| w.uuid_of_frame(m)),
                    to_seq: *to_seq,
                    stride_messages: *stride,
                    actor_id: "actor0".into(),
                    origin: "test".into(),
                };
                let _ = w.store.compaction_checkpoint_cumulative_v1(&w.tid, req);
            }
            Op::Auto { stride, maxnew, dry } => {
                let req = CompactionAutoV1Request { stride_messages: *stride, max_new_checkpoints: maxnew.map(|m| m as u32), dry_run: *dry, actor_id: "actor0".into(), origin: "test".into() };
                let _ = w.store.compaction_auto_v1(&w.tid, req);
            }
            Op::Sched { stride, maxnew, block, exec, dry } => {
                let req = CompactionAutoScheduleV1Request { stride_messages: *stride, max_new_checkpoints: maxnew.map(|m| m as u32), block_on_inflight: *block, execute: *exec, dry_run: *dry, actor_id: "actor0".into(), origin: "test".into() };
                let _ = w.store.compaction_auto_schedule_v1(&w.tid, req);
            }
            _ => {}
        }
        w.refresh();
    }
}

/// Runs the calls on actor threads under the controlled scheduler.  A scheduling quantum of an actor is: the
/// append it is parked in front of (cont.before_lock .. cont.advanced, run without interruption) followed by
/// everything it does up to its next park in front of the seq mutex (or its end).  `fixed` replays a schedule.
fn run_conc(prefix: &[Op], calls: &[Spec], seed: u64, fixed: Option<&[u64]>) -> ConcRun {
    use rv::sched::Sched;
    let mut w = World::new("c09c");
    apply_prefix(&mut w, prefix);
    w.sequential = false;
    let mut sc = Sched::new();
    if let Some(s) = Arc::get_mut(&mut sc) {
        s.step_timeout = std::time::Duration::from_secs(180);
    }
    sc.install();
    let resps: Arc<std::sync::Mutex<Vec<Option<Resp>>>> = Arc::new(std::sync::Mutex::new((0..calls.len()).map(|_| None).collect()));
    let mut handles = vec![];
    for x in calls {
        if let Spec::Msgs(ms) = x {
            for (_, content) in ms {
                w.contents.insert(content_text(*content), *content);
            }
        }
    }
    for (i, c) in calls.iter().enumerate() {
        let store = w.store.clone();
        let tid = w.tid.clone();
        let c = c.clone();
        let resps = resps.clone();
        handles.push(sc.spawn(i, move || {
            let c = match c {
                Spec::Call(c) => c,
                Spec::Msgs(ms) => {
                    for (actor, content) in ms {
                        store.append_message(&tid, format!("actor{actor}"), "test".into(), content_text(content)).unwrap();
                    }
                    resps.lock().unwrap()[i] = Some(Resp::Msgs);
                    return;
                }
            };
            let r = if c.sched {
                Resp::Sched(store.compaction_auto_schedule_v1(
                    &tid,
                    CompactionAutoScheduleV1Request { stride_messages: Some(c.stride), max_new_checkpoints: Some(c.maxnew as u32), block_on_inflight: Some(c.block), execute: Some(c.exec), dry_run: Some(false), actor_id: format!("actor{i}"), origin: "test".into() },
                ))
            } else {
                Resp::Auto(store.compaction_auto_v1(&tid, CompactionAutoV1Request { stride_messages: Some(c.stride), max_new_checkpoints: Some(c.maxnew as u32), dry_run: Some(false), actor_id: format!("actor{i}"), origin: "test".into() }))
            };
            resps.lock().unwrap()[i] = Some(r);
        }));
    }
    let mut rng = Rng::new(seed);
    let mut schedule: Vec<u64> = vec![];
    let mut off_script = false;
    let mut k = 0usize;
    let trace = sc.run(
        |en| {
            if let Some((a, _)) = en.iter().find(|(_, p)| *p != "start" && *p != "cont.before_lock" && *p != "compact.sched.before_spawn") {
                return Some(*a); // inside an append or a file-system step: finish the quantum
            }
            let choice = match fixed {
                Some(f) => match f.get(k) {
                    Some(a) if en.iter().any(|(x, _)| *x as u64 == *a) => *a as usize,
                    _ => {
                        off_script = true;
                        en[0].0
                    }
                },
                None => en[rng.below(en.len() as u64) as usize].0,
            };
            k += 1;
            schedule.push(choice as u64);
            Some(choice)
        },
        &|_, _| true,
    );
    Sched::uninstall();
    for h in handles {
        let _ = h.join();
    }
    w.refresh();
    let mut viol = vec![];
    let mut inconclusive = None;
    if trace.deadlock {
        viol.push(Viol { what: format!("concurrent compaction calls deadlocked after {:?}", trace.steps), class: "deadlock".into() });
    }
    if !trace.panicked.is_empty() {
        viol.push(Viol { what: format!("actor(s) {:?} panicked", trace.panicked), class: "panic".into() });
    }
    if trace.in_flight_timeouts > 0 {
        inconclusive = Some("an actor did not reach its next park within the step watchdog".to_string());
    }
    if off_script {
        inconclusive = Some("replayed schedule could not be followed".to_string());
    }
    // responses
    let mut obs: Vec<u64> = vec![];
    let rs = resps.lock().unwrap();
    let mut claimed_done: Vec<String> = vec![];
    for (i, r) in rs.iter().enumerate() {
        match r {
            None => obs.push(0),
            Some(Resp::Msgs) => obs.push(1),
            Some(Resp::Sched(Err(e))) | Some(Resp::Auto(Err(e))) => {
                obs.extend([1, 99]);
                viol.push(Viol { what: format!("concurrent call {i} failed: {e}"), class: "unexpected_error".into() });
            }
            Some(Resp::Sched(Ok(r))) => {
                obs.extend([1, decision_no(&r.decision)]);
                enc_opt(&mut obs, r.job_id.as_ref().map(|j| w.job_no(j)));
                let cs: Vec<(String, String, u64, String)> = r.result.iter().map(|c| (c.checkpoint_id.clone(), c.summary_artifact_id.clone(), c.to_seq, c.to_message_id.clone())).collect();
                enc_createds(&w, &mut obs, &cs);
                enc_opt(&mut obs, r.error.as_ref().map(|e| job_err_no(e)));
                if r.decision == "completed" || r.decision == "failed" {
                    claimed_done.extend(r.job_id.clone());
                }
            }
            Some(Resp::Auto(Ok(r))) => {
                let st = match r.status.as_str() {
                    "noop" => 10,
                    "completed" => 12,
                    "failed" => 13,
                    _ => 98,
                };
                obs.extend([1, st]);
                enc_opt(&mut obs, r.job_id.as_ref().map(|j| w.job_no(j)));
                let cs: Vec<(String, String, u64, String)> = r.result.iter().map(|c| (c.checkpoint_id.clone(), c.summary_artifact_id.clone(), c.to_seq, c.to_message_id.clone())).collect();
                enc_createds(&w, &mut obs, &cs);
                enc_opt(&mut obs, r.error.as_ref().map(|e| job_err_no(e)));
                if r.status == "completed" || r.status == "failed" {
                    claimed_done.extend(r.job_id.clone());
                }
            }
        }
    }
    drop(rs);
    // independent oracle: valid stream, job bracket, coverage; every job whose call returned has its job_ended
    oracle_history(&w, &[], &mut viol);
    viol.append(&mut w.art_viol.borrow_mut());
    for j in &claimed_done {
        let ended = w.events.iter().filter(|e| matches!(&e.kind, EventKind::ContinuityJobEnded { job_id, .. } if job_id == j)).count();
        if ended != 1 {
            viol.push(Viol { what: format!("call returned for job {j} but the stream holds {ended} job_ended frame(s) for it"), class: "job_bracket".into() });
        }
    }
    // every completed job created precisely the cuts its job_spawned frame announced
    for e in &w.events {
        if let EventKind::ContinuityJobEnded { job_id, status, result, .. } = &e.kind {
            if status != "completed" {
                continue;
            }
            let mut made: Vec<u64> = createds_of_value(&result.clone().unwrap_or(Value::Null)["created"]).iter().map(|c| c.2).collect();
            let mut planned: Vec<u64> = w.events.iter().find_map(|s| match &s.kind {
                EventKind::ContinuityJobSpawned { job_id: j, details, .. } if j == job_id => Some(plans_of_value(&details.clone().unwrap_or(Value::Null)["planned"]).iter().map(|p| p.1).collect()),
                _ => None,
            }).unwrap_or_default();
            made.sort();
            planned.sort();
            if made != planned {
                viol.push(Viol { what: format!("job {} completed with checkpoints at to_seq {made:?} but its job_spawned frame planned to_seq {planned:?}", w.job_no(job_id)), class: "job_created_differs_from_spawned_plan".into() });
            }
        }
    }
    // replay safety: after the race the queries still answer from truth, with and without caches
    for stride in calls.iter().filter_map(|c| if let Spec::Call(c) = c { Some(c.stride) } else { None }).collect::<std::collections::BTreeSet<u64>>() {
        let req = CompactionCutPointsV1Request { stride_messages: Some(stride), limit: Some(32) };
        let r = w.store.compaction_cut_points_v1(&w.tid, req.clone());
        match &r {
            Err(e) => viol.push(Viol { what: format!("cut_points after concurrent calls failed: {e}"), class: "unexpected_error".into() }),
            Ok(r) => {
                let want = ref_cut_points(&w.events, stride, 32);
                let got: Vec<RefCut> = r.cut_points.iter().map(|c| RefCut { ord: c.target_message_ordinal, seq: c.to_seq, id: c.to_message_id.clone(), done: c.already_checkpointed, ck: c.latest_checkpoint_id.clone() }).collect();
                if want != got {
                    viol.push(Viol { what: format!("after concurrent calls cut_points {got:?} differ from the stream {want:?}"), class: "checkpointed_flag_wrong".into() });
                }
            }
        }
        for (lost, _sc, t) in w.copies() {
            let r2 = t.compaction_cut_points_v1(&w.tid, req.clone());
            let a = r.as_ref().map(|x| serde_json::to_value(x).unwrap()).map_err(|e| e.clone());
            let b = r2.as_ref().map(|x| serde_json::to_value(x).unwrap()).map_err(|e| e.clone());
            if a != b {
                viol.push(Viol { what: format!("after concurrent calls: cut_points with caches {a:?} != {lost} {b:?}"), class: "fast_truth_differ".into() });
            }
        }
    }
    obs.push(w.events.len() as u64);
    for e in &w.events {
        obs.extend([e.seq, w.frame_no(&e.id)]);
        enc_body(&w, &mut obs, e);
    }
    obs.push(w.arts.len() as u64);
    for (i, a) in w.arts.iter().enumerate() {
        obs.push(i as u64 + 1);
        obs.extend(a.1.iter().copied());
    }
    let texts = w.arts.iter().map(|a| w.canon_text(&a.2)).collect();
    let jobs = w.jobs.len();
    let mut tos: Vec<u64> = w.events.iter().filter_map(|e| match &e.kind { EventKind::ContinuityCompactionCheckpointCreated { to_seq, .. } => Some(*to_seq), _ => None }).collect();
    let ckpts = tos.len();
    tos.sort();
    tos.dedup();
    let truncated = w.truncated.get();
    ConcRun { obs, texts, schedule, viol, inconclusive, jobs, ckpts, dup_ckpts: ckpts - tos.len(), truncated }
}

fn gen_conc(r: &mut Rng) -> (Vec<Op>, Vec<Spec>) {
    let stride = *r.pick(&[1u64, 2, 2, 3]);
    let mut prefix = vec![];
    let n = r.range(2, 11);
    for _ in 0..n {
        match r.below(10) {
            0 => prefix.push(Op::Other(r.below(2))),
            _ => prefix.push(Op::Msg { actor: r.below(2), content: r.below(40) }),
        }
    }
    match r.below(6) {
        0 => prefix.push(Op::Sched { stride: Some(stride), maxnew: Some(1), block: Some(false), exec: Some(false), dry: None }), // a job left in flight
        1 => prefix.push(Op::Auto { stride: Some(stride), maxnew: Some(1), dry: None }),
        2 => prefix.push(Op::Manual { md: Some(0), art: None, to_mid: None, to_seq: None, stride: Some(stride) }),
        _ => {}
    }
    let k = 2 + r.below(2) as usize;
    let mut calls = vec![];
    for _ in 0..k {
        calls.push(Spec::Call(Call { sched: r.below(3) != 0, stride: if r.below(5) == 0 { *r.pick(&[1u64, 2, 3]) } else { stride }, maxnew: *r.pick(&[1u64, 1, 2, 32]), block: r.below(4) != 0, exec: r.below(5) != 0 }));
    }
    if r.below(2) == 0 {
        // a client keeps appending messages while the calls run
        let n = r.range(1, 6);
        let ms = (0..n).map(|_| (r.below(2), r.below(40))).collect();
        let at = r.below(calls.len() as u64 + 1) as usize;
        calls.insert(at, Spec::Msgs(ms));
    }
    (prefix, calls)
}

// ------------------------------------------------------------------ generator
fn gen_case(r: &mut Rng, long: bool) -> Vec<Op> {
    let strides = [0u64, 1, 2, 3, 7, 10_000];
    let pref = *r.pick(&[1u64, 2, 2, 3, 3, 7]);
    let n = if long { r.range(30, 70) } else { r.range(3, 26) };
    let mut ops = vec![];
    let mut frames: u64 = 1; // upper estimate of frames so far (ids/seqs to aim at)
    let mut arts: u64 = 0;
    let actors = *r.pick(&[1u64, 2, 3, 8]);
    let pick_stride = |r: &mut Rng| -> Option<u64> {
        match r.below(10) {
            0 => None,
            1 | 2 => Some(*r.pick(&strides[..])),
            3 => Some(*r.pick(&[1u64 << 40, 1u64 << 63, 5, 4])),
            _ => Some(pref),
        }
    };
    let pick_ob = |r: &mut Rng, bias_true: bool| -> Option<bool> {
        match r.below(6) {
            0 => None,
            1 => Some(!bias_true),
            _ => Some(bias_true),
        }
    };
    for _ in 0..n {
        let k = r.below(100);
        let op = if k < 46 {
            frames += 1;
            Op::Msg { actor: r.below(actors), content: r.below(40) }
        } else if k < 56 {
            frames += 1;
            Op::Other(r.below(2))
        } else if k < 65 {
            Op::Cut { stride: pick_stride(r), limit: *r.pick(&[None, Some(0), Some(1), Some(2), Some(3), Some(32), Some(33), Some(1000)]) }
        } else if k < 69 {
            Op::Status { stride: pick_stride(r) }
        } else if k < 79 {
            frames += 4;
            arts += 2;
            Op::Auto { stride: pick_stride(r), maxnew: *r.pick(&[None, Some(0), Some(1), Some(2), Some(3), Some(32), Some(33)]), dry: pick_ob(r, false) }
        } else if k < 89 {
            frames += 5;
            arts += 2;
            Op::Sched { stride: pick_stride(r), maxnew: *r.pick(&[None, Some(0), Some(1), Some(2), Some(32), Some(33)]), block: pick_ob(r, true), exec: pick_ob(r, true), dry: pick_ob(r, false) }
        } else if k < 98 {
            frames += 1;
            arts += 1;
            let sel = r.below(10);
            let (to_mid, to_seq, stride) = match sel {
                0 | 1 | 2 => (Some(r.range(1, frames + 1)), None, None),
                3 | 4 | 5 => (None, Some(r.range(0, frames + 1)), None),
                6 | 7 => (None, None, pick_stride(r)),
                8 => (Some(r.range(1, frames)), Some(r.range(0, frames)), None),
                _ => (None, None, None),
            };
            let (md, art) = match r.below(10) {
                0 => (None, None),
                1 => (Some(1), None),
                2 => (None, Some(r.range(1, arts.max(1) + 1))),
                3 => (Some(0), Some(r.range(1, arts.max(1)))),
                _ => (Some(0), None),
            };
            Op::Manual { md, art, to_mid, to_seq, stride }
        } else {
            Op::DropArt(r.range(1, arts.max(1)))
        };
        ops.push(op);
    }
    let st = if pref == 0 { 2 } else { pref };
    let fault = if r.below(3) == 0 { Some(r.below(FAULT_NAMES.len() as u64)) } else { None };
    let dup = match fault {
        Some(k) if fault_forces_truth_checkpoint_path(k) => r.below(8) != 0,
        _ => r.below(4) == 0,
    };
    if dup {
        // several checkpoint frames for the SAME (newest) cut point of stride `st`: the latest frame must win on
        // every path.  A manual checkpoint repeated, a manual one after an auto one, one re-using the summary
        // artifact of its predecessor; then the query that has to name the last of them.
        ops.extend(dup_block(r, st, arts));
        ops.push(Op::Cut { stride: Some(st), limit: Some(*r.pick(&[1u64, 2, 32])) });
        if r.below(2) == 0 {
            // the next cut is summarised on top of those frames: its base must be the LAST of them (manual: the scan
            // over the replayed stream; auto / schedule: the sidecar look-up)
            for _ in 0..st.min(8) {
                ops.push(Op::Msg { actor: r.below(actors), content: r.below(40) });
            }
            ops.push(match r.below(3) {
                0 => Op::Auto { stride: Some(st), maxnew: Some(1), dry: None },
                1 => Op::Sched { stride: Some(st), maxnew: Some(1), block: Some(false), exec: Some(true), dry: None },
                _ => Op::Manual { md: Some(0), art: None, to_mid: None, to_seq: None, stride: Some(st) },
            });
            ops.push(Op::Status { stride: Some(st) });
        }
    }
    if let Some(k) = fault {
        // terminal cache-fault block: damage the caches, then only read-only queries (dry runs append nothing)
        let again = fault_forces_truth_checkpoint_path(k);
        let queries = [
            Op::Cut { stride: Some(st), limit: Some(32) },
            Op::Status { stride: Some(st) },
            Op::Auto { stride: Some(st), maxnew: Some(32), dry: Some(true) },
            Op::Sched { stride: Some(st), maxnew: Some(2), block: Some(true), exec: Some(true), dry: Some(true) },
            Op::Cut { stride: Some(1), limit: Some(3) },
        ];
        for (i, q) in queries.into_iter().enumerate() {
            if i == 0 || again {
                ops.push(Op::Fault(k));
            }
            ops.push(q);
        }
    }
    ops
}

/// 2..4 checkpoint frames at the newest `st`-th message (nothing is appended when the thread is still shorter than
/// `st` messages: every op is then refused or a no-op, in the code and in the model alike)
fn dup_block(r: &mut Rng, st: u64, arts: u64) -> Vec<Op> {
    let manual = |md: Option<u64>, art: Option<u64>| Op::Manual { md, art, to_mid: None, to_seq: None, stride: Some(st) };
    let mut v = vec![];
    match r.below(4) {
        0 => v.push(Op::Auto { stride: Some(st), maxnew: Some(1), dry: None }),
        1 => v.push(Op::Sched { stride: Some(st), maxnew: Some(1), block: Some(false), exec: Some(true), dry: None }),
        _ => v.push(manual(Some(0), None)),
    }
    for _ in 0..r.range(1, 4) {
        v.push(match r.below(5) {
            // the summary artifact of an earlier checkpoint: accepted exactly when its coverage ends at this cut
            0 => manual(None, Some(r.range(1, arts + 3))),
            1 => manual(Some(1), None),
            _ => manual(Some(0), None),
        });
    }
    v
}

fn corpus() -> Vec<Vec<Op>> {
    let m = |a, c| Op::Msg { actor: a, content: c };
    vec![
        // exact multiples, one checkpoint superseded by a later one at the same to_seq
        vec![m(0, 1), m(1, 2), m(0, 3), m(1, 4), Op::Manual { md: Some(0), art: None, to_mid: None, to_seq: Some(2), stride: None },
             Op::Manual { md: Some(0), art: None, to_mid: None, to_seq: Some(2), stride: None }, Op::Cut { stride: Some(2), limit: Some(32) },
             Op::Auto { stride: Some(2), maxnew: Some(32), dry: None }, Op::Auto { stride: Some(2), maxnew: Some(32), dry: None }, Op::Status { stride: Some(2) }],
        // backlog larger than max_new: two calls needed, third is a no-op
        vec![m(0, 1), m(0, 2), m(0, 3), m(0, 4), m(0, 5), m(0, 6), m(0, 7), Op::Auto { stride: Some(2), maxnew: Some(2), dry: None },
             Op::Auto { stride: Some(2), maxnew: Some(2), dry: None }, Op::Auto { stride: Some(2), maxnew: Some(2), dry: None }, Op::Cut { stride: Some(2), limit: Some(33) }],
        // schedule without execution leaves a job in flight; the next schedule is skipped, block=false spawns again
        vec![m(0, 1), m(1, 2), Op::Sched { stride: Some(1), maxnew: Some(1), block: Some(true), exec: Some(false), dry: None },
             Op::Sched { stride: Some(1), maxnew: Some(1), block: Some(true), exec: Some(true), dry: None },
             Op::Sched { stride: Some(1), maxnew: Some(2), block: Some(false), exec: Some(true), dry: None }, Op::Status { stride: Some(1) }],
        // the newest cut point checkpointed twice, then the full sidecar and the checkpoint sidecar are lost: the
        // planner answers the first cut point from the truth log and must still name the LATER frame (seeded C09-4)
        vec![m(0, 1), m(1, 2), m(0, 3), m(1, 4), Op::Manual { md: Some(0), art: None, to_mid: None, to_seq: Some(4), stride: None },
             Op::Manual { md: Some(0), art: None, to_mid: None, to_seq: Some(4), stride: None }, Op::Cut { stride: Some(2), limit: Some(8) },
             Op::Fault(8), Op::Cut { stride: Some(2), limit: Some(8) }, Op::Fault(9), Op::Status { stride: Some(2) },
             Op::Fault(8), Op::Auto { stride: Some(2), maxnew: Some(32), dry: Some(true) }],
        // legacy placeholder base and unreadable base
        vec![m(0, 1), m(1, 2), m(0, 3), m(1, 4), Op::Manual { md: Some(1), art: None, to_mid: None, to_seq: None, stride: Some(2) }, m(0, 5), m(0, 6),
             Op::Auto { stride: Some(2), maxnew: Some(1), dry: None }, Op::DropArt(2), m(1, 7), m(1, 8), Op::Auto { stride: Some(2), maxnew: Some(1), dry: None }],
    ]
}

fn nontrivial(run: &Run) -> bool {
    run.n_ckpt > 0 && run.n_cut > 0
}

fn main() {
    let a = parse_args();
    let mut res = RunResult::new("C09", &a);
    let t_phase = std::time::Instant::now();
    res.rule = "case = op list (messages, other frames, manual checkpoints at message ids / seqs / strides incl. non-boundaries, cut_points, status, auto, schedule, blob deletion) over stride in {0,1,2,3,7,10000,2^40,2^63,default}, limit in {default,0,1,2,3,32,33,1000}, max_new in {default,0,1,2,3,32,33}, optional booleans; non-trivial = at least one checkpoint created and one cut point returned; distinct by hash of the op list".into();
    let n = if a.thorough() { 6000 } else { 320 };
    let mut r = Rng::new(a.seed);
    let mut w = CaseWriter::new(&a.out, "Model.Compaction", "check_case", "model_obs", 40);
    let mut distinct = Distinct::default();
    let mut all = corpus();
    for i in 0..n {
        all.push(gen_case(&mut r, i % 8 == 7));
    }
    for (i, ops) in all.iter().enumerate() {
        let ops2 = ops.clone();
        let got = std::panic::catch_unwind(move || {
            let r1 = run_case(&ops2, true);
            let r2 = run_case(&ops2, false);
            (r1, r2)
        });
        res.evaluations += 1;
        res.bump(&format!("ops={}", match ops.len() { 0..=9 => "0-9", 10..=25 => "10-25", _ => "26+" }));
        match got {
            Err(_) => {
                res.impl_panics += 1;
                res.oracle_violations.push(OracleViolation { case_id: i as i64, what: "compaction API panicked".into(), class: "panic".into(), replay: case_json(ops) });
            }
            Ok((r1, r2)) => {
                res.oracle_checks += 1 + ops.len() as u64;
                for s in &r1.stats {
                    res.bump(s);
                }
                res.bump_by("checkpoints_created", r1.n_ckpt as u64);
                res.bump_by("cut_points_returned", r1.n_cut as u64);
                let mut viol = r1.viol;
                if r1.obs != r2.obs {
                    viol.push(Viol { what: "the same operations on two fresh stores gave different canonical observations".into(), class: "nondeterministic".into() });
                } else if r1.texts != r2.texts {
                    let k = r1.texts.iter().zip(&r2.texts).position(|(x, y)| x != y).unwrap_or(0);
                    viol.push(Viol { what: format!("summary {} differs between two builds of the same history:\n{}\n----\n{}", k + 1, r1.texts[k], r2.texts[k]), class: "summary_text_differs".into() });
                }
                if let Some(v) = viol.first() {
                    // shrink the op list while the same class keeps failing
                    let cls = v.class.clone();
                    let small = shrink_vec(ops.clone(), |cand| {
                        let c = cand.to_vec();
                        std::panic::catch_unwind(move || {
                            let x = run_case(&c, true);
                            let y = run_case(&c, false);
                            let mut cl: Vec<String> = x.viol.iter().map(|v| v.class.clone()).collect();
                            if x.obs != y.obs {
                                cl.push("nondeterministic".into());
                            } else if x.texts != y.texts {
                                cl.push("summary_text_differs".into());
                            }
                            cl
                        })
                        .map(|cl| cl.contains(&cls))
                        .unwrap_or(false)
                    });
                    res.oracle_violations.push(OracleViolation { case_id: i as i64, what: v.what.clone(), class: v.class.clone(), replay: case_json(&small) });
                }
                if r1.truncated {
                    res.bump("summary_reached_20000_chars_not_compared");
                } else if !a.oracle_only() {
                    let id = w.push(coq_case(ops, &r1.obs));
                    if res.case_index.len() < 4000 {
                        res.case_index.insert(id.to_string(), case_json(ops));
                    }
                }
                if nontrivial(&Run { obs: vec![], texts: vec![], viol: vec![], n_ckpt: r1.n_ckpt, n_cut: r1.n_cut, stats: vec![], truncated: false }) {
                    distinct.add(&format!("{ops:?}"));
                    if res.samples.len() < 2 && ops.len() < 14 && i >= 5 {
                        res.samples.push(case_json(ops));
                    }
                }
            }
        }
    }
    let t_seq = t_phase.elapsed();
    let t_phase = std::time::Instant::now();
    // concurrent schedule / auto calls under the controlled scheduler
    let n_conc = if a.thorough() { 600 } else { 50 };
    let mut wc = CaseWriter::new(&a.out.join("conc"), "Model.Compaction", "check_ccase", "model_cobs", 25).with_base(1_000_000);
    for i in 0..n_conc {
        let (prefix, calls) = gen_conc(&mut r);
        let seed = r.next();
        let (p2, c2) = (prefix.clone(), calls.clone());
        let got = std::panic::catch_unwind(move || {
            let r1 = run_conc(&p2, &c2, seed, None);
            let r2 = if i % 3 == 0 && r1.inconclusive.is_none() { Some(run_conc(&p2, &c2, seed, Some(&r1.schedule))) } else { None };
            (r1, r2)
        });
        res.evaluations += 1;
        res.bump("concurrent_cases");
        match got {
            Err(_) => {
                rv::sched::Sched::uninstall();
                res.impl_panics += 1;
                res.oracle_violations.push(OracleViolation { case_id: -2, what: "concurrent compaction harness panicked".into(), class: "panic".into(), replay: ccase_json(&prefix, &calls, &[]) });
            }
            Ok((r1, r2)) => {
                res.oracle_checks += 3 + calls.len() as u64;
                res.bump_by("concurrent_jobs_spawned", r1.jobs as u64);
                res.bump_by("concurrent_checkpoints", r1.ckpts as u64);
                res.bump_by("concurrent_duplicate_checkpoints", r1.dup_ckpts as u64);
                if r1.jobs >= 2 {
                    res.bump("concurrent_cases_with_2+_jobs");
                }
                if calls.iter().any(|c| matches!(c, Spec::Msgs(_))) {
                    res.bump("concurrent_cases_with_message_appender");
                }
                let mut viol = r1.viol;
                if let Some(r2) = r2 {
                    if r2.inconclusive.is_none() {
                        if r1.obs != r2.obs {
                            viol.push(Viol { what: "the same calls under the same schedule gave different canonical observations".into(), class: "nondeterministic".into() });
                        } else if r1.texts != r2.texts {
                            viol.push(Viol { what: "summary text differs between two runs of the same calls under the same schedule".into(), class: "summary_text_differs".into() });
                        }
                    } else {
                        res.bump("concurrent_replay_inconclusive");
                    }
                }
                if let Some(v) = viol.first() {
                    res.oracle_violations.push(OracleViolation { case_id: -2, what: v.what.clone(), class: v.class.clone(), replay: ccase_json(&prefix, &calls, &r1.schedule) });
                }
                match &r1.inconclusive {
                    Some(why) => {
                        res.bump(&format!("concurrent_inconclusive: {why}"));
                    }
                    None if r1.truncated => res.bump("summary_reached_20000_chars_not_compared"),
                    None => {
                        if !a.oracle_only() {
                            let id = wc.push(coq_ccase(&prefix, &calls, &r1.schedule, &r1.obs));
                            if res.case_index.len() < 4000 {
                                res.case_index.insert(id.to_string(), ccase_json(&prefix, &calls, &r1.schedule));
                            }
                        }
                        if r1.jobs >= 1 {
                            distinct.add(&format!("{prefix:?}{calls:?}{:?}", r1.schedule));
                        }
                    }
                }
            }
        }
    }
    wc.flush();
    let t_conc = t_phase.elapsed();
    let t_phase = std::time::Instant::now();
    for schedule in [false, true] {
        let got = std::panic::catch_unwind(move || io_failure_scenario(schedule));
        res.evaluations += 1;
        res.oracle_checks += 4;
        res.bump("io_failure_scenario");
        match got {
            Err(_) => res.oracle_violations.push(OracleViolation { case_id: -3, what: "panic in the unwritable-artifact-store scenario".into(), class: "panic".into(), replay: json!({"io_failure_scenario": schedule}) }),
            Ok(vs) => {
                if let Some(v) = vs.into_iter().next() {
                    res.oracle_violations.push(OracleViolation { case_id: -3, what: v.what, class: v.class, replay: json!({"io_failure_scenario": {"schedule": schedule}, "how": "2 messages; .rip/artifacts replaced by a file; auto / schedule(stride 2)"}) });
                }
            }
        }
    }
    for n in [3usize, 10_001] {
        let got = std::panic::catch_unwind(move || long_history_auto_base(n));
        res.evaluations += 1;
        res.oracle_checks += 2;
        res.bump("long_history_auto_base");
        match got {
            Err(_) => res.oracle_violations.push(OracleViolation { case_id: -4, what: "panic in auto on a long checkpoint history".into(), class: "panic".into(), replay: json!({"long_history_auto_base": n}) }),
            Ok(vs) => {
                for v in vs {
                    res.oracle_violations.push(OracleViolation { case_id: -4, what: v.what, class: v.class, replay: json!({"long_history_auto_base": n, "how": "events.jsonl = created, 2 messages, n checkpoint frames for the 2nd message (own artifact ids), 2 messages; auto(stride 2, max_new 1)"}) });
                }
            }
        }
    }
    {
        let got = std::panic::catch_unwind(foreign_summary_scenario);
        res.evaluations += 1;
        res.oracle_checks += 3;
        res.bump("foreign_summary_scenario");
        match got {
            Err(_) => res.oracle_violations.push(OracleViolation { case_id: -5, what: "panic in the foreign-summary scenario".into(), class: "panic".into(), replay: json!({"foreign_summary_scenario": true}) }),
            Ok(vs) => {
                for v in vs {
                    res.oracle_violations.push(OracleViolation { case_id: -5, what: v.what, class: v.class, replay: json!({"foreign_summary_scenario": true, "how": "parent [created, m, m, m]; branch child [created, branched, m, m]; manual checkpoint of the child at seq 2 -> artifact A; manual checkpoint {summary_artifact_id: A} of the parent at seq 2 / of the child at seq 3 / of the child at seq 2"}) });
                }
            }
        }
    }
    for n_after in [3usize, 9_999, 10_000, 10_050] {
        let got = std::panic::catch_unwind(move || long_checkpoint_history(n_after));
        res.evaluations += 1;
        res.oracle_checks += 2;
        res.bump("long_checkpoint_history");
        match got {
            Err(_) => res.oracle_violations.push(OracleViolation { case_id: -1, what: "panic on a long checkpoint history".into(), class: "panic".into(), replay: json!({"long_checkpoint_history": n_after}) }),
            Ok(vs) => {
                for v in vs {
                    res.oracle_violations.push(OracleViolation { case_id: -1, what: v.what, class: v.class, replay: json!({"long_checkpoint_history": n_after, "query": "cut_points(stride 2, limit 2) twice"}) });
                }
            }
        }
    }
    w.flush();
    res.bump_by("phase_ms_sequential", t_seq.as_millis() as u64);
    res.bump_by("phase_ms_concurrent", t_conc.as_millis() as u64);
    res.bump_by("phase_ms_scenarios", t_phase.elapsed().as_millis() as u64);
    if res.samples.is_empty() {
        res.samples.push(case_json(&all[0]));
    }
    res.distinct_nontrivial = distinct.count();
    res.case_files = w.files.iter().chain(wc.files.iter()).map(|p| p.display().to_string()).collect();
    res.write(&a.out);
    println!("c09: {} cases, {} distinct non-trivial, {} oracle violations, {} panics", res.evaluations, res.distinct_nontrivial, res.oracle_violations.len(), res.impl_panics);
    let _ = Path::new(".");
}
