//! C08 — compiled context is a pure function of thread truth up to the cut point.
//! Random thread histories through the public ContinuityStore API (+ session streams / snapshots for the
//! runs), then the REAL `compile_context_bundle_for_run` (hook `ripd::verif::compile_context_for_run`)
//! for anchors at the tail / mid-thread / far from the tail under several cache states (as found,
//! `continuity_streams/` removed, single faults on each cache file), twice on the same store, and again
//! after more frames were appended beyond the cut.
//! and — deterministically, from inside the rip_verif points of an append (message, run_ended, run_spawned, cursor, side
//! effects, checkpoint) — while further frames are being appended.
//! Span phase: ONE compile is held at the rip_verif point between reading the head and reading the mr sidecar while
//! complete appends happen; its outcome must be what the property demands of some state of the thread in between.
//! Window-boundary sweeps: threads 1.2x..4x of each tail-scan window (256 KiB .. 8 MiB), EVERY message as anchor.
//! Finally real runs: messages posted through the real router with a scripted provider; the frames each run logged
//! (selection_decided, context_compiled + bundle artifact) are read back and judged the same way.
//!   correspondence: decision + bundle (ids mapped to seqs / ordinals) vs coq/Model/Compile.v
//!   independent oracle: (a) equality of bundle + decision JSON across cache states / read paths /
//!   later frames, (b) the bundle against a straight re-computation from the replayed truth log.
use rip_kernel::{Event, EventKind, StreamKind};
use rip_log::EventLog;
use ripd::*;
use rv::*;
use serde::{Deserialize, Serialize};
use serde_json::{json, Value};
use std::collections::{BTreeMap, HashMap};
use std::path::{Path, PathBuf};
use std::sync::Arc;
use std::time::Duration;

// ---------------------------------------------------------------- cases
#[derive(Clone, Copy, Debug, Serialize, Deserialize, PartialEq, Eq, Hash, PartialOrd, Ord)]
enum Target {
    Full,
    Mr,
    Comp,
    CompIdx,
    Seek,
    MsgIdx,
    MrSeek,
    MrMsgIdx,
    Ord,
}
const TARGETS: [Target; 9] = [Target::Full, Target::Mr, Target::Comp, Target::CompIdx, Target::Seek, Target::MsgIdx, Target::MrSeek, Target::MrMsgIdx, Target::Ord];

#[derive(Clone, Copy, Debug, Serialize, Deserialize, PartialEq, Eq)]
enum FaultKind {
    Delete,
    TruncMidLine,
    Garbage,
    Empty,
}
const FAULT_KINDS: [FaultKind; 4] = [FaultKind::Delete, FaultKind::TruncMidLine, FaultKind::Garbage, FaultKind::Empty];

#[derive(Clone, Debug, Serialize, Deserialize, PartialEq)]
enum Op {
    Msg { size: u64 },
    /// a run for message `msg` (index modulo the messages so far): session stream with reply text
    /// variant `text` (0 = no session frames at all, 1 = session without output, k>=2 = "reply k") and
    /// snapshot variant `snap` (0 none, 1 valid same text, 2 valid other text, 3 foreign frames,
    /// 4 empty list, 5 unreadable file)
    Run { msg: u64, text: u8, snap: u8 },
    RunEnded { run: u64 },
    SideFx,
    Cursor,
    Selection,
    Compiled,
    Checkpoint { msg: u64 },
    /// a checkpoint frame of a summary kind the compiler does not support, written straight into the truth log
    /// (no public API produces one); the caches are dropped and the store reopened
    ForeignCheckpoint { msg: u64 },
    Schedule { stride: u64, max_new: u32 },
    Restart,
    /// `n` checkpoint frames for message `msg` written straight into the truth log (more than the 10 000 frames / 8 MiB the
    /// checkpoint sidecar scan reads); `cumulative` = supported kind or not; caches dropped, store reopened
    BulkCheckpoints { n: u64, msg: u64, cumulative: bool },
}

#[derive(Clone, Debug, Serialize, Deserialize, PartialEq)]
enum Anchor {
    Msg(u64),  // index into the messages (modulo)
    Last,      // the newest message
    Unknown,   // an id that is not in the thread
    NonMessage, // the id of the continuity_created frame
}

#[derive(Clone, Debug, Serialize, Deserialize)]
struct Case {
    ops: Vec<Op>,
    anchors: Vec<Anchor>,
    /// appended after the first round of compiles; anchors with a following message must not notice
    later: Vec<Op>,
    faults: Vec<(Target, FaultKind)>,
    #[serde(default)]
    big: bool,
    /// appends during which a compile runs at every instrumented point (after `later`)
    #[serde(default)]
    race: Vec<Op>,
    /// window-boundary sweep (anchors = every message of a thread larger than a tail window): 0 = no,
    /// 1 = every anchor under all cache states, 2 = light (caches as found + the re-computation from truth only,
    /// all anchors on one opened store)
    #[serde(default)]
    sweep: u8,
    /// more than 10 000 checkpoint frames: the first anchor gets a model case although the thread is long
    #[serde(default)]
    flood: bool,
}

// ---------------------------------------------------------------- store plumbing
#[derive(Clone)]
struct Opened {
    log: Arc<EventLog>,
    store: Arc<ContinuityStore>,
}
fn open(root: &Path) -> Opened {
    let data = root.join("data");
    let ws = root.join("workspace");
    std::fs::create_dir_all(&ws).unwrap();
    let log = Arc::new(EventLog::new(data.join("events.jsonl")).expect("log"));
    let store = Arc::new(ContinuityStore::new(data, ws, log.clone()).expect("store"));
    Opened { log, store }
}
fn streams_dir(root: &Path) -> PathBuf {
    root.join("data").join("continuity_streams")
}
fn target_path(root: &Path, id: &str, t: Target) -> PathBuf {
    let d = streams_dir(root);
    match t {
        Target::Full => d.join(format!("{id}.jsonl")),
        Target::Mr => d.join(format!("{id}.mr.v1.jsonl")),
        Target::Comp => d.join(format!("{id}.comp.v1.jsonl")),
        Target::CompIdx => d.join(format!("{id}.comp.idx.v1.jsonl")),
        Target::Seek => d.join(format!("{id}.seek.v1.jsonl")),
        Target::MsgIdx => d.join(format!("{id}.messages.v1.bin")),
        Target::MrSeek => d.join(format!("{id}.mr.seek.v1.jsonl")),
        Target::MrMsgIdx => d.join(format!("{id}.mr.messages.v1.bin")),
        Target::Ord => d.join(format!("{id}.mr.msgord.v1.bin")),
    }
}
fn copy_dir(src: &Path, dst: &Path) {
    std::fs::create_dir_all(dst).unwrap();
    for e in std::fs::read_dir(src).unwrap() {
        let e = e.unwrap();
        let p = e.path();
        let d = dst.join(e.file_name());
        if p.is_dir() {
            copy_dir(&p, &d);
        } else {
            std::fs::copy(&p, &d).unwrap();
        }
    }
}
fn apply_fault(root: &Path, id: &str, target: Target, kind: FaultKind) -> bool {
    let p = target_path(root, id, target);
    if !p.exists() {
        return false;
    }
    match kind {
        FaultKind::Delete => std::fs::remove_file(&p).is_ok(),
        FaultKind::Garbage => std::fs::write(&p, b"\x00\xffnot a cache file {{{\n\x01\x02garbage\n").is_ok(),
        FaultKind::Empty => std::fs::write(&p, b"").is_ok(),
        FaultKind::TruncMidLine => {
            let Ok(bytes) = std::fs::read(&p) else { return false };
            if bytes.len() < 8 {
                return false;
            }
            let binary = matches!(target, Target::MsgIdx | Target::MrMsgIdx | Target::Ord);
            let cut = if binary { 5 } else { 3 + (bytes.len() % 17).min(bytes.len() / 2) };
            let f = std::fs::OpenOptions::new().write(true).open(&p).unwrap();
            f.set_len((bytes.len() - cut) as u64).is_ok()
        }
    }
}

fn content(size: u64, n: u64) -> String {
    let mut s = format!("m{n} ");
    while (s.len() as u64) < size {
        s.push('x');
    }
    s
}
fn reply_text(k: u8) -> String {
    match k {
        0 | 1 => String::new(),
        k => format!("reply {k} \u{e9}"),
    }
}

#[derive(Clone, Debug)]
struct RunRec {
    id: String,
    msg: String,
    log_text: String,
    snap: u8,
    snap_text: String,
}

#[derive(Clone)]
struct Hist {
    id: String,
    messages: Vec<String>,
    runs: Vec<RunRec>,
    nmsg: u64,
    op_errors: u64,
}

fn session_event(run: &str, seq: u64, kind: EventKind) -> Event {
    Event { id: uuid::Uuid::new_v4().to_string(), session_id: run.to_string(), timestamp_ms: 1, seq, kind }
}

fn apply_ops(o: &mut Opened, root: &Path, h: &mut Hist, ops: &[Op]) {
    for op in ops {
        let id = h.id.clone();
        let r: Result<(), String> = match op {
            Op::Msg { size } => {
                h.nmsg += 1;
                o.store.append_message(&id, "user".into(), "cli".into(), content(*size, h.nmsg)).map(|m| h.messages.push(m))
            }
            Op::Run { msg, text, snap } => {
                if h.messages.is_empty() {
                    Ok(())
                } else {
                    let m = h.messages[(*msg as usize) % h.messages.len()].clone();
                    let run = uuid::Uuid::new_v4().to_string();
                    let t = reply_text(*text);
                    let mut evs = vec![];
                    if *text >= 1 {
                        evs.push(session_event(&run, 0, EventKind::SessionStarted { input: "hi".into() }));
                        if !t.is_empty() {
                            let cut = t.char_indices().nth(t.chars().count() / 2).map(|(i, _)| i).unwrap_or(0);
                            evs.push(session_event(&run, 1, EventKind::OutputTextDelta { delta: t[..cut].to_string() }));
                            evs.push(session_event(&run, 2, EventKind::OutputTextDelta { delta: t[cut..].to_string() }));
                        }
                        evs.push(session_event(&run, evs.len() as u64, EventKind::SessionEnded { reason: "completed".into() }));
                        for e in &evs {
                            o.log.append(e).expect("session append");
                        }
                    }
                    let snapdir = root.join("data").join("snapshots");
                    let mut snap_text = String::new();
                    match *snap {
                        1 if !evs.is_empty() => {
                            rip_log::write_snapshot(&snapdir, &run, &evs).unwrap();
                            snap_text = t.clone();
                        }
                        2 => {
                            snap_text = format!("snapshot says {text}");
                            let sev = vec![session_event(&run, 0, EventKind::SessionStarted { input: "hi".into() }), session_event(&run, 1, EventKind::OutputTextDelta { delta: snap_text.clone() })];
                            rip_log::write_snapshot(&snapdir, &run, &sev).unwrap();
                        }
                        3 => {
                            let sev = vec![session_event("someone-else", 0, EventKind::OutputTextDelta { delta: "foreign".into() })];
                            rip_log::write_snapshot(&snapdir, &run, &sev).unwrap();
                        }
                        4 => {
                            rip_log::write_snapshot(&snapdir, &run, &[]).unwrap();
                        }
                        5 => {
                            std::fs::create_dir_all(&snapdir).unwrap();
                            std::fs::write(snapdir.join(format!("{run}.json")), b"[{\"broken").unwrap();
                        }
                        _ => {}
                    }
                    let eff_snap = match *snap {
                        1 if !evs.is_empty() => 1,
                        2 => 1,
                        3 | 4 => 2,
                        _ => 0,
                    };
                    h.runs.push(RunRec { id: run.clone(), msg: m.clone(), log_text: t, snap: eff_snap, snap_text });
                    o.store.append_run_spawned(&id, &m, &run, "user".into(), "cli".into()).map(|_| ())
                }
            }
            Op::RunEnded { run } => {
                if h.runs.is_empty() {
                    Ok(())
                } else {
                    let rr = h.runs[(*run as usize) % h.runs.len()].clone();
                    o.store.append_run_ended(&id, &rr.msg, &rr.id, "completed".into(), "user".into(), "cli".into()).map(|_| ())
                }
            }
            Op::SideFx => {
                let link = ContinuityRunLink { continuity_id: id.clone(), message_id: h.messages.last().cloned().unwrap_or_default(), actor_id: "user".into(), origin: "cli".into() };
                o.store.append_tool_side_effects(&link, "run-x", ToolSideEffects { tool_id: "t1".into(), tool_name: "write".into(), affected_paths: Some(vec!["a.txt".into()]), checkpoint_id: None }).map(|_| ())
            }
            Op::Cursor => ripd::verif::append_provider_cursor_updated(&o.store, &id, "p".into(), None, None, Some(json!({"previous_response_id": "r1"})), "set".into(), None, "user".into(), "cli".into()).map(|_| ()),
            Op::Selection => ripd::verif::append_context_selection_decided(&o.store, &id, "run-s".into(), h.messages.last().cloned().unwrap_or_default(), "recent_messages_v1".into(), vec![], "user".into(), "cli".into()).map(|_| ()),
            Op::Compiled => ripd::verif::append_context_compiled(&o.store, &id, "run-s".into(), "artifact".into(), "recent_messages_v1".into(), 0, None, "user".into(), "cli".into()).map(|_| ()),
            Op::Checkpoint { msg } => {
                if h.messages.is_empty() {
                    Ok(())
                } else {
                    let m = h.messages[(*msg as usize) % h.messages.len()].clone();
                    o.store
                        .compaction_checkpoint_cumulative_v1(
                            &id,
                            CompactionCheckpointCumulativeV1Request { summary_markdown: Some(format!("summary up to {msg}")), summary_artifact_id: None, to_message_id: Some(m), to_seq: None, stride_messages: None, actor_id: "user".into(), origin: "cli".into() },
                        )
                        .map(|_| ())
                }
            }
            Op::ForeignCheckpoint { msg } => {
                let truth = replay_truth(root, &id);
                if h.messages.is_empty() || truth.is_empty() {
                    Ok(())
                } else {
                    let m = h.messages[(*msg as usize) % h.messages.len()].clone();
                    let to_seq = truth.iter().find(|e| e.id == m).map(|e| e.seq).unwrap_or(0);
                    let ev = Event {
                        id: uuid::Uuid::new_v4().to_string(),
                        session_id: id.clone(),
                        timestamp_ms: 1,
                        seq: truth.last().unwrap().seq + 1,
                        kind: EventKind::ContinuityCompactionCheckpointCreated {
                            checkpoint_id: uuid::Uuid::new_v4().to_string(),
                            cut_rule_id: "manual_v1".into(),
                            summary_kind: "delta_v0".into(),
                            summary_artifact_id: format!("no-such-artifact-{}", truth.len()),
                            from_seq: 0,
                            from_message_id: None,
                            to_seq,
                            to_message_id: Some(m),
                            actor_id: "user".into(),
                            origin: "cli".into(),
                        },
                    };
                    let r = o.log.append(&ev).map_err(|e| e.to_string());
                    let _ = std::fs::remove_dir_all(streams_dir(root));
                    *o = open(root);
                    r
                }
            }
            Op::BulkCheckpoints { n, msg, cumulative } => {
                let truth = replay_truth(root, &id);
                if h.messages.is_empty() || truth.is_empty() {
                    Ok(())
                } else {
                    let m = h.messages[(*msg as usize) % h.messages.len()].clone();
                    let to_seq = truth.iter().find(|e| e.id == m).map(|e| e.seq).unwrap_or(0);
                    let mut seq = truth.last().unwrap().seq;
                    // a supported checkpoint's summary artifact is read by the compiler: reuse one that exists
                    let real_artifact = truth.iter().rev().find_map(|e| match &e.kind {
                        EventKind::ContinuityCompactionCheckpointCreated { summary_kind, summary_artifact_id, .. } if summary_kind == CUMULATIVE => Some(summary_artifact_id.clone()),
                        _ => None,
                    });
                    let mut r = Ok(());
                    for _ in 0..*n {
                        seq += 1;
                        let ev = Event {
                            id: uuid::Uuid::new_v4().to_string(),
                            session_id: id.clone(),
                            timestamp_ms: 1,
                            seq,
                            kind: EventKind::ContinuityCompactionCheckpointCreated {
                                checkpoint_id: uuid::Uuid::new_v4().to_string(),
                                cut_rule_id: "manual_v1".into(),
                                summary_kind: if *cumulative { CUMULATIVE.into() } else { "bulk_v0".into() },
                                summary_artifact_id: match (&real_artifact, *cumulative) {
                                    (Some(a), true) => a.clone(),
                                    _ => format!("bulk-artifact-{seq}"),
                                },
                                from_seq: 0,
                                from_message_id: None,
                                to_seq,
                                to_message_id: Some(m.clone()),
                                actor_id: "user".into(),
                                origin: "cli".into(),
                            },
                        };
                        if let Err(e) = o.log.append(&ev) {
                            r = Err(e.to_string());
                            break;
                        }
                    }
                    let _ = std::fs::remove_dir_all(streams_dir(root));
                    *o = open(root);
                    r
                }
            }
            Op::Schedule { stride, max_new } => o
                .store
                .compaction_auto_schedule_v1(
                    &id,
                    CompactionAutoScheduleV1Request { stride_messages: Some(*stride), max_new_checkpoints: Some(*max_new), block_on_inflight: Some(false), execute: Some(true), dry_run: Some(false), actor_id: "user".into(), origin: "cli".into() },
                )
                .map(|_| ()),
            Op::Restart => {
                let fresh = open(root);
                *o = fresh;
                Ok(())
            }
        };
        if r.is_err() {
            h.op_errors += 1;
        }
    }
}

/// own reader of the truth log: the thread's frames in file order
fn replay_truth(root: &Path, id: &str) -> Vec<Event> {
    let raw = std::fs::read(root.join("data").join("events.jsonl")).unwrap_or_default();
    let mut out = vec![];
    for line in raw.split(|b| *b == b'\n') {
        if line.is_empty() {
            continue;
        }
        let Ok(ev) = serde_json::from_slice::<Event>(line) else { continue };
        if ev.stream_kind() == StreamKind::Continuity && ev.stream_id() == id {
            out.push(ev);
        }
    }
    out
}

// ---------------------------------------------------------------- the implementation call
#[derive(Clone, Debug, PartialEq)]
enum Out {
    Ok { decision: Value, bundle: Value, from_seq: u64, from_message_id: Option<String> },
    Err(String),
    Hang,
    Panic,
}
impl Out {
    fn canon(&self) -> String {
        match self {
            Out::Ok { decision, bundle, from_seq, from_message_id } => json!({"decision": decision, "bundle": bundle, "from_seq": from_seq, "from_message_id": from_message_id}).to_string(),
            Out::Err(e) => format!("ERR {e}"),
            Out::Hang => "HANG".into(),
            Out::Panic => "PANIC".into(),
        }
    }
}

fn compile_on(o: &Opened, root: &Path, id: &str, anchor: &str) -> Out {
    let link = ContinuityRunLink { continuity_id: id.to_string(), message_id: anchor.to_string(), actor_id: "user".into(), origin: "cli".into() };
    let snap = root.join("data").join("snapshots");
    match ripd::verif::compile_context_for_run(&o.store, &o.log, &snap, &link, "run-under-test") {
        Ok((decision, artifact, from_seq, from_message_id)) => {
            let blob = root.join("workspace").join(".rip").join("artifacts").join("blobs").join(&artifact);
            match std::fs::read(&blob).ok().and_then(|b| serde_json::from_slice::<Value>(&b).ok()) {
                Some(bundle) => Out::Ok { decision, bundle, from_seq, from_message_id },
                None => Out::Err(format!("bundle artifact {artifact} unreadable")),
            }
        }
        Err(e) => Out::Err(e),
    }
}

/// opens the store at `root` and compiles `times` times for `anchor` under a watchdog
fn compile_at(root: &Path, id: &str, anchor: &str, times: usize, secs: u64) -> Vec<Out> {
    let (tx, rx) = std::sync::mpsc::channel();
    let (root2, id2, anchor2) = (root.to_path_buf(), id.to_string(), anchor.to_string());
    std::thread::Builder::new()
        .stack_size(16 << 20)
        .spawn(move || {
            let r = std::panic::catch_unwind(std::panic::AssertUnwindSafe(|| {
                let o = open(&root2);
                (0..times).map(|_| compile_on(&o, &root2, &id2, &anchor2)).collect::<Vec<_>>()
            }));
            let _ = tx.send(r);
        })
        .unwrap();
    match rx.recv_timeout(Duration::from_secs(secs)) {
        Ok(Ok(v)) => v,
        Ok(Err(_)) => vec![Out::Panic; times],
        Err(_) => vec![Out::Hang; times],
    }
}

/// opens the store at `root` once and compiles for every anchor in turn (light sweeps) under one watchdog
fn compile_all_at(root: &Path, id: &str, anchors: &[String], secs: u64) -> Vec<Out> {
    let (tx, rx) = std::sync::mpsc::channel();
    let (root2, id2, anchors2) = (root.to_path_buf(), id.to_string(), anchors.to_vec());
    std::thread::Builder::new()
        .stack_size(16 << 20)
        .spawn(move || {
            let o = std::panic::catch_unwind(std::panic::AssertUnwindSafe(|| open(&root2)));
            let Ok(o) = o else {
                let _ = tx.send(vec![Out::Panic; anchors2.len()]);
                return;
            };
            let v: Vec<Out> = anchors2.iter().map(|a| std::panic::catch_unwind(std::panic::AssertUnwindSafe(|| compile_on(&o, &root2, &id2, a))).unwrap_or(Out::Panic)).collect();
            let _ = tx.send(v);
        })
        .unwrap();
    match rx.recv_timeout(Duration::from_secs(secs)) {
        Ok(v) => v,
        Err(_) => vec![Out::Hang; anchors.len()],
    }
}

/// a copy of the store; `with_caches` = keep continuity_streams/
fn copy_store(src: &Path, dst: &Path, with_caches: bool) {
    let _ = std::fs::remove_dir_all(dst);
    std::fs::create_dir_all(dst.join("data")).unwrap();
    for e in std::fs::read_dir(src.join("data")).unwrap() {
        let e = e.unwrap();
        let name = e.file_name();
        if name == "continuity_streams" && !with_caches {
            continue;
        }
        let p = e.path();
        if p.is_dir() {
            copy_dir(&p, &dst.join("data").join(&name));
        } else {
            std::fs::copy(&p, dst.join("data").join(&name)).unwrap();
        }
    }
    if src.join("workspace").exists() {
        copy_dir(&src.join("workspace"), &dst.join("workspace"));
    }
}

// ---------------------------------------------------------------- abstraction (ids -> seqs / ordinals)
struct Abs {
    truth: Vec<Event>,
    seq_of_event: HashMap<String, u64>,
    seq_of_ckpt: HashMap<String, u64>,
    art_ord: HashMap<String, u64>,
    run_ord: HashMap<String, u64>,
    text_code: BTreeMap<String, u64>,
}
const CUMULATIVE: &str = "cumulative_v1";
const UNKNOWN: u64 = 888_888;
fn abstract_truth(truth: Vec<Event>, runs: &[RunRec]) -> Abs {
    let mut a = Abs { truth, seq_of_event: HashMap::new(), seq_of_ckpt: HashMap::new(), art_ord: HashMap::new(), run_ord: HashMap::new(), text_code: BTreeMap::new() };
    for (i, r) in runs.iter().enumerate() {
        a.run_ord.insert(r.id.clone(), i as u64);
        for t in [&r.log_text, &r.snap_text] {
            if !t.is_empty() && !a.text_code.contains_key(t) {
                let n = a.text_code.len() as u64 + 1;
                a.text_code.insert(t.clone(), n);
            }
        }
    }
    for e in &a.truth {
        a.seq_of_event.insert(e.id.clone(), e.seq);
        if let EventKind::ContinuityCompactionCheckpointCreated { checkpoint_id, summary_artifact_id, .. } = &e.kind {
            a.seq_of_ckpt.insert(checkpoint_id.clone(), e.seq);
            let n = a.art_ord.len() as u64;
            a.art_ord.entry(summary_artifact_id.clone()).or_insert(n);
        }
    }
    a
}
impl Abs {
    fn text(&self, t: &str) -> u64 {
        if t.is_empty() {
            0
        } else {
            self.text_code.get(t).copied().unwrap_or(UNKNOWN)
        }
    }
    fn coq_frame(&self, e: &Event) -> String {
        let body = match &e.kind {
            EventKind::ContinuityMessageAppended { .. } => "BMsg".to_string(),
            EventKind::ContinuityRunEnded { run_session_id, message_id, .. } => format!("BRunEnded {} {}", self.run_ord.get(run_session_id).copied().unwrap_or(UNKNOWN), self.seq_of_event.get(message_id).copied().unwrap_or(UNKNOWN)),
            EventKind::ContinuityCompactionCheckpointCreated { summary_kind, to_seq, summary_artifact_id, .. } => format!("BCkpt {} {} {}", coq_bool(summary_kind == CUMULATIVE), to_seq, self.art_ord[summary_artifact_id]),
            _ => "BOther".to_string(),
        };
        format!("{{| fseq := {}; fb := {} |}}", e.seq, body)
    }
    fn coq_runs(&self, runs: &[RunRec]) -> String {
        let v: Vec<String> = runs.iter().enumerate().map(|(i, r)| format!("({}, {{| ri_snap := {}; ri_snap_text := {}; ri_log_text := {} |}})", i, r.snap, self.text(&r.snap_text), self.text(&r.log_text))).collect();
        format!("[{}]", v.join("; "))
    }
}
fn strategy_code(s: &str) -> u64 {
    match s {
        "recent_messages_v1" => 0,
        "summaries_recent_messages_v1" => 1,
        "hierarchical_summaries_recent_messages_v1" => 2,
        _ => UNKNOWN,
    }
}
fn cause_code(s: &str) -> u64 {
    match s {
        "no_compaction_checkpoint" => 0,
        "no_supported_compaction_checkpoint" => 1,
        "unsupported_compaction_summary_kind" => 2,
        "compaction_checkpoint" => 3,
        "compaction_checkpoint_hierarchy" => 4,
        _ => UNKNOWN,
    }
}
/// mirrors `enc_outcome` of Model/Compile.v
fn enc_out(a: &Abs, out: &Out) -> Vec<u64> {
    let Out::Ok { decision, bundle, .. } = out else {
        return match out {
            Out::Err(_) => vec![0],
            Out::Hang => vec![777_777],
            _ => vec![666_666],
        };
    };
    let s = |v: &Value| v.as_str().unwrap_or("").to_string();
    let mut o = vec![1];
    o.push(bundle["source"]["from_seq"].as_u64().unwrap_or(UNKNOWN));
    o.push(a.seq_of_event.get(&s(&bundle["source"]["from_message_id"])).copied().unwrap_or(UNKNOWN));
    o.push(strategy_code(&s(&bundle["compiler"]["strategy"])));
    o.push(strategy_code(&s(&decision["compiler_strategy"])));
    o.push(cause_code(&s(&decision["reason"]["cause"])));
    o.push(decision["resets"].as_array().map(|x| x.len() as u64).unwrap_or(UNKNOWN));
    let cks = decision["compaction_checkpoints"].as_array().cloned().unwrap_or_default();
    o.push(cks.len() as u64);
    for c in &cks {
        o.push(a.seq_of_ckpt.get(&s(&c["checkpoint_id"])).copied().unwrap_or(UNKNOWN));
        o.push((s(&c["summary_kind"]) == CUMULATIVE) as u64);
        o.push(c["to_seq"].as_u64().unwrap_or(UNKNOWN));
        o.push(a.art_ord.get(&s(&c["summary_artifact_id"])).copied().unwrap_or(UNKNOWN));
    }
    let items = bundle["items"].as_array().cloned().unwrap_or_default();
    o.push(items.len() as u64);
    for it in &items {
        match (s(&it["type"]).as_str(), s(&it["role"]).as_str()) {
            ("summary_ref", _) => {
                o.push(1);
                o.push(a.art_ord.get(&s(&it["artifact_id"])).copied().unwrap_or(UNKNOWN));
                // the to_seq printed in the note
                let note = s(&it["note"]);
                o.push(note.strip_prefix("compaction checkpoint to_seq=").and_then(|x| x.parse().ok()).unwrap_or(UNKNOWN));
            }
            ("message", "user") => {
                o.push(2);
                o.push(it["thread_seq"].as_u64().unwrap_or(UNKNOWN));
            }
            ("message", "assistant") => {
                o.push(3);
                o.push(a.text(&s(&it["content"])));
            }
            _ => o.push(UNKNOWN),
        }
    }
    o
}

// ---------------------------------------------------------------- independent re-computation from truth
/// What the property text demands, computed from the replayed truth log and the harness's own record of
/// what it wrote for each run.  Returns None when the anchor is not a message of the thread.
fn spec_bundle(a: &Abs, runs: &[RunRec], anchor: &str, limit: usize, max_refs: usize, frame_at_or_before_cut: bool) -> Option<Value> {
    spec_bundle_ck(a, &a.truth, runs, anchor, limit, max_refs, frame_at_or_before_cut)
}
/// the same with the checkpoint frames taken from `ck` (a longer state of the same thread): what a compile gives whose
/// checkpoint lookups ran after more frames had been appended (only used to NAME the S9 shape, never to accept it)
fn spec_bundle_ck(a: &Abs, ck: &[Event], runs: &[RunRec], anchor: &str, limit: usize, max_refs: usize, frame_at_or_before_cut: bool) -> Option<Value> {
    let t = &a.truth;
    let is_msg = |e: &Event| matches!(e.kind, EventKind::ContinuityMessageAppended { .. });
    let apos = t.iter().position(|e| is_msg(e) && e.id == anchor)?;
    let cut = match t[apos + 1..].iter().find(|e| is_msg(e)) {
        Some(n) => n.seq - 1,
        None => t.last().unwrap().seq,
    };
    // visible cumulative checkpoints: the frame itself and its to_seq at or before the cut; per to_seq the newest frame
    let mut by_to: BTreeMap<u64, (String, String)> = BTreeMap::new();
    for e in ck.iter().filter(|e| e.seq <= cut || !frame_at_or_before_cut) {
        if let EventKind::ContinuityCompactionCheckpointCreated { summary_kind, summary_artifact_id, to_seq, checkpoint_id, .. } = &e.kind {
            if summary_kind == CUMULATIVE && *to_seq <= cut {
                by_to.insert(*to_seq, (summary_artifact_id.clone(), checkpoint_id.clone()));
            }
        }
    }
    let mut chosen: Vec<u64> = vec![];
    if let Some((&latest, _)) = by_to.iter().next_back() {
        chosen.push(latest);
        let mut cur = latest;
        while chosen.len() < max_refs && cur > 1 {
            match by_to.range(..=cur / 2).next_back() {
                Some((&c, _)) if c < cur => {
                    chosen.push(c);
                    cur = c;
                }
                _ => break,
            }
        }
    }
    chosen.reverse();
    let strategy = match chosen.len() {
        0 => "recent_messages_v1",
        1 => "summaries_recent_messages_v1",
        _ => "hierarchical_summaries_recent_messages_v1",
    };
    let after = chosen.last().copied();
    let mut items: Vec<Value> = chosen.iter().map(|c| json!({"type": "summary_ref", "artifact_id": by_to[c].0, "note": format!("compaction checkpoint to_seq={c}")})).collect();
    let msgs: Vec<&Event> = t.iter().filter(|e| is_msg(e) && e.seq <= cut && after.map(|x| e.seq > x).unwrap_or(true)).collect();
    let first = msgs.len().saturating_sub(limit);
    for m in &msgs[first..] {
        let EventKind::ContinuityMessageAppended { actor_id, origin, content } = &m.kind else { continue };
        items.push(json!({"type": "message", "role": "user", "content": content, "actor_id": actor_id, "origin": origin, "thread_seq": m.seq, "thread_event_id": m.id}));
        let ended = t.iter().filter(|e| e.seq <= cut).rev().find_map(|e| match &e.kind {
            EventKind::ContinuityRunEnded { run_session_id, message_id, .. } if *message_id == m.id => Some(run_session_id.clone()),
            _ => None,
        });
        if let Some(run) = ended {
            let text = runs.iter().find(|r| r.id == run).map(|r| if r.snap == 1 { r.snap_text.clone() } else { r.log_text.clone() }).unwrap_or_default();
            if !text.is_empty() {
                items.push(json!({"type": "message", "role": "assistant", "content": text, "actor_id": null, "origin": null, "thread_seq": null, "thread_event_id": null}));
            }
        }
    }
    // the decision's cause; with no supported checkpoint in sight, the latest visible checkpoint of ANY kind (largest
    // to_seq, on a tie the later frame) decides it, and the reset names the kind that was ignored
    let mut latest_any: Option<(u64, String)> = None;
    for e in ck.iter().filter(|e| e.seq <= cut || !frame_at_or_before_cut) {
        if let EventKind::ContinuityCompactionCheckpointCreated { summary_kind, to_seq, .. } = &e.kind {
            if *to_seq <= cut && latest_any.as_ref().map(|(b, _)| *to_seq >= *b).unwrap_or(true) {
                latest_any = Some((*to_seq, summary_kind.clone()));
            }
        }
    }
    let (cause, reset_kinds): (&str, Vec<String>) = match (chosen.len(), &latest_any) {
        (0, None) => ("no_compaction_checkpoint", vec![]),
        (0, Some((_, k))) if k == CUMULATIVE => ("no_supported_compaction_checkpoint", vec![]),
        (0, Some((_, k))) => ("unsupported_compaction_summary_kind", vec![k.clone()]),
        (1, _) => ("compaction_checkpoint", vec![]),
        _ => ("compaction_checkpoint_hierarchy", vec![]),
    };
    Some(json!({"strategy": strategy, "from_seq": cut, "from_message_id": anchor, "items": items, "checkpoints": chosen.iter().map(|c| by_to[c].1.clone()).collect::<Vec<_>>(), "cause": cause, "reset_kinds": reset_kinds}))
}
/// the same view of what the implementation produced
fn view_of(out: &Out) -> Option<Value> {
    let Out::Ok { decision, bundle, .. } = out else { return None };
    Some(json!({
        "strategy": bundle["compiler"]["strategy"],
        "from_seq": bundle["source"]["from_seq"],
        "from_message_id": bundle["source"]["from_message_id"],
        "items": bundle["items"],
        "checkpoints": decision["compaction_checkpoints"].as_array().map(|v| v.iter().map(|c| c["checkpoint_id"].clone()).collect::<Vec<_>>()).unwrap_or_default(),
        "cause": decision["reason"]["cause"],
        "reset_kinds": decision["resets"].as_array().map(|v| v.iter().map(|r| r["ref"]["summary_kind"].clone()).collect::<Vec<_>>()).unwrap_or_default(),
    }))
}
/// internal consistency of one outcome (decision vs bundle vs returned cut)
fn consistency(out: &Out, id: &str, limit: usize, max_refs: usize) -> Option<String> {
    let Out::Ok { decision, bundle, from_seq, from_message_id } = out else { return None };
    if bundle["source"]["from_seq"].as_u64() != Some(*from_seq) {
        return Some("returned from_seq differs from bundle.source.from_seq".into());
    }
    if bundle["source"]["from_message_id"].as_str().map(|s| s.to_string()) != *from_message_id {
        return Some("returned from_message_id differs from bundle.source.from_message_id".into());
    }
    if bundle["source"]["thread_id"].as_str() != Some(id) {
        return Some("bundle.source.thread_id is another thread".into());
    }
    if bundle["compiler"]["strategy"] != decision["compiler_strategy"] || decision["reason"]["selected"] != decision["compiler_strategy"] {
        return Some("decision strategy / reason.selected / bundle strategy disagree".into());
    }
    let cks = decision["compaction_checkpoints"].as_array().cloned().unwrap_or_default();
    let last = cks.last().cloned().unwrap_or(Value::Null);
    if decision["compaction_checkpoint"] != last {
        return Some("decision.compaction_checkpoint is not the last of compaction_checkpoints".into());
    }
    if decision["limits"]["recent_messages_v1_limit"].as_u64() != Some(limit as u64) || decision["limits"]["hierarchical_summaries_v1_max_refs"].as_u64() != Some(max_refs as u64) {
        return Some("decision.limits differ from the documented limits".into());
    }
    if cks.len() >= 2 {
        let tos: Vec<Value> = cks.iter().map(|c| c["to_seq"].clone()).collect();
        if decision["reason"]["levels"].as_u64() != Some(cks.len() as u64) || decision["reason"]["to_seqs"] != Value::Array(tos) {
            return Some("reason.levels / reason.to_seqs differ from compaction_checkpoints".into());
        }
    }
    // summary refs of the bundle = the decision's checkpoints, in order
    let refs: Vec<Value> = bundle["items"].as_array().map(|v| v.iter().filter(|i| i["type"] == "summary_ref").map(|i| i["artifact_id"].clone()).collect()).unwrap_or_default();
    let arts: Vec<Value> = cks.iter().map(|c| c["summary_artifact_id"].clone()).collect();
    if refs != arts {
        return Some("bundle summary refs differ from the decision's checkpoints".into());
    }
    None
}

// ---------------------------------------------------------------- generators
fn gen_ops(r: &mut Rng, n: u64, sizes: &[u64], dense: bool) -> Vec<Op> {
    let mut ops = vec![];
    let mut nmsg = 0u64;
    let mut nrun = 0u64;
    for _ in 0..n {
        let op = match r.below(if dense { 30 } else { 20 }) {
            0..=6 => {
                nmsg += 1;
                Op::Msg { size: *r.pick(sizes) }
            }
            7 | 8 => {
                nrun += 1;
                Op::Run { msg: if r.chance(2, 3) { nmsg.saturating_sub(1) } else { r.below(nmsg.max(1)) }, text: *r.pick(&[0u8, 1, 2, 3, 3, 4, 5]), snap: *r.pick(&[0u8, 0, 0, 1, 2, 3, 4, 5]) }
            }
            9..=11 => Op::RunEnded { run: if r.chance(2, 3) { nrun.saturating_sub(1) } else { r.below(nrun.max(1)) } },
            12 | 13 => Op::Checkpoint { msg: r.below(nmsg.max(1)) },
            14 => Op::Schedule { stride: r.range(1, 4), max_new: r.range(1, 3) as u32 },
            15 => if dense || nmsg % 3 == 0 { Op::ForeignCheckpoint { msg: r.below(nmsg.max(1)) } } else { Op::Cursor },
            16 => Op::Selection,
            17 => Op::Compiled,
            18 => Op::Restart,
            _ => Op::SideFx,
        };
        ops.push(op);
    }
    ops
}
fn gen_later(r: &mut Rng, nmsg: u64) -> Vec<Op> {
    let mut v = vec![];
    for _ in 0..r.range(1, 6) {
        v.push(match r.below(8) {
            0 | 1 => Op::Checkpoint { msg: r.below(nmsg.max(1)) },
            2 => Op::Msg { size: 10 },
            3 => Op::Run { msg: r.below(nmsg.max(1)), text: 4, snap: 0 },
            4 => Op::RunEnded { run: r.below(8) },
            5 => Op::Schedule { stride: r.range(1, 3), max_new: 2 },
            _ => Op::SideFx,
        });
    }
    v
}
fn gen_case(r: &mut Rng, i: u64) -> Case {
    let shape = i % 8;
    // many messages so that the limit binds / checkpoints of many to_seqs / small threads
    let n = match shape {
        0 | 1 => r.range(2, 12),
        2 | 3 => r.range(10, 40),
        4 => r.range(40, 90),
        _ => r.range(5, 30),
    };
    let sizes: &[u64] = if shape == 5 { &[5, 70_000, 140_000] } else { &[5, 20, 200] };
    let mut ops = gen_ops(r, n, sizes, shape == 6);
    if shape == 4 {
        // a ladder of checkpoints: to_seqs spread over the thread so that the halving rule has choices
        let nm = ops.iter().filter(|o| matches!(o, Op::Msg { .. })).count() as u64;
        for k in 0..r.range(2, 7) {
            ops.push(Op::Checkpoint { msg: (nm / (k + 1)).saturating_sub(r.below(2)) });
        }
        ops.push(Op::Msg { size: 5 });
    }
    let nmsg = ops.iter().filter(|o| matches!(o, Op::Msg { .. })).count() as u64;
    let mut anchors = vec![Anchor::Last, Anchor::Msg(r.below(nmsg.max(1))), Anchor::Msg(0)];
    if nmsg > 17 {
        anchors.push(Anchor::Msg(nmsg - 17 + r.below(3)));
    }
    if r.chance(1, 6) {
        anchors.push(Anchor::Unknown);
    }
    if r.chance(1, 10) {
        anchors.push(Anchor::NonMessage);
    }
    let mut faults = vec![];
    for _ in 0..2 {
        let t = *r.pick(&TARGETS);
        let mut k = *r.pick(&FAULT_KINDS);
        // a zero-length derived sidecar / index is used as found: C04's open class
        // `derived_sidecar_zero_length_accepted` (S4c), not a statement about the compiler
        if k == FaultKind::Empty && !matches!(t, Target::Full | Target::Seek | Target::MsgIdx) {
            k = FaultKind::Delete;
        }
        faults.push((t, k));
    }
    let mut race = vec![];
    if i % 4 == 0 && n <= 40 {
        for _ in 0..r.range(1, 3) {
            race.push(match r.below(8) {
                0 | 1 => Op::Msg { size: *r.pick(&[5u64, 200, 20_000]) },
                2 => Op::RunEnded { run: r.below(6) },
                3 => Op::Cursor,
                4 => Op::Checkpoint { msg: r.below(nmsg.max(1)) },
                5 => Op::Run { msg: r.below(nmsg.max(1)), text: 3, snap: 0 },
                _ => Op::SideFx,
            });
        }
    }
    Case { ops, anchors, later: gen_later(r, nmsg), faults, big: false, race, sweep: 0, flood: false }
}
/// threads whose mr sidecar is larger than every tail window (8 MiB): anchors far from the tail go
/// through the seekable window, anchors near the tail through several doublings of the tail scan
fn big_cases() -> Vec<Case> {
    let mut ops = vec![Op::Msg { size: 5 }, Op::Run { msg: 0, text: 3, snap: 0 }, Op::RunEnded { run: 0 }, Op::Msg { size: 5 }, Op::Checkpoint { msg: 0 }, Op::Msg { size: 20 }, Op::SideFx];
    for k in 0..10 {
        ops.push(Op::Msg { size: 1 << 20 });
        if k == 4 {
            ops.push(Op::Run { msg: 5, text: 2, snap: 1 });
            ops.push(Op::RunEnded { run: 1 });
        }
    }
    ops.push(Op::SideFx);
    let a = Case { ops: ops.clone(), anchors: vec![Anchor::Msg(0), Anchor::Msg(1), Anchor::Msg(2), Anchor::Msg(6), Anchor::Last], later: vec![Op::Checkpoint { msg: 0 }, Op::SideFx], faults: vec![(Target::Mr, FaultKind::Delete), (Target::MrMsgIdx, FaultKind::Delete), (Target::Seek, FaultKind::Garbage)], big: true, race: vec![], sweep: 0, flood: false };
    // 20 messages of 300 KiB: the first 256 KiB window holds no message, 16 messages need ~5 MiB
    let mut ops2 = vec![];
    for k in 0..22 {
        ops2.push(Op::Msg { size: 300_000 });
        if k % 5 == 0 {
            ops2.push(Op::SideFx);
        }
    }
    let b = Case { ops: ops2, anchors: vec![Anchor::Last, Anchor::Msg(20), Anchor::Msg(3), Anchor::Msg(0)], later: vec![Op::SideFx, Op::Checkpoint { msg: 1 }], faults: vec![(Target::Full, FaultKind::Delete), (Target::MrSeek, FaultKind::Delete)], big: true, race: vec![], sweep: 0, flood: false };
    vec![a, b]
}
/// Window-boundary sweeps.  The mr tail scan reads 256 KiB, then doubles (512 KiB, 1 MiB, … 8 MiB) until the tail is the
/// whole sidecar or holds `limit` messages at or before the cut.  A thread whose messages+runs sidecar is `tenths`/10 of
/// a window `w`, built from messages of about w / per_window bytes (sizes jittered 0.4x .. 1.6x so that the boundaries
/// fall at arbitrary offsets), some of them answered by a run; the anchors are EVERY message of the thread, so every
/// position relative to every window boundary inside the thread is compiled: the incomplete tail that is just enough
/// (exactly `limit` messages at or before the cut), the one that is one short, the anchor that is the first / the 15th /
/// the 16th message of a tail, anchors only a later doubling finds.
fn sweep_case(r: &mut Rng, w: u64, tenths: (u64, u64), per_window: (u64, u64), light: bool) -> Case {
    let tenths = r.range(tenths.0, tenths.1);
    let per_window = r.range(per_window.0, per_window.1);
    let mean = w / per_window;
    let total = w * tenths / 10;
    let mut ops = vec![Op::Msg { size: 5 }, Op::SideFx];
    let mut bytes = 0u64;
    let mut nmsg = 1u64;
    let mut nrun = 0u64;
    let ckpt_at = if r.chance(1, 2) { Some(r.range(1, 12)) } else { None };
    while bytes < total {
        let size = mean * r.range(4, 16) / 10;
        ops.push(Op::Msg { size });
        bytes += size + 330;
        nmsg += 1;
        if r.chance(1, 3) {
            ops.push(Op::Run { msg: nmsg - 1, text: *r.pick(&[2u8, 3, 4]), snap: 0 });
            ops.push(Op::RunEnded { run: nrun });
            nrun += 1;
            bytes += 420;
        }
        if r.chance(1, 6) {
            ops.push(Op::SideFx);
        }
        if ckpt_at == Some(nmsg) {
            ops.push(Op::Checkpoint { msg: r.below(nmsg) });
        }
    }
    if r.chance(1, 2) {
        ops.push(Op::SideFx);
    }
    let anchors = (0..nmsg).map(Anchor::Msg).collect();
    Case { ops, anchors, later: vec![Op::SideFx, Op::Msg { size: 5 }], faults: vec![], big: true, race: vec![], sweep: if light { 2 } else { 1 }, flood: false }
}
fn sweep_cases(r: &mut Rng, thorough: bool) -> Vec<Case> {
    const K: u64 = 1024;
    let mut v = vec![];
    let rounds = if thorough { 4 } else { 1 };
    for _ in 0..rounds {
        // (window, size of the thread in tenths of the window, messages per window, light)
        // 256 KiB window inside the thread, the 512 KiB scan is complete
        v.push(sweep_case(r, 256 * K, (12, 20), (17, 28), false));
        // 256 KiB and 512 KiB boundaries inside, both holding more than `limit` messages
        v.push(sweep_case(r, 256 * K, (21, 40), (17, 22), true));
        // 512 KiB: the 256 KiB scan never holds `limit` messages, the 512 KiB scan does
        v.push(sweep_case(r, 512 * K, (12, 20), (17, 30), false));
        // 1 MiB: two doublings before a scan can be enough
        v.push(sweep_case(r, 1024 * K, (12, 20), (17, 26), true));
        v.push(sweep_case(r, 1024 * K, (21, 40), (17, 20), true));
    }
    if thorough {
        for w in [2048 * K, 4096 * K] {
            v.push(sweep_case(r, w, (12, 30), (17, 24), true));
        }
    }
    // the cap: a thread larger than the largest scan (8 MiB) whose last 8 MiB hold more than `limit` messages:
    // anchors inside the capped scan, anchors only the seek window finds
    v.push(sweep_case(r, 8192 * K, (11, 14), (17, 22), true));
    v
}
/// More checkpoint frames than the checkpoint-sidecar scan reads (10 000 frames / 8 MiB): the one visible checkpoint is the
/// OLDEST frame, behind the flood (all of the flood has a to_seq beyond the cut of the early anchors).
fn flood_cases() -> Vec<Case> {
    let n = 10_050;
    // cumulative flood: the hierarchy comes from the index (no bound); the early anchors see only the old checkpoint
    let a = Case {
        ops: vec![Op::Msg { size: 5 }, Op::Msg { size: 5 }, Op::Checkpoint { msg: 0 }, Op::Msg { size: 5 }, Op::Msg { size: 5 }, Op::Msg { size: 5 }, Op::BulkCheckpoints { n, msg: 3, cumulative: true }, Op::Msg { size: 5 }],
        anchors: vec![Anchor::Msg(1), Anchor::Msg(3), Anchor::Last],
        later: vec![Op::SideFx],
        faults: vec![(Target::CompIdx, FaultKind::Delete)],
        big: true,
        race: vec![],
        sweep: 0,
        flood: true,
    };
    // unsupported-kind flood: hierarchy empty, the `latest` lookup must not stop at the newest 10 000 frames: the OLD
    // unsupported checkpoint (kind delta_v0, the larger to_seq) is the latest one, not a frame of the flood (kind bulk_v0,
    // smaller to_seq): the decision's reset names the kind it ignored
    let b = Case {
        ops: vec![Op::Msg { size: 5 }, Op::Msg { size: 5 }, Op::Msg { size: 5 }, Op::Msg { size: 5 }, Op::ForeignCheckpoint { msg: 3 }, Op::Msg { size: 5 }, Op::BulkCheckpoints { n, msg: 0, cumulative: false }, Op::Msg { size: 5 }],
        anchors: vec![Anchor::Last, Anchor::Msg(3), Anchor::Msg(1)],
        later: vec![Op::SideFx],
        faults: vec![(Target::Comp, FaultKind::Delete)],
        big: true,
        race: vec![],
        sweep: 0,
        flood: true,
    };
    vec![a, b]
}
fn corpus_cases() -> Vec<Case> {
    vec![
        // S9: a checkpoint frame appended after the cut, to_seq at or before it
        Case { ops: vec![Op::Msg { size: 5 }, Op::Msg { size: 5 }, Op::Msg { size: 5 }], anchors: vec![Anchor::Msg(1), Anchor::Msg(0)], later: vec![Op::Checkpoint { msg: 0 }], faults: vec![], big: false, race: vec![], sweep: 0, flood: false },
        // exactly `limit` and limit+1 messages, reply on the oldest one
        Case { ops: std::iter::once(Op::Msg { size: 5 }).chain([Op::Run { msg: 0, text: 2, snap: 0 }, Op::RunEnded { run: 0 }]).chain((0..16).map(|_| Op::Msg { size: 5 })).collect(), anchors: vec![Anchor::Last, Anchor::Msg(15), Anchor::Msg(16), Anchor::Msg(0)], later: vec![Op::Msg { size: 5 }], faults: vec![(Target::Full, FaultKind::Delete)], big: false, race: vec![], sweep: 0, flood: false },
        // checkpoint at the anchor, to_seq ties (the later frame wins), halving with thresholds 0 / 1
        Case {
            ops: vec![Op::Msg { size: 5 }, Op::Msg { size: 5 }, Op::Checkpoint { msg: 0 }, Op::Checkpoint { msg: 0 }, Op::Msg { size: 5 }, Op::Checkpoint { msg: 1 }, Op::Msg { size: 5 }, Op::Msg { size: 5 }, Op::Checkpoint { msg: 3 }, Op::Checkpoint { msg: 4 }, Op::SideFx],
            anchors: vec![Anchor::Last, Anchor::Msg(0), Anchor::Msg(1), Anchor::Msg(2), Anchor::Msg(3)],
            later: vec![Op::Checkpoint { msg: 2 }, Op::Msg { size: 5 }],
            faults: vec![(Target::Comp, FaultKind::Delete), (Target::CompIdx, FaultKind::Garbage)],
            big: false,
            race: vec![Op::SideFx, Op::Msg { size: 5 }, Op::RunEnded { run: 0 }],
            sweep: 0,
            flood: false,
        },
        // only unsupported checkpoint kinds visible (reset + cause), then a cumulative one with a smaller to_seq
        Case { ops: vec![Op::Msg { size: 5 }, Op::Msg { size: 5 }, Op::ForeignCheckpoint { msg: 1 }, Op::Msg { size: 5 }, Op::Checkpoint { msg: 0 }, Op::Msg { size: 5 }, Op::ForeignCheckpoint { msg: 2 }], anchors: vec![Anchor::Msg(1), Anchor::Msg(2), Anchor::Last], later: vec![Op::SideFx], faults: vec![(Target::Comp, FaultKind::Delete)], big: false, race: vec![], sweep: 0, flood: false },
        // a reply that arrives after the cut must not be in the bundle; two runs for one message
        Case { ops: vec![Op::Msg { size: 5 }, Op::Run { msg: 0, text: 2, snap: 0 }, Op::Run { msg: 0, text: 3, snap: 2 }, Op::RunEnded { run: 0 }, Op::Msg { size: 5 }, Op::RunEnded { run: 1 }, Op::SideFx], anchors: vec![Anchor::Msg(0), Anchor::Last], later: vec![Op::RunEnded { run: 0 }], faults: vec![(Target::Mr, FaultKind::Delete)], big: false, race: vec![], sweep: 0, flood: false },
    ]
}

// ---------------------------------------------------------------- one case
struct Compiled {
    anchor: Anchor,
    anchor_id: String,
    baseline: Out,
    /// (label, outcome) for every other state / read path / repetition
    others: Vec<(String, Out)>,
    spec: Option<Value>,
    cut_is_head: bool,
}
struct CaseOut {
    abs: Abs,
    abs_later: Abs,
    runs: Vec<RunRec>,
    runs_later: Vec<RunRec>,
    compiled: Vec<Compiled>,
    later_baselines: Vec<Out>,
    op_errors: u64,
    id: String,
    race: Option<RaceOut>,
    span: Vec<SpanObs>,
}

fn resolve_anchor(a: &Anchor, h: &Hist, truth: &[Event]) -> String {
    match a {
        Anchor::Msg(i) if !h.messages.is_empty() => h.messages[(*i as usize) % h.messages.len()].clone(),
        Anchor::Last if !h.messages.is_empty() => h.messages.last().unwrap().clone(),
        Anchor::NonMessage => truth.first().map(|e| e.id.clone()).unwrap_or_else(|| "none".into()),
        _ => "00000000-0000-4000-8000-000000000000".into(),
    }
}

fn run_case(case: &Case, limit: usize, max_refs: usize) -> CaseOut {
    let scratch = Scratch::new("c08");
    let root = scratch.path().join("store");
    std::fs::create_dir_all(&root).unwrap();
    let mut o = open(&root);
    let id = o.store.ensure_default().expect("default thread");
    let mut h = Hist { id: id.clone(), messages: vec![], runs: vec![], nmsg: 0, op_errors: 0 };
    apply_ops(&mut o, &root, &mut h, &case.ops);
    let secs = if case.big { 240 } else { 60 };
    let abs = abstract_truth(replay_truth(&root, &id), &h.runs);
    let runs = h.runs.clone();
    let tmp = scratch.path().join("copy");
    let mut compiled = vec![];
    if case.sweep == 2 {
        let ids: Vec<String> = case.anchors.iter().map(|an| resolve_anchor(an, &h, &abs.truth)).collect();
        copy_store(&root, &tmp, true);
        let outs = compile_all_at(&tmp, &id, &ids, secs + 2 * ids.len() as u64);
        for ((an, anchor_id), baseline) in case.anchors.iter().zip(ids).zip(outs) {
            let spec = spec_bundle(&abs, &runs, &anchor_id, limit, max_refs, true);
            let cut_is_head = spec.as_ref().map(|s| s["from_seq"].as_u64() == abs.truth.last().map(|e| e.seq)).unwrap_or(false);
            compiled.push(Compiled { anchor: an.clone(), anchor_id, baseline, others: vec![], spec, cut_is_head });
        }
    }
    for an in case.anchors.iter().filter(|_| case.sweep != 2) {
        let anchor_id = resolve_anchor(an, &h, &abs.truth);
        // caches as found; twice on the same opened store
        copy_store(&root, &tmp, true);
        let mut v = compile_at(&tmp, &id, &anchor_id, 2, secs);
        let second = v.pop().unwrap();
        let baseline = v.pop().unwrap();
        let mut others = vec![("again_same_store".to_string(), second)];
        // continuity_streams removed: full replay; the second call reads the caches that replay rebuilt
        copy_store(&root, &tmp, false);
        let mut v = compile_at(&tmp, &id, &anchor_id, 2, secs);
        let rebuilt = v.pop().unwrap();
        others.push(("caches_removed".to_string(), v.pop().unwrap()));
        others.push(("caches_rebuilt_by_replay".to_string(), rebuilt));
        // single faults
        for (t, k) in &case.faults {
            copy_store(&root, &tmp, true);
            if apply_fault(&tmp, &id, *t, *k) {
                let mut v = compile_at(&tmp, &id, &anchor_id, 1, secs);
                others.push((format!("fault:{t:?}:{k:?}"), v.pop().unwrap()));
            }
        }
        let spec = spec_bundle(&abs, &runs, &anchor_id, limit, max_refs, true);
        let cut_is_head = spec.as_ref().map(|s| s["from_seq"].as_u64() == abs.truth.last().map(|e| e.seq)).unwrap_or(false);
        compiled.push(Compiled { anchor: an.clone(), anchor_id, baseline, others, spec, cut_is_head });
    }
    // more frames beyond every cut
    apply_ops(&mut o, &root, &mut h, &case.later);
    let abs_later = abstract_truth(replay_truth(&root, &id), &h.runs);
    let runs_later = h.runs.clone();
    let mut later_baselines = vec![];
    if case.sweep == 2 {
        let ids: Vec<String> = compiled.iter().map(|c| c.anchor_id.clone()).collect();
        copy_store(&root, &tmp, true);
        later_baselines = compile_all_at(&tmp, &id, &ids, secs + 2 * ids.len() as u64);
    }
    for c in compiled.iter().filter(|_| case.sweep != 2) {
        copy_store(&root, &tmp, true);
        let mut v = compile_at(&tmp, &id, &c.anchor_id, 1, secs);
        later_baselines.push(v.pop().unwrap());
    }
    // appends that complete while ONE compile is between reading the head and reading the mr sidecar (on copies)
    let span = if case.race.is_empty() {
        vec![]
    } else {
        let anchors: Vec<String> = compiled.iter().map(|c| c.anchor_id.clone()).collect();
        span_phase(&root, &tmp, &h, &case.race, &anchors)
    };
    // appends racing with compilation (on the live store, after everything else was observed on copies)
    let race = if case.race.is_empty() {
        None
    } else {
        let anchors: Vec<String> = compiled.iter().map(|c| c.anchor_id.clone()).collect();
        Some(race_phase(&mut o, &root, &mut h, &case.race, &anchors))
    };
    drop(o);
    CaseOut { abs, abs_later, runs, runs_later, compiled, later_baselines, op_errors: h.op_errors, id, race, span }
}

// ---------------------------------------------------------------- appends spanned by one compile
struct SpanObs {
    anchor_idx: usize,
    /// the reader that was held: compile.tail.head_read / compile.window.head_read ("" = the point was not reached)
    point: &'static str,
    out: Out,
    /// frames of the thread when the compile started; the thread and the runs afterwards
    len_before: usize,
    truth_after: Vec<Event>,
    runs_after: Vec<RunRec>,
}
/// For every anchor, on a fresh copy of the store: the real compile is held at the rip_verif point between reading the
/// head (full sidecar) and reading the messages+runs sidecar, ALL of `ops` are appended (complete appends, every sidecar
/// written), then the compile goes on: head of the thread before, mr sidecar / checkpoint caches of the thread after.
fn span_phase(root: &Path, tmp: &Path, h: &Hist, ops: &[Op], anchors: &[String]) -> Vec<SpanObs> {
    let ops: Vec<Op> = ops.iter().filter(|o| matches!(o, Op::Msg { .. } | Op::Run { .. } | Op::RunEnded { .. } | Op::SideFx | Op::Cursor | Op::Checkpoint { .. } | Op::Selection | Op::Compiled)).cloned().collect();
    let mut v = vec![];
    if ops.is_empty() {
        return v;
    }
    for (ai, a) in anchors.iter().enumerate() {
        copy_store(root, tmp, true);
        let o = open(tmp);
        let len_before = replay_truth(tmp, &h.id).len();
        let state = Arc::new(std::sync::Mutex::new((o.clone(), h.clone(), None::<&'static str>)));
        {
            let (state2, tmp2, ops2) = (state.clone(), tmp.to_path_buf(), ops.clone());
            rip_kernel::verif::set_hook(Some(Arc::new(move |name: &'static str| {
                if name != "compile.tail.head_read" && name != "compile.window.head_read" {
                    return;
                }
                let mut g = state2.lock().unwrap();
                if g.2.is_some() {
                    return; // only the first time this compile reads a head
                }
                g.2 = Some(name);
                let (ref mut o2, ref mut h2, _) = *g;
                apply_ops(o2, &tmp2, h2, &ops2);
            })));
        }
        let out = std::panic::catch_unwind(std::panic::AssertUnwindSafe(|| compile_on(&o, tmp, &h.id, a))).unwrap_or(Out::Panic);
        rip_kernel::verif::set_hook(None);
        let g = state.lock().unwrap();
        v.push(SpanObs { anchor_idx: ai, point: g.2.unwrap_or(""), out, len_before, truth_after: replay_truth(tmp, &h.id), runs_after: g.1.runs.clone() });
    }
    v
}

// ---------------------------------------------------------------- appends racing with compilation
thread_local! { static IN_HOOK: std::cell::Cell<bool> = const { std::cell::Cell::new(false) }; }
struct RaceObs {
    point: &'static str,
    op_idx: usize,
    anchor_idx: usize,
    out: Out,
}
struct RaceOut {
    /// per op: (outcome per anchor before the op, after the op)
    frames: Vec<(Vec<Out>, Vec<Out>)>,
    /// per op: head seq of the thread after the op
    heads: Vec<u64>,
    obs: Vec<RaceObs>,
}
/// Runs `ops` on the live store; at every `cont.*` / `log.*` / `cache.*` point inside those appends the real
/// compile runs for every anchor on the same store: exactly the on-disk state a concurrent compiler thread
/// would find at that instant (deterministic: the appending thread itself is parked in the callback).
fn race_phase(o: &mut Opened, root: &Path, h: &mut Hist, ops: &[Op], anchors: &[String]) -> RaceOut {
    let obs: Arc<std::sync::Mutex<Vec<RaceObs>>> = Arc::new(std::sync::Mutex::new(vec![]));
    let cur = Arc::new(std::sync::atomic::AtomicUsize::new(0));
    let tid = h.id.clone();
    let all = |o: &Opened| anchors.iter().map(|a| std::panic::catch_unwind(std::panic::AssertUnwindSafe(|| compile_on(o, root, &tid, a))).unwrap_or(Out::Panic)).collect::<Vec<_>>();
    let mut frames = vec![];
    let mut heads = vec![];
    for (i, op) in ops.iter().enumerate() {
        if matches!(op, Op::Restart) {
            continue;
        }
        let before = all(o);
        cur.store(i, std::sync::atomic::Ordering::SeqCst);
        {
            let (shared, root2, id2, anchors2, obs2, cur2) = (o.clone(), root.to_path_buf(), h.id.clone(), anchors.to_vec(), obs.clone(), cur.clone());
            rip_kernel::verif::set_hook(Some(Arc::new(move |name: &'static str| {
                if !(name.starts_with("cont.") || name.starts_with("log.") || name.starts_with("cache.")) {
                    return;
                }
                if IN_HOOK.with(|f| f.replace(true)) {
                    return; // a compile inside the callback reached a point itself (cache rebuild)
                }
                for (ai, a) in anchors2.iter().enumerate() {
                    let out = std::panic::catch_unwind(std::panic::AssertUnwindSafe(|| compile_on(&shared, &root2, &id2, a))).unwrap_or(Out::Panic);
                    obs2.lock().unwrap().push(RaceObs { point: name, op_idx: cur2.load(std::sync::atomic::Ordering::SeqCst), anchor_idx: ai, out });
                }
                IN_HOOK.with(|f| f.set(false));
            })));
        }
        apply_ops(o, root, h, std::slice::from_ref(op));
        rip_kernel::verif::set_hook(None);
        let after = all(o);
        frames.push((before, after));
        heads.push(replay_truth(root, &tid).last().map(|e| e.seq).unwrap_or(0));
    }
    let obs = std::mem::take(&mut *obs.lock().unwrap());
    RaceOut { frames, heads, obs }
}

/// all oracle violations of a case: (class, what)
fn judge(case: &Case, out: &CaseOut, limit: usize, max_refs: usize, checks: &mut u64) -> Vec<(usize, String, String)> {
    let mut v = vec![];
    for (ai, c) in out.compiled.iter().enumerate() {
        let mut all: Vec<(String, &Out)> = vec![("caches_as_found".to_string(), &c.baseline)];
        all.extend(c.others.iter().map(|(l, o)| (l.clone(), o)));
        // totality
        for (label, o) in &all {
            *checks += 1;
            match o {
                Out::Hang => v.push((ai, "hang".to_string(), format!("compile did not return ({label}, anchor {:?})", c.anchor))),
                Out::Panic => v.push((ai, "panic".to_string(), format!("compile panicked ({label}, anchor {:?})", c.anchor))),
                _ => {}
            }
            *checks += 1;
            if let Some(w) = consistency(o, &out.id, limit, max_refs) {
                v.push((ai, "decision_bundle_inconsistent".to_string(), format!("{w} ({label}, anchor {:?})", c.anchor)));
            }
        }
        // (a) independence of cache state / read path / repetition
        for (label, o) in &c.others {
            *checks += 1;
            if o.canon() != c.baseline.canon() {
                let class = if label.starts_with("fault:") {
                    let mut p = label.split(':');
                    p.next();
                    format!("cache_fault_changes_bundle:{}:{}", p.next().unwrap_or(""), p.next().unwrap_or(""))
                } else {
                    format!("read_path_changes_bundle:{label}")
                };
                let show = |o: &Out| if case.big { brief(o) } else { short(&o.canon()) };
                v.push((ai, class, format!("anchor {:?}: caches as found => {}   {label} => {}", c.anchor, show(&c.baseline), show(o))));
            }
        }
        // (b) against the re-computation from truth
        *checks += 1;
        let got = view_of(&c.baseline);
        if got != c.spec {
            let class = s9_class(&out.abs, &out.runs, &c.anchor_id, &c.baseline, limit, max_refs, "bundle_differs_from_truth_recomputation");
            let show = |x: &Option<Value>| if case.big { x.as_ref().map(brief_view).unwrap_or("error".into()) } else { short(&x.as_ref().map(|x| x.to_string()).unwrap_or("error".into())) };
            let err = if let Out::Err(e) = &c.baseline { format!(" ({})", short(e)) } else { String::new() };
            v.push((ai, class, format!("anchor {:?}: implementation => {}{err}   recomputed from truth => {}", c.anchor, show(&got), show(&c.spec))));
        }
        // (c) frames appended after the cut
        let lb = &out.later_baselines[ai];
        *checks += 1;
        if !c.cut_is_head {
            if lb.canon() != c.baseline.canon() {
                let class = s9_class(&out.abs_later, &out.runs_later, &c.anchor_id, lb, limit, max_refs, "later_frames_change_bundle");
                v.push((ai, class, format!("anchor {:?} (cut before the head): before => {}   after appending {:?} => {}", c.anchor, short(&c.baseline.canon()), case.later, short(&lb.canon()))));
            }
        } else {
            // the cut was the head: it moves with the head (or stops at the next message); the result must be the truth recomputation of the longer thread
            let spec2 = spec_bundle(&out.abs_later, &out.runs_later, &c.anchor_id, limit, max_refs, true);
            if view_of(lb) != spec2 {
                let class = s9_class(&out.abs_later, &out.runs_later, &c.anchor_id, lb, limit, max_refs, "bundle_differs_from_truth_recomputation");
                v.push((ai, class, format!("anchor {:?} after appending {:?}: implementation => {}   recomputed => {}", c.anchor, case.later, short(&view_of(lb).map(|x| x.to_string()).unwrap_or("error".into())), short(&spec2.map(|x| x.to_string()).unwrap_or("error".into())))));
            }
        }
    }
    // (d) a compile that runs in the middle of an append sees the thread before or after that append
    if let Some(r) = &out.race {
        let mut flagged: std::collections::BTreeSet<(usize, String)> = Default::default();
        for ob in &r.obs {
            *checks += 1;
            let Some(fi) = case.race.iter().enumerate().filter(|(_, op)| !matches!(op, Op::Restart)).position(|(i, _)| i == ob.op_idx) else { continue };
            let (before, after) = &r.frames[fi];
            let head_after = r.heads[fi];
            let c = ob.out.canon();
            if c != before[ob.anchor_idx].canon() && c != after[ob.anchor_idx].canon() {
                let stage = ob.point.rsplit_once('.').map(|(p, _)| p).unwrap_or(ob.point);
                // S24: head from the full sidecar, messages / run_ended frames from the mr sidecar, written one after
                // the other: in between the recorded cut is the frame being appended while items and decision are
                // still those of the thread before it
                let mr_frame = matches!(case.race[ob.op_idx], Op::Msg { .. } | Op::RunEnded { .. });
                let same_items = match (&ob.out, &before[ob.anchor_idx]) {
                    (Out::Ok { bundle: b1, decision: d1, .. }, Out::Ok { bundle: b0, decision: d0, .. }) => b1["items"] == b0["items"] && d1 == d0,
                    _ => false,
                };
                // S25: the same for a checkpoint frame: head from the full sidecar, checkpoints from the checkpoint sidecar /
                // index, written last
                let ckpt_frame = matches!(case.race[ob.op_idx], Op::Checkpoint { .. } | Op::Schedule { .. });
                let class = match &ob.out {
                    Out::Ok { from_seq, .. } if mr_frame && same_items && *from_seq == head_after && (stage == "cache.side" || stage == "cache.mr") => "cut_ahead_of_mr_sidecar_during_append".to_string(),
                    Out::Ok { from_seq, .. } if ckpt_frame && same_items && *from_seq == head_after && (stage == "cache.side" || stage == "cache.mr" || stage == "cache.comp") => "cut_ahead_of_checkpoint_sidecar_during_append".to_string(),
                    _ => format!("racing_append_changes_bundle:{stage}"),
                };
                if flagged.insert((ob.anchor_idx, class.clone())) {
                    // when the one-line views coincide the difference is in the decision: show it
                    let dec = |o: &Out| match o {
                        Out::Ok { decision, .. } => short(&decision.to_string()),
                        other => other.canon(),
                    };
                    let detail = if brief(&ob.out) == brief(&before[ob.anchor_idx]) || brief(&ob.out) == brief(&after[ob.anchor_idx]) { format!("   decisions: during => {}   before => {}   after => {}", dec(&ob.out), dec(&before[ob.anchor_idx]), dec(&after[ob.anchor_idx])) } else { String::new() };
                    v.push((ob.anchor_idx, class, format!("anchor {:?}, compile at point {} of {:?}: {}   before the append => {}   after => {}{detail}", out.compiled[ob.anchor_idx].anchor, ob.point, case.race[ob.op_idx], brief(&ob.out), brief(&before[ob.anchor_idx]), brief(&after[ob.anchor_idx]))));
                }
            }
        }
    }
    // (e) a compile that spans complete appends (head read before them, mr sidecar and checkpoint caches after them) gives
    // what the property demands of SOME state of the thread between its start and its end
    for ob in &out.span {
        *checks += 1;
        if ob.point.is_empty() {
            continue;
        }
        let got = view_of(&ob.out);
        let c = &out.compiled[ob.anchor_idx];
        let states: Vec<Abs> = (ob.len_before..=ob.truth_after.len()).map(|n| abstract_truth(ob.truth_after[..n].to_vec(), &ob.runs_after)).collect();
        if states.iter().any(|a| got == spec_bundle(a, &ob.runs_after, &c.anchor_id, limit, max_refs, true)) {
            continue;
        }
        // S9 seen through concurrency: the cut of an earlier state, checkpoint frames appended after it
        let last = states.last().unwrap();
        let s9 = (selected_checkpoint_after_cut(last, &ob.out) || ignored_checkpoint_after_cut(last, &ob.out)) && states.iter().any(|a| got == spec_bundle_ck(a, &last.truth, &ob.runs_after, &c.anchor_id, limit, max_refs, false));
        let class = if s9 { "checkpoint_after_cut_selected".to_string() } else { format!("compile_spanning_appends_changes_bundle:{}", ob.point) };
        let show = |x: &Option<Value>| x.as_ref().map(brief_view).unwrap_or("error".into());
        v.push((ob.anchor_idx, class, format!("anchor {:?}: a compile held at {} while {:?} were appended => {}   the thread before => {}   after => {}", c.anchor, ob.point, case.race, show(&got), show(&spec_bundle(&states[0], &ob.runs_after, &c.anchor_id, limit, max_refs, true)), show(&spec_bundle(last, &ob.runs_after, &c.anchor_id, limit, max_refs, true)))));
    }
    v
}
/// S9 and nothing else: the decision names a checkpoint whose own frame lies after the cut AND the outcome is
/// exactly the truth re-computation with the visibility rule `to_seq <= cut` (any further deviation keeps `other`)
fn s9_class(a: &Abs, runs: &[RunRec], anchor: &str, out: &Out, limit: usize, max_refs: usize, other: &str) -> String {
    if (selected_checkpoint_after_cut(a, out) || ignored_checkpoint_after_cut(a, out)) && view_of(out) == spec_bundle(a, runs, anchor, limit, max_refs, false) {
        "checkpoint_after_cut_selected".to_string()
    } else {
        other.to_string()
    }
}
/// the decision names a checkpoint whose own frame lies after the cut
fn selected_checkpoint_after_cut(a: &Abs, out: &Out) -> bool {
    let Out::Ok { decision, from_seq, .. } = out else { return false };
    decision["compaction_checkpoints"].as_array().map(|v| v.iter().any(|c| a.seq_of_ckpt.get(c["checkpoint_id"].as_str().unwrap_or("")).map(|s| s > from_seq).unwrap_or(false))).unwrap_or(false)
}
/// the same rule seen through an unsupported kind: the decision ignored a checkpoint of a kind (reset
/// `unsupported_summary_kind`) of which no frame with to_seq at or before the cut lies at or before the cut
fn ignored_checkpoint_after_cut(a: &Abs, out: &Out) -> bool {
    let Out::Ok { decision, from_seq, .. } = out else { return false };
    let Some(kind) = decision["resets"].as_array().and_then(|v| v.first()).and_then(|r| r["ref"]["summary_kind"].as_str()) else { return false };
    !a.truth.iter().any(|e| matches!(&e.kind, EventKind::ContinuityCompactionCheckpointCreated { summary_kind, to_seq, .. } if summary_kind == kind && to_seq <= from_seq && e.seq <= *from_seq))
}
/// one-line view of an outcome: cut, strategy, items (s = summary ref, uN = user message at seq N, a = reply)
fn brief(o: &Out) -> String {
    match o {
        Out::Ok { bundle, decision, .. } => {
            let items: Vec<String> = bundle["items"].as_array().map(|v| v.iter().map(|i| if i["type"] == "summary_ref" { "s".to_string() } else if i["role"] == "user" { format!("u{}", i["thread_seq"]) } else { "a".to_string() }).collect()).unwrap_or_default();
            format!("from_seq={} strategy={} checkpoints={} items=[{}]", bundle["source"]["from_seq"], bundle["compiler"]["strategy"].as_str().unwrap_or("?"), decision["compaction_checkpoints"].as_array().map(|v| v.len()).unwrap_or(0), items.join(","))
        }
        other => other.canon(),
    }
}
/// the same for a `view_of` / `spec_bundle` value
fn brief_view(v: &Value) -> String {
    let items: Vec<String> = v["items"].as_array().map(|x| x.iter().map(|i| if i["type"] == "summary_ref" { "s".to_string() } else if i["role"] == "user" { format!("u{}", i["thread_seq"]) } else { "a".to_string() }).collect()).unwrap_or_default();
    format!("from_seq={} strategy={} cause={} resets={} checkpoints={} items=[{}]", v["from_seq"], v["strategy"].as_str().unwrap_or("?"), v["cause"].as_str().unwrap_or("?"), v["reset_kinds"], v["checkpoints"].as_array().map(|x| x.len()).unwrap_or(0), items.join(","))
}
fn short(s: &str) -> String {
    if s.len() > 400 {
        let mut e = 400;
        while !s.is_char_boundary(e) {
            e -= 1;
        }
        format!("{}…", &s[..e])
    } else {
        s.to_string()
    }
}

// ---------------------------------------------------------------- real runs: the frames a run logs
/// Posts messages through the REAL router (`ripd::verif::build_app`) with a scripted provider, one run at a
/// time, with manual checkpoints in between; then reads `continuity_context_selection_decided` /
/// `continuity_context_compiled` and the bundle artifact of every run back from the truth log and compares them
/// with the re-computation from the thread as it was at the recorded cut (and with the model).
#[derive(Clone, Debug, Serialize, Deserialize)]
enum E2eOp {
    Post,
    Checkpoint { msg: u64 },
}
struct E2eRun {
    out: Out,
    abs: Abs,
    runs: Vec<RunRec>,
    anchor: String,
    spec: Option<Value>,
    order_ok: bool,
}
fn e2e_thread(plan: &[E2eOp], limit: usize, max_refs: usize) -> Result<(String, Vec<E2eRun>), String> {
    use rv::provider::{sse_event, Scripted, ScriptedProvider, SSE_DONE};
    use tower::ServiceExt;
    let scratch = Scratch::new("c08e");
    let data = scratch.path().join("data");
    let ws = scratch.path().join("workspace");
    std::fs::create_dir_all(&ws).unwrap();
    let nposts = plan.iter().filter(|o| matches!(o, E2eOp::Post)).count();
    let scripts: Vec<Scripted> = (0..nposts)
        .map(|i| {
            let mut body = String::new();
            body.push_str(&sse_event("response.created", &json!({"type": "response.created", "sequence_number": 0, "response": {"id": format!("resp_{i}")}})));
            for (n, d) in [format!("answer {i} "), "\u{e9}nd".to_string()].iter().enumerate() {
                body.push_str(&sse_event("response.output_text.delta", &json!({"type": "response.output_text.delta", "sequence_number": n + 1, "item_id": "m1", "output_index": 0, "content_index": 0, "delta": d})));
            }
            body.push_str(&sse_event("response.completed", &json!({"type": "response.completed", "sequence_number": 3, "response": {"id": format!("resp_{i}")}})));
            body.push_str(SSE_DONE);
            Scripted::sse_text(&body)
        })
        .collect();
    let sp = ScriptedProvider::start(scripts);
    let cfg = ripd::verif::OpenResponsesConfig { endpoint: sp.url.clone(), api_key: None, model: Some("scripted".into()), headers: vec![], tool_choice: rip_provider_openresponses::ToolChoiceParam::none(), followup_user_message: None, stateless_history: false, parallel_tool_calls: false };
    let rt = tokio::runtime::Builder::new_multi_thread().worker_threads(2).enable_all().build().map_err(|e| e.to_string())?;
    let thread: String = rt.block_on(async {
        let app = ripd::verif::build_app(data.clone(), ws.clone(), Some(cfg));
        let call = |r: axum::http::Request<axum::body::Body>| {
            let app = app.clone();
            async move {
                use http_body_util::BodyExt;
                let resp = app.oneshot(r).await.expect("infallible");
                let st = resp.status().as_u16();
                let bytes = resp.into_body().collect().await.map(|b| b.to_bytes()).unwrap_or_default();
                (st, serde_json::from_slice::<Value>(&bytes).unwrap_or(Value::Null))
            }
        };
        let req = |method: &str, uri: &str, body: Option<Value>| {
            let b = axum::http::Request::builder().method(method).uri(uri);
            match body {
                Some(v) => b.header("content-type", "application/json").body(axum::body::Body::from(v.to_string())).unwrap(),
                None => b.body(axum::body::Body::empty()).unwrap(),
            }
        };
        let (_, t) = call(req("POST", "/threads/ensure", None)).await;
        let thread = t.get("thread_id").and_then(|x| x.as_str()).unwrap_or("").to_string();
        if thread.is_empty() {
            return Err("POST /threads/ensure gave no thread".to_string());
        }
        let mut mids: Vec<String> = vec![];
        for (i, op) in plan.iter().enumerate() {
            match op {
                E2eOp::Post => {
                    let (st, v) = call(req("POST", &format!("/threads/{thread}/messages"), Some(json!({"content": format!("question {i}")})))).await;
                    let mid = v.get("message_id").and_then(|x| x.as_str()).unwrap_or("").to_string();
                    if st != 202 || mid.is_empty() {
                        return Err(format!("POST message refused: {st} {v}"));
                    }
                    // one run at a time: wait for its run_ended frame (generous, load independent)
                    let t0 = std::time::Instant::now();
                    loop {
                        let root = data.parent().unwrap().to_path_buf();
                        let done = replay_truth(&root, &thread).iter().any(|e| matches!(&e.kind, EventKind::ContinuityRunEnded { message_id, .. } if *message_id == mid));
                        if done {
                            break;
                        }
                        if t0.elapsed() > Duration::from_secs(240) {
                            return Err(format!("run for message {i} did not end within 240 s"));
                        }
                        tokio::time::sleep(Duration::from_millis(10)).await;
                    }
                    mids.push(mid);
                }
                E2eOp::Checkpoint { msg } => {
                    if !mids.is_empty() {
                        let m = mids[(*msg as usize) % mids.len()].clone();
                        let (st, v) = call(req("POST", &format!("/threads/{thread}/compaction-checkpoint"), Some(json!({"summary_markdown": format!("summary {i}"), "to_message_id": m})))).await;
                        if st != 201 {
                            return Err(format!("checkpoint refused: {st} {v}"));
                        }
                    }
                }
            }
        }
        Ok(thread)
    })?;
    drop(rt);
    drop(sp);
    // ---- read back
    let root = scratch.path().to_path_buf();
    let truth = replay_truth(&root, &thread);
    // reply text of every session, from the truth log (own reader)
    let raw = std::fs::read(data.join("events.jsonl")).unwrap_or_default();
    let mut text_of: HashMap<String, String> = HashMap::new();
    for line in raw.split(|b| *b == b'\n') {
        if let Ok(ev) = serde_json::from_slice::<Event>(line) {
            if let EventKind::OutputTextDelta { delta } = &ev.kind {
                text_of.entry(ev.session_id.clone()).or_default().push_str(delta);
            }
        }
    }
    let mut out = vec![];
    for (pos, e) in truth.iter().enumerate() {
        let EventKind::ContinuityContextCompiled { run_session_id, bundle_artifact_id, from_seq, from_message_id, .. } = &e.kind else { continue };
        let decided = truth.iter().enumerate().find(|(_, d)| matches!(&d.kind, EventKind::ContinuityContextSelectionDecided { run_session_id: r, .. } if r == run_session_id));
        let Some((dpos, d)) = decided else {
            out.push(E2eRun { out: Out::Err("no selection_decided frame for this run".into()), abs: abstract_truth(vec![], &[]), runs: vec![], anchor: String::new(), spec: None, order_ok: false });
            continue;
        };
        let dv = serde_json::to_value(d).unwrap();
        let decision = json!({
            "compiler_id": dv["compiler_id"], "compiler_strategy": dv["compiler_strategy"], "limits": dv["limits"],
            "compaction_checkpoint": dv.get("compaction_checkpoint").cloned().unwrap_or(Value::Null),
            "compaction_checkpoints": dv.get("compaction_checkpoints").cloned().unwrap_or(json!([])),
            "resets": dv.get("resets").cloned().unwrap_or(json!([])),
            "reason": dv.get("reason").cloned().unwrap_or(Value::Null),
        });
        let blob = ws.join(".rip").join("artifacts").join("blobs").join(bundle_artifact_id);
        let bundle = std::fs::read(&blob).ok().and_then(|b| serde_json::from_slice::<Value>(&b).ok()).unwrap_or(Value::Null);
        let o = Out::Ok { decision, bundle, from_seq: *from_seq, from_message_id: from_message_id.clone() };
        // the thread as it was at the recorded cut
        let prefix: Vec<Event> = truth.iter().filter(|x| x.seq <= *from_seq).cloned().collect();
        let mut runs: Vec<RunRec> = vec![];
        for x in &prefix {
            if let EventKind::ContinuityRunSpawned { run_session_id, message_id, .. } = &x.kind {
                runs.push(RunRec { id: run_session_id.clone(), msg: message_id.clone(), log_text: text_of.get(run_session_id).cloned().unwrap_or_default(), snap: 0, snap_text: String::new() });
            }
        }
        let abs = abstract_truth(prefix, &runs);
        let anchor = from_message_id.clone().unwrap_or_default();
        let spec = spec_bundle(&abs, &runs, &anchor, limit, max_refs, true);
        let msg_ok = matches!(&d.kind, EventKind::ContinuityContextSelectionDecided { message_id, .. } if *message_id == anchor);
        out.push(E2eRun { out: o, abs, runs, anchor, spec, order_ok: dpos < pos && msg_ok });
    }
    Ok((thread, out))
}

fn read_limits(repo: &Path) -> (usize, usize) {
    // the documented limits as the source states them (the model gets the same numbers through Gen/CompileConsts.v)
    let src = std::fs::read_to_string(repo.join("crates/ripd/src/context_compiler.rs")).unwrap_or_default();
    let grab = |name: &str, d: usize| src.lines().find(|l| l.contains(&format!("const {name}:"))).and_then(|l| l.split('=').nth(1)).and_then(|x| x.trim().trim_end_matches(';').replace('_', "").parse().ok()).unwrap_or(d);
    (grab("RECENT_MESSAGES_V1_LIMIT", 16), grab("HIERARCHICAL_SUMMARIES_V1_MAX_REFS", 3))
}

fn main() {
    let a = parse_args();
    let mut res = RunResult::new("C08", &a);
    res.rule = "case = (history of public-API appends incl. runs with session streams / snapshots, anchors, later appends, single cache faults); every anchor is compiled by the real compile_context_bundle_for_run under: caches as found (twice), continuity_streams removed (full replay, then rebuilt caches), each single fault, and again after the later appends; non-trivial = at least one checkpoint or reply or more than `limit` messages; distinct by hash of the canonical case".into();
    let repo = Path::new(env!("CARGO_MANIFEST_DIR")).join("..").join("..").join("repo");
    let repo = if a.extra.contains_key("repo") { a.repo() } else { repo };
    let (limit, max_refs) = read_limits(&repo);
    let mut cases: Vec<Case> = vec![];
    if let Some(rp) = &a.replay {
        let v: Value = serde_json::from_slice(&std::fs::read(rp).expect("replay file")).expect("json");
        let c = v.get("case").unwrap_or(&v);
        cases.push(serde_json::from_value(c.get("case").unwrap_or(c).clone()).expect("replay case"));
    } else {
        let cdir = Path::new(env!("CARGO_MANIFEST_DIR")).join("..").join("corpus").join("C08");
        if let Ok(rd) = std::fs::read_dir(&cdir) {
            let mut files: Vec<PathBuf> = rd.filter_map(|e| e.ok().map(|e| e.path())).filter(|p| p.extension().map(|x| x == "json").unwrap_or(false)).collect();
            files.sort();
            for f in files {
                if let Some(c) = std::fs::read(&f).ok().and_then(|b| serde_json::from_slice::<Value>(&b).ok()).and_then(|v| serde_json::from_value::<Case>(v.get("case").unwrap_or(&v).clone()).ok()) {
                    cases.push(c);
                }
            }
        }
        cases.extend(corpus_cases());
        cases.extend(big_cases());
        let mut rs = Rng::new(a.seed ^ 0x5EE9);
        cases.extend(sweep_cases(&mut rs, a.thorough()));
        cases.extend(flood_cases());
        let n = if a.thorough() { 1500 } else { 120 };
        let mut r = Rng::new(a.seed);
        for i in 0..n {
            cases.push(gen_case(&mut r, i));
        }
        if a.thorough() {
            // random threads larger than the tail windows: runs, replies, checkpoints between 300 KiB / 1 MiB messages
            for _ in 0..4 {
                let n = r.range(24, 40);
                let ops = gen_ops(&mut r, n, &[300_000, 1 << 20, 5, 300_000], false);
                let nmsg = ops.iter().filter(|o| matches!(o, Op::Msg { .. })).count() as u64;
                let anchors = vec![Anchor::Msg(0), Anchor::Msg(1), Anchor::Msg(r.below(nmsg.max(1))), Anchor::Last];
                cases.push(Case { ops, anchors, later: gen_later(&mut r, nmsg), faults: vec![(*r.pick(&TARGETS), FaultKind::Delete)], big: true, race: vec![], sweep: 0, flood: false });
            }
            // appends racing with a compile that goes through the mr seek window (thread larger than every tail scan)
            {
                let mut ops = vec![Op::Msg { size: 5 }, Op::Run { msg: 0, text: 3, snap: 0 }, Op::RunEnded { run: 0 }, Op::SideFx];
                ops.extend((0..10).map(|_| Op::Msg { size: 1 << 20 }));
                ops.push(Op::Run { msg: 10, text: 2, snap: 0 });
                cases.push(Case { ops, anchors: vec![Anchor::Last], later: vec![], faults: vec![], big: true, race: vec![Op::RunEnded { run: 1 }, Op::Checkpoint { msg: 3 }, Op::Msg { size: 200 }], sweep: 0, flood: false });
            }
            // S26: more than 64 MiB inside the last 16 messages: the mr seek window reaches the bound of its back-scan before it
            // holds `limit` messages (18 messages of 5 MiB; only through the store API: the server refuses bodies over 2 MiB)
            {
                let mut ops = vec![Op::Msg { size: 5 }, Op::Msg { size: 5 }];
                ops.extend((0..18).map(|_| Op::Msg { size: 5 << 20 }));
                cases.push(Case { ops, anchors: vec![Anchor::Msg(18), Anchor::Msg(10)], later: vec![Op::SideFx], faults: vec![], big: true, race: vec![], sweep: 2, flood: false });
            }
            // every single fault on a rich fixed history
            let base = corpus_cases().remove(2);
            for t in TARGETS {
                let mut c = base.clone();
                c.faults = FAULT_KINDS.iter().filter(|k| **k != FaultKind::Empty || matches!(t, Target::Full | Target::Seek | Target::MsgIdx)).map(|k| (t, *k)).collect();
                cases.push(c);
            }
        }
    }

    let mut w = CaseWriter::new(&a.out, "Model.Compile Gen.CompileConsts", "(check_case gen_recent_limit gen_max_refs gen_ckpt_frame_rule)", "(model_obs gen_recent_limit gen_max_refs gen_ckpt_frame_rule)", 40);
    let mut distinct = Distinct::default();
    let mut seen_classes: BTreeMap<String, u64> = BTreeMap::new();
    let mut wall_ms: BTreeMap<&str, u128> = BTreeMap::new();
    for (ci, case) in cases.iter().enumerate() {
        let t_case = std::time::Instant::now();
        let out = run_case(case, limit, max_refs);
        *wall_ms.entry(if case.sweep != 0 { "sweep" } else if case.flood { "flood" } else if case.big { "big" } else { "other" }).or_insert(0u128) += t_case.elapsed().as_millis();
        res.evaluations += 1;
        res.bump_by("op_errors", out.op_errors);
        let nck = out.abs.truth.iter().filter(|e| matches!(e.kind, EventKind::ContinuityCompactionCheckpointCreated { .. })).count();
        let nmsg = out.abs.truth.iter().filter(|e| matches!(e.kind, EventKind::ContinuityMessageAppended { .. })).count();
        let nre = out.abs.truth.iter().filter(|e| matches!(e.kind, EventKind::ContinuityRunEnded { .. })).count();
        res.bump(&format!("checkpoints={}", match nck { 0 => "0", 1 => "1", 2..=4 => "2-4", _ => "5+" }));
        res.bump(&format!("messages={}", match nmsg { 0..=3 => "0-3", 4..=15 => "4-15", 16 => "16", 17..=20 => "17-20", _ => "21+" }));
        res.bump_by("span_compiles", out.span.iter().filter(|o| !o.point.is_empty()).count() as u64);
        if let Some(r) = &out.race {
            res.bump_by("race_compiles", r.obs.len() as u64);
        }
        if case.sweep != 0 {
            res.bump("window_sweep_threads");
            res.bump_by("window_sweep_anchors", case.anchors.len() as u64);
        }
        res.bump(&format!("frames={}", match out.abs.truth.len() { 0..=9 => "1-9", 10..=29 => "10-29", 30..=79 => "30-79", _ => "80+" }));
        if (nck > 0 || nre > 0 || nmsg > limit) && distinct.add(&serde_json::to_string(case).unwrap()) {}
        if res.samples.len() < 2 && nck > 0 && case.ops.len() < 14 {
            res.samples.push(serde_json::to_value(case).unwrap());
        }
        // ---- model cases: the baseline of every anchor, and the outcome after the later appends
        let mut ids_of_anchor: Vec<Vec<usize>> = vec![];
        for (ai, c) in out.compiled.iter().enumerate() {
            let mut ids = vec![];
            if let Out::Ok { bundle, .. } = &c.baseline {
                res.bump(&format!("strategy:{}", bundle["compiler"]["strategy"].as_str().unwrap_or("?")));
                res.bump(&format!("items={}", match bundle["items"].as_array().map(|x| x.len()).unwrap_or(0) { 0..=2 => "0-2", 3..=10 => "3-10", 11..=16 => "11-16", _ => "17+" }));
            } else {
                res.bump("compile_error");
            }
            if let Out::Ok { decision, .. } = &c.baseline {
                res.bump(&format!("cause:{}", decision["reason"]["cause"].as_str().unwrap_or("?")));
            }
            res.bump(&format!("anchor:{}", match (&c.anchor, c.cut_is_head) { (Anchor::Unknown, _) | (Anchor::NonMessage, _) => "invalid", (_, true) => "cut=head", _ => "cut<head" }));
            if !a.oracle_only() && (out.abs_later.truth.len() <= 600 || (case.flood && ai == 0)) {
                for (abs, runs, o, which) in [(&out.abs, &out.runs, &c.baseline, "first"), (&out.abs_later, &out.runs_later, &out.later_baselines[ai], "after_later")] {
                    if (case.sweep != 0 || case.flood) && which == "after_later" {
                        continue; // the oracle judges it; one model case per anchor is enough for a sweep
                    }
                    let term = format!(
                        "{{| c_log := {}; c_runs := {}; c_anchor := {}; c_expect := {} |}}",
                        coq_list(&abs.truth, |e| abs.coq_frame(e)),
                        abs.coq_runs(runs),
                        abs.seq_of_event.get(&c.anchor_id).copied().unwrap_or(UNKNOWN),
                        coq_list_n(&enc_out(abs, o))
                    );
                    let cid = w.push(term);
                    ids.push(cid);
                    if res.case_index.len() < 4000 {
                        res.case_index.insert(cid.to_string(), json!({"case": case, "anchor": c.anchor, "which": which}));
                    }
                }
            }
            ids_of_anchor.push(ids);
        }
        if std::env::var_os("RV_C08_DUMP").is_some() {
            // debugging aid for replays: every outcome of every anchor, one line each
            for c in &out.compiled {
                eprintln!("anchor {:?} caches_as_found => {}", c.anchor, c.baseline.canon());
                for (l, o) in &c.others {
                    eprintln!("anchor {:?} {l} => {}", c.anchor, o.canon());
                }
            }
        }
        // ---- independent oracle
        let viol = judge(case, &out, limit, max_refs, &mut res.oracle_checks);
        for (ai, class, what) in viol {
            *seen_classes.entry(class.clone()).or_insert(0) += 1;
            let first = seen_classes[&class] == 1;
            let ids: Vec<i64> = if ids_of_anchor[ai].is_empty() { vec![-(ci as i64) - 1] } else { ids_of_anchor[ai].iter().map(|x| *x as i64).collect() };
            for (n, cid) in ids.iter().enumerate() {
                res.oracle_violations.push(OracleViolation {
                    case_id: *cid,
                    what: what.clone(),
                    class: class.clone(),
                    replay: if first && n == 0 { json!({"case": shrink_case(case, ai, &class, limit, max_refs)}) } else { json!({"see": "first witness of this class", "case": if ids.len() == 1 && n == 0 { serde_json::to_value(case).unwrap() } else { Value::Null }}) },
                });
            }
        }
    }
    // ---- real runs through the router (sequential, deterministic)
    if a.replay.is_none() {
        let mut r = Rng::new(a.seed ^ 0xE2E);
        let nthreads = if a.thorough() { 10 } else { 3 };
        for t in 0..nthreads {
            let mut plan = vec![];
            let nposts = if t == 0 { limit as u64 + 3 } else { r.range(2, 9) };
            for k in 0..nposts {
                plan.push(E2eOp::Post);
                if k > 0 && r.chance(1, 3) {
                    plan.push(E2eOp::Checkpoint { msg: r.below(k + 1) });
                }
            }
            res.evaluations += 1;
            match std::panic::catch_unwind(|| e2e_thread(&plan, limit, max_refs)) {
                Ok(Ok((thread, runs))) => {
                    res.bump_by("e2e_runs", runs.len() as u64);
                    if runs.len() != plan.iter().filter(|o| matches!(o, E2eOp::Post)).count() {
                        res.oracle_violations.push(OracleViolation { case_id: -200_000 - t as i64, what: format!("{} runs were started, {} context_compiled frames are in the thread", plan.iter().filter(|o| matches!(o, E2eOp::Post)).count(), runs.len()), class: "run_frames_missing".into(), replay: json!({"e2e_plan": plan}) });
                    }
                    for run in &runs {
                        res.oracle_checks += 3;
                        let mut bad: Option<String> = None;
                        if !run.order_ok {
                            bad = Some("selection_decided frame missing, after context_compiled, or for another message".into());
                        } else if let Some(w) = consistency(&run.out, &thread, limit, max_refs) {
                            bad = Some(w);
                        } else if view_of(&run.out) != run.spec {
                            bad = Some(format!("logged bundle / decision => {}   recomputed from the thread at the recorded cut => {}", brief(&run.out), run.spec.as_ref().map(|x| short(&x.to_string())).unwrap_or("error".into())));
                        }
                        let mut cid: i64 = -200_000 - t as i64;
                        if !a.oracle_only() {
                            let term = format!(
                                "{{| c_log := {}; c_runs := {}; c_anchor := {}; c_expect := {} |}}",
                                coq_list(&run.abs.truth, |e| run.abs.coq_frame(e)),
                                run.abs.coq_runs(&run.runs),
                                run.abs.seq_of_event.get(&run.anchor).copied().unwrap_or(UNKNOWN),
                                coq_list_n(&enc_out(&run.abs, &run.out))
                            );
                            let id = w.push(term);
                            cid = id as i64;
                            if res.case_index.len() < 4000 {
                                res.case_index.insert(id.to_string(), json!({"e2e_plan": plan, "anchor": run.anchor}));
                            }
                        }
                        if let Some(what) = bad {
                            *seen_classes.entry("run_frames_differ_from_truth_recomputation".into()).or_insert(0) += 1;
                            res.oracle_violations.push(OracleViolation { case_id: cid, what, class: "run_frames_differ_from_truth_recomputation".into(), replay: json!({"e2e_plan": plan}) });
                        }
                    }
                }
                Ok(Err(e)) => res.oracle_violations.push(OracleViolation { case_id: -200_000 - t as i64, what: format!("real run phase failed: {e}"), class: "run_phase_failed".into(), replay: json!({"e2e_plan": plan}) }),
                Err(_) => res.oracle_violations.push(OracleViolation { case_id: -200_000 - t as i64, what: "real run phase panicked".into(), class: "panic".into(), replay: json!({"e2e_plan": plan}) }),
            }
        }
    }
    w.flush();
    for (c, n) in &seen_classes {
        res.bump_by(&format!("violation:{c}"), *n);
    }
    res.distinct_nontrivial = distinct.count();
    res.case_files = w.files.iter().map(|p| p.display().to_string()).collect();
    res.notes.push(format!("wall ms of the implementation runs by kind of history: {wall_ms:?}"));
    res.notes.push(format!("limits read from the source: recent_messages_v1_limit={limit} hierarchical_summaries_v1_max_refs={max_refs}"));
    res.write(&a.out);
    println!("c08: {} histories, {} oracle checks, {} model cases, {} oracle violations {:?}", res.evaluations, res.oracle_checks, w.total, res.oracle_violations.len(), seen_classes);
    std::process::exit(0);
}

/// delta-debug ops / later / anchors while the class persists
fn shrink_case(case: &Case, ai: usize, class: &str, limit: usize, max_refs: usize) -> Value {
    if case.sweep != 0 {
        // the byte sizes are the point: keep the thread, name the one anchor the oracle flagged
        let c = Case { anchors: case.anchors.get(ai).cloned().into_iter().collect(), sweep: 1, ..case.clone() };
        return serde_json::to_value(&c).unwrap();
    }
    if case.big || class == "hang" {
        return serde_json::to_value(case).unwrap();
    }
    let has = |c: &Case| {
        let out = run_case(c, limit, max_refs);
        let mut n = 0;
        judge(c, &out, limit, max_refs, &mut n).iter().any(|(_, cl, _)| cl == class)
    };
    let mut cur = case.clone();
    // one anchor, one fault
    for an in &case.anchors {
        let c = Case { anchors: vec![an.clone()], ..cur.clone() };
        if has(&c) {
            cur = c;
            break;
        }
    }
    if let Some(label) = class.strip_prefix("cache_fault_changes_bundle:") {
        let keep: Vec<(Target, FaultKind)> = cur.faults.iter().cloned().filter(|(t, k)| format!("{t:?}:{k:?}") == label).collect();
        if !keep.is_empty() {
            cur.faults = keep;
        }
    } else {
        let c = Case { faults: vec![], ..cur.clone() };
        if has(&c) {
            cur = c;
        }
    }
    let base = cur.clone();
    cur.later = shrink_vec(cur.later.clone(), |l| has(&Case { later: l.to_vec(), ..base.clone() }));
    let base = cur.clone();
    cur.ops = shrink_vec(cur.ops.clone(), |o| has(&Case { ops: o.to_vec(), ..base.clone() }));
    serde_json::to_value(&cur).unwrap()
}
