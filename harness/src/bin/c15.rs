//! C15 — provider stream decoding: the real `OpenResponsesSsePipe` (byte chunks, via the rip_verif hook
//! `ripd::verif::run_sse_pipe`), the real `SseDecoder`/`EventFrameMapper` (text chunks) and Rust's
//! `std::str::from_utf8` against coq/Model/Sse.v + coq/Base/Utf8.v, plus the independent oracles:
//! (O1) the frames are the same under every partition of the same body, (O2) for grammar-generated
//! bodies exactly one provider frame per generated event with the payload unchanged, text = concat of
//! deltas, (O3) seqs contiguous from the offset and `*seq` right behind the last frame.
use rip_kernel::{Event, EventKind, ProviderEventStatus};
use rip_provider_openresponses::{EventFrameMapper, ParsedEvent, ParsedEventKind, SseDecoder, ValidationOptions};
use rv::*;
use serde_json::{json, Value};
use std::collections::BTreeMap;
use std::path::PathBuf;

fn enc_ostr(out: &mut Vec<u64>, o: Option<&str>) {
    match o {
        None => out.push(0),
        Some(s) => {
            out.push(1);
            enc_str(out, s)
        }
    }
}
fn enc_strs(out: &mut Vec<u64>, v: &[String]) {
    out.push(v.len() as u64);
    for s in v {
        enc_str(out, s);
    }
}
/// the value as serde_json::to_string prints it (mirrored by `print` of coq/Base/Json.v on the model's value)
fn enc_ojson(out: &mut Vec<u64>, v: Option<&Value>) {
    match v {
        None => out.push(0),
        Some(v) => {
            out.push(1);
            enc_str(out, &serde_json::to_string(v).unwrap())
        }
    }
}
fn status_code(s: &ProviderEventStatus) -> u64 {
    match s {
        ProviderEventStatus::Done => 0,
        ProviderEventStatus::InvalidJson => 1,
        ProviderEventStatus::Event => 2,
    }
}
/// the CONTENT of a frame: status, event name, raw text, data as canonical JSON text, every error string
fn enc_frame(out: &mut Vec<u64>, e: &Event) {
    match &e.kind {
        EventKind::ProviderEvent { status, event_name, data, raw, errors, response_errors, .. } => {
            out.push(0);
            out.push(e.seq);
            out.push(status_code(status));
            enc_ostr(out, event_name.as_deref());
            enc_ostr(out, raw.as_deref());
            enc_ojson(out, data.as_ref());
            enc_strs(out, errors);
            enc_strs(out, response_errors);
        }
        EventKind::OutputTextDelta { delta } => {
            out.push(1);
            out.push(e.seq);
            enc_str(out, delta);
        }
        _ => out.push(99),
    }
}
/// frames without id / timestamp (what must not depend on the chunking)
fn canon_frames(fs: &[Event]) -> Vec<u64> {
    let mut out = vec![];
    for f in fs {
        enc_frame(&mut out, f);
    }
    out
}

// ------------------------------------------------------------------ tables for the model's abstract functions
/// `absfns` of coq/Model/SseJson.v as finite tables: computed with serde_json and the validators only, never
/// from a chunked run
#[derive(Default, Clone)]
struct Tables {
    compat: bool,
    err: BTreeMap<String, String>,
    num: BTreeMap<String, Option<String>>,
    vs: BTreeMap<String, Vec<String>>,
    vr: BTreeMap<String, Vec<String>>,
}
fn is_num_char(c: char) -> bool {
    c.is_ascii_digit() || matches!(c, '-' | '+' | '.' | 'e' | 'E')
}
/// the number tokens of a JSON text (maximal runs of number characters outside strings)
fn number_tokens(raw: &str) -> Vec<String> {
    let cs: Vec<char> = raw.chars().collect();
    let mut i = 0;
    let mut out = vec![];
    while i < cs.len() {
        let c = cs[i];
        if c == '"' {
            i += 1;
            while i < cs.len() && cs[i] != '"' {
                if cs[i] == '\\' {
                    i += 1;
                }
                i += 1;
            }
            i += 1;
        } else if c == '-' || c.is_ascii_digit() {
            let st = i;
            while i < cs.len() && is_num_char(cs[i]) {
                i += 1;
            }
            out.push(cs[st..i].iter().collect());
        } else {
            i += 1;
        }
    }
    out
}
fn validation(compat: bool) -> ValidationOptions {
    if compat {
        ValidationOptions::compat_missing_item_ids()
    } else {
        ValidationOptions::strict()
    }
}
// ---- the id normalisation of ValidationOptions::compat_missing_item_ids, written again here from its description
// (an item without a non-empty string `id`: function_call gets its call_id, else item_<index>; function_call_output gets
// output_<call_id>, else output_<index>; the items of response.output are numbered by position; a
// function_call_arguments.delta/done event without a non-empty string item_id gets item_<output_index>) — the repo's
// own functions are private, and an independent version is what an oracle needs
fn own_nonempty_str<'a>(o: &'a serde_json::Map<String, Value>, k: &str) -> Option<&'a str> {
    match o.get(k) {
        Some(Value::String(s)) if !s.is_empty() => Some(s.as_str()),
        _ => None,
    }
}
fn own_normalize_item(item: &mut Value, index: Option<u64>) {
    let Value::Object(o) = item else { return };
    if own_nonempty_str(o, "id").is_some() {
        return;
    }
    let (pfx_call, pfx_idx) = match o.get("type") {
        Some(Value::String(t)) if t == "function_call" => ("", "item_"),
        Some(Value::String(t)) if t == "function_call_output" => ("output_", "output_"),
        _ => return,
    };
    let id = match (own_nonempty_str(o, "call_id"), index) {
        (Some(c), _) => format!("{pfx_call}{c}"),
        (None, Some(n)) => format!("{pfx_idx}{n}"),
        (None, None) => return,
    };
    o.insert("id".into(), Value::String(id));
}
fn own_u64(v: Option<&Value>) -> Option<u64> {
    match v {
        Some(Value::Number(n)) => n.as_u64(),
        _ => None,
    }
}
fn own_normalize_event(v: &Value) -> Value {
    let mut out = v.clone();
    let Value::Object(o) = &mut out else { return out };
    let idx = own_u64(o.get("output_index"));
    if let Some(item) = o.get_mut("item") {
        own_normalize_item(item, idx);
    }
    if let Some(Value::Object(r)) = o.get_mut("response") {
        if let Some(Value::Array(items)) = r.get_mut("output") {
            for (i, it) in items.iter_mut().enumerate() {
                own_normalize_item(it, Some(i as u64));
            }
        }
    }
    let fca = matches!(o.get("type"), Some(Value::String(t)) if t == "response.function_call_arguments.delta" || t == "response.function_call_arguments.done");
    if fca && own_nonempty_str(o, "item_id").is_none() {
        if let Some(n) = idx {
            o.insert("item_id".into(), Value::String(format!("item_{n}")));
        }
    }
    out
}
/// what is validated for a value, and the two validators called directly: (validation data, errors, response_errors)
fn own_validation(v: &Value, compat: bool) -> (Value, Vec<String>, Vec<String>) {
    let vd = if compat { own_normalize_event(v) } else { v.clone() };
    let errs = rip_openresponses::validate_stream_event(&vd).err().unwrap_or_default();
    let rerrs = vd.get("response").map(|r| rip_openresponses::validate_response_resource(r).err().unwrap_or_default()).unwrap_or_default();
    (vd, errs, rerrs)
}
impl Tables {
    fn add_payload(&mut self, raw: &str, _compat: bool, problems: &mut Vec<String>) {
        if raw == "[DONE]" {
            return;
        }
        for t in number_tokens(raw) {
            if t.len() <= 15 && t.chars().all(|c| c.is_ascii_digit()) {
                continue; // a plain small integer: the model never asks
            }
            let spelled = serde_json::from_str::<Value>(&t).ok().map(|v| serde_json::to_string(&v).unwrap());
            self.num.insert(t, spelled);
        }
        match serde_json::from_str::<Value>(raw) {
            Err(e) => {
                self.err.insert(raw.to_string(), e.to_string());
            }
            Ok(v) => {
                if rip_kernel::json_nesting(&v) <= rip_kernel::MAX_PAYLOAD_NESTING {
                    // the validators' answers for the value as it is and as the harness normalises it (the model
                    // normalises on its own and looks its result up here)
                    let _ = &problems;
                    for vd in [v.clone(), own_normalize_event(&v)] {
                        let key = serde_json::to_string(&vd).unwrap();
                        self.vs.entry(key).or_insert_with(|| rip_openresponses::validate_stream_event(&vd).err().unwrap_or_default());
                        if let Some(r) = vd.get("response") {
                            let key = serde_json::to_string(r).unwrap();
                            self.vr.entry(key).or_insert_with(|| rip_openresponses::validate_response_resource(r).err().unwrap_or_default());
                        }
                    }
                }
            }
        }
    }
    fn coq(&self) -> String {
        let e: Vec<(&String, &String)> = self.err.iter().collect();
        let n: Vec<(&String, &Option<String>)> = self.num.iter().collect();
        let vs: Vec<(&String, &Vec<String>)> = self.vs.iter().collect();
        let vr: Vec<(&String, &Vec<String>)> = self.vr.iter().collect();
        format!(
            "{{| t_compat := {}; t_err := {}; t_num := {}; t_vs := {}; t_vr := {} |}}",
            coq_bool(self.compat),
            coq_list(&e, |(k, m)| format!("({}, {})", coq_str(k), coq_str(m))),
            coq_list(&n, |(k, m)| format!("({}, {})", coq_str(k), coq_opt(m, |s| coq_str(s)))),
            coq_list(&vs, |(k, a)| format!("({}, {})", coq_str(k), coq_list(a, |s| coq_str(s)))),
            coq_list(&vr, |(k, a)| format!("({}, {})", coq_str(k), coq_list(a, |s| coq_str(s))))
        )
    }
}
/// lossy decoding as the pipe is meant to do it (std::str::from_utf8 driven; an incomplete sequence
/// at the very end is dropped) — independent of the pipe
fn harness_lossy(mut b: &[u8]) -> String {
    let mut s = String::new();
    loop {
        match std::str::from_utf8(b) {
            Ok(t) => {
                s.push_str(t);
                return s;
            }
            Err(e) => {
                s.push_str(std::str::from_utf8(&b[..e.valid_up_to()]).unwrap());
                match e.error_len() {
                    None => return s,
                    Some(k) => {
                        s.push('\u{FFFD}');
                        b = &b[e.valid_up_to() + k..];
                    }
                }
            }
        }
    }
}
/// tables for every payload of a text (the payloads are enumerated by the real decoder on the whole text: a payload
/// the chunked run produces and this one does not is missing from the tables, so the model answers with defaults
/// and the case disagrees)
fn tables_for(text: &str, compat: bool, extra: &[String]) -> (Tables, Vec<String>) {
    let mut d = SseDecoder::new_with_validation(validation(compat));
    let mut evs = d.push(text);
    evs.extend(d.finish());
    let mut t = Tables { compat, ..Tables::default() };
    let mut problems = vec![];
    for raw in extra {
        t.add_payload(raw, compat, &mut problems);
    }
    for e in &evs {
        t.add_payload(&e.raw, compat, &mut problems);
    }
    (t, problems)
}

// ------------------------------------------------------------------ running the implementation
struct Runner {
    rt: tokio::runtime::Runtime,
}
impl Runner {
    fn new() -> Self {
        Runner { rt: tokio::runtime::Builder::new_current_thread().enable_all().build().unwrap() }
    }
    fn pipe(&self, chunks: &[Vec<u8>], off: u64, compat: bool, terr: Option<&str>) -> (Vec<Event>, u64) {
        let (frames, seq, _calls, _rid) = self.rt.block_on(ripd::verif::run_sse_pipe(
            PathBuf::from("/dev/null"),
            chunks.to_vec(),
            off,
            compat,
            terr.map(|s| s.to_string()),
        ));
        (frames, seq)
    }
}
fn split_at_cuts(body: &[u8], cuts: &[usize]) -> Vec<Vec<u8>> {
    let mut out = vec![];
    let mut prev = 0;
    for &c in cuts {
        let c = c.min(body.len()).max(prev); // cuts are positions in the body; out-of-range ones give empty chunks
        out.push(body[prev..c].to_vec());
        prev = c;
    }
    out.push(body[prev..].to_vec());
    out
}

// ------------------------------------------------------------------ generators
const NAMES: [&str; 9] = ["response.output_text.delta", "response.created", "e", "x y", "é\u{a0}z", "message", "response.output_item.done", "response.output_text.delta", "response.completed"];
const OTD: &str = "response.output_text.delta";
/// JSON string literals (with the quotes): escapes of every kind, raw non-ASCII, surrogate pairs
const STRS: [&str; 16] = [
    "\"hi\"", "\"\"", "\" \"", "\"é\"", "\"€uro\"", "\"😀\"", "\"a\\nb\"", "\"x\u{2003}y\"", "\"\u{feff}\"", "\"tab\\t\\\"q\\\"\\\\\"",
    "\"\\u00e9\\u20AC\"", "\"\\ud83d\\ude00!\"", "\"sl\\/ash\\b\\f\\r\"", "\"\\u0000\\u001f\"", "\"\u{7f}\u{80}\u{10ffff}\"", "\"data: x\"",
];
/// number tokens: plain integers at the u64 / i64 borders, and everything serde_json re-spells or refuses
const NUMS: [&str; 26] = [
    "0", "7", "-1", "18446744073709551615", "18446744073709551616", "-9223372036854775808", "-9223372036854775809", "9223372036854775808",
    "-0", "1.0", "1.50", "1e2", "1E+2", "-1e-2", "0.1", "123456789012345678901234567890", "1.0000000000000001", "5e-324", "1e308", "-0.0",
    "0e0", "0E-5", "1e400", "-1e999", "100000000000000000000000", "0.30000000000000004",
];
fn gen_scalar(r: &mut Rng) -> String {
    match r.below(6) {
        0 => "null".into(),
        1 => (*r.pick(&["true", "false"][..])).to_string(),
        2 | 3 => (*r.pick(&NUMS[..21])).to_string(),
        _ => (*r.pick(&STRS[..])).to_string(),
    }
}
fn gen_ws(r: &mut Rng) -> &'static str {
    *r.pick(&["", "", "", " ", "  ", "\t", " \t "][..])
}
fn gen_value(r: &mut Rng, depth: u32) -> String {
    if depth == 0 || r.chance(1, 2) {
        return gen_scalar(r);
    }
    if r.chance(1, 2) {
        let n = r.below(4);
        let items: Vec<String> = (0..n).map(|_| format!("{}{}{}", gen_ws(r), gen_value(r, depth - 1), gen_ws(r))).collect();
        format!("[{}{}]", if n == 0 { gen_ws(r) } else { "" }, items.join(","))
    } else {
        let n = r.below(4);
        // keys: unsorted, duplicates, escaped spellings of the same key, non-ASCII
        let items: Vec<String> = (0..n)
            .map(|_| {
                let k = *r.pick(&["\"b\"", "\"a\"", "\"a\"", "\"\\u0061\"", "\"type\"", "\"é\"", "\"Z\"", "\"\"", "\"delta\"", "\"aa\""][..]);
                format!("{}{}{}:{}{}{}", gen_ws(r), k, gen_ws(r), gen_ws(r), gen_value(r, depth - 1), gen_ws(r))
            })
            .collect();
        format!("{{{}{}}}", if n == 0 { gen_ws(r) } else { "" }, items.join(","))
    }
}
fn nested(open: &str, close: &str, inner: &str, n: usize) -> String {
    format!("{}{}{}", open.repeat(n), inner, close.repeat(n))
}
/// the data values of one event (one per data line); never start with whitespace, never end with CR
fn gen_payload(r: &mut Rng) -> Vec<String> {
    let one = |s: String| vec![s];
    match r.below(28) {
        // what the compat validation mode normalises: items without a (non-empty, string) id, by call_id or index;
        // response.output items by position; function_call_arguments events without item_id
        24 | 25 => {
            let idx = *r.pick(&["0", "2", "1.0", "-1", "\"1\"", "18446744073709551615", "18446744073709551616", "null"][..]);
            let idx_member = if r.chance(1, 5) { String::new() } else { format!("\"output_index\":{idx},") };
            let id = *r.pick(&["", "", "\"id\":\"\",", "\"id\":\"fc_1\",", "\"id\":7,", "\"id\":null,"][..]);
            let call = *r.pick(&["\"call_id\":\"c1\",", "\"call_id\":\"\",", "", "\"call_id\":5,"][..]);
            let ty = *r.pick(&["function_call", "function_call", "function_call_output", "message", "reasoning"][..]);
            let item = match r.below(8) {
                0 => "7".to_string(),
                1 => "[]".to_string(),
                _ => format!("{{{id}{call}\"type\":\"{ty}\",\"name\":\"ls\",\"arguments\":\"{{}}\",\"output\":\"o\",\"status\":\"completed\"}}"),
            };
            let ety = *r.pick(&["response.output_item.added", "response.output_item.done"][..]);
            one(format!("{{\"type\":\"{ety}\",\"sequence_number\":3,{idx_member}\"item\":{item}}}"))
        }
        26 => {
            let it = |r: &mut Rng| {
                let id = *r.pick(&["", "\"id\":\"\",", "\"id\":\"x\","][..]);
                let call = *r.pick(&["\"call_id\":\"c9\",", ""][..]);
                let ty = *r.pick(&["function_call", "function_call_output", "message"][..]);
                format!("{{{id}{call}\"type\":\"{ty}\",\"name\":\"n\",\"arguments\":\"\",\"output\":\"\"}}")
            };
            let output = match r.below(5) {
                0 => "null".to_string(),
                1 => "{}".to_string(),
                _ => format!("[{}]", (0..r.below(4)).map(|_| it(r)).collect::<Vec<_>>().join(",")),
            };
            let resp = if r.chance(1, 6) { "\"r\"".to_string() } else { format!("{{\"id\":\"resp_1\",\"object\":\"response\",\"output\":{output}}}") };
            one(format!("{{\"type\":\"response.completed\",\"sequence_number\":9,\"response\":{resp}}}"))
        }
        27 => {
            let idx = *r.pick(&["\"output_index\":0,", "\"output_index\":3,", "", "\"output_index\":1.5,", "\"output_index\":-2,"][..]);
            let item_id = *r.pick(&["", "\"item_id\":\"\",", "\"item_id\":\"it_1\",", "\"item_id\":7,"][..]);
            let ty = *r.pick(&["response.function_call_arguments.delta", "response.function_call_arguments.done", "response.output_text.delta"][..]);
            one(format!("{{\"type\":\"{ty}\",\"sequence_number\":4,{idx}{item_id}\"delta\":\"{{\",\"arguments\":\"{{}}\"}}"))
        }
        0 | 1 | 2 => one(format!("{{\"type\":\"{OTD}\",\"delta\":{}}}", r.pick(&STRS[..]))),
        3 => vec![format!("{{\"type\":\"{OTD}\","), format!("\"sequence_number\":{},", r.below(9)), format!("\"delta\":{}}}", r.pick(&STRS[..]))],
        4 => one("[DONE]".to_string()),
        5 => one(
            r.pick(
                &[
                    "{not json}", "", "[DONE] ", "[DONE]x", "nul\u{0}l", "{\"a\":", "]", "{'a':1}", "{\"a\":01}", "{\"a\":1,}", "[1 2]", "\"\\ud800\"", "\"\\ude00\\ud83d\"", "\"\\x\"",
                    "tru", "nul", "{\"a\" 1}", "1 2", "\u{feff}{}", "{\"a\":\"\t\"}", "-", "1.", ".5", "1e", "+1", "NaN", "{\"a\":1}}", "[1e400]", "{\"type\":\"response.output_text.delta\",\"delta\":\"x\",\"n\":-1e999}",
                    "\"\\u12\"", "\"unterminated", "[\"a\",]", "{,}", "[DONE]\u{a0}",
                ][..],
            )
            .to_string(),
        ),
        6 => one("{\"type\":\"response.created\",\"sequence_number\":1,\"response\":{\"id\":\"resp_1\"}}".to_string()),
        7 => one(format!("{{\"type\":\"response.output_item.done\",\"output_index\":{},\"item\":{{\"type\":\"function_call\",\"id\":\"i1\",\"call_id\":\"c1\",\"name\":\"ls\",\"arguments\":\"{{}}\"}}}}", r.below(3))),
        8 => vec!["héllo € 😀".to_string(), "second line".to_string()],
        9 => one(gen_scalar(r)),
        10 => one(format!("{{\"type\":\"{OTD}\",{}\"delta\":{}}}", r.pick(&["", "\"text\":\"T\",", "\"output_text\":\"O\","][..]), r.pick(&["0", "null", "{\"s\":\"x\"}", "[\"x\"]", "true", "1.0"][..]))),
        11 => vec!["{\"type\":\"response.completed\",".to_string(), "".to_string(), "\"sequence_number\":2}".to_string()],
        // the delta rules: key order, duplicate keys (the last one counts), type missing / not a string / nested / in an array
        12 => one(format!("{{\"delta\":{},\"type\":\"{OTD}\"}}", r.pick(&STRS[..]))),
        13 => one(format!("{{\"type\":\"{OTD}\",\"delta\":\"first\",\"delta\":{}}}", r.pick(&STRS[..]))),
        14 => one(
            (*r.pick(
                &[
                    "{\"type\":\"response.output_text.delta\",\"type\":\"response.created\",\"delta\":\"no\"}",
                    "{\"type\":\"response.created\",\"delta\":\"yes\",\"type\":\"response.output_text.delta\"}",
                    "{\"delta\":\"typeless\"}",
                    "{\"type\":\"response.output_text.delta\",\"text\":\"no delta member\"}",
                    "{\"type\":7,\"delta\":\"num type\"}",
                    "{\"type\":null,\"delta\":\"null type\"}",
                    "{\"x\":{\"type\":\"response.output_text.delta\",\"delta\":\"nested\"}}",
                    "[{\"type\":\"response.output_text.delta\",\"delta\":\"in array\"}]",
                    "{\"type\":\"response.output_text.delta \",\"delta\":\"trailing blank in type\"}",
                    "{\"type\":\"response.output_text.done\",\"text\":\"full\",\"delta\":\"not a delta event\"}",
                    "{\"\\u0074ype\":\"response.output_text.delta\",\"delta\":\"escaped key\"}",
                    "{\"type\":\"response.output_text.\\u0064elta\",\"delta\":\"escaped type\"}",
                    "{\"type\":\"response.reasoning.delta\",\"delta\":\"reasoning\"}",
                ][..],
            ))
            .to_string(),
        ),
        // arbitrary values: whitespace, unsorted and duplicate keys, escapes, number spellings
        15 | 16 | 17 => one(gen_value(r, 3)),
        18 => one(format!("{}{}", gen_value(r, 2), r.pick(&["", " ", "\t", "  \t"][..]))),
        19 => one(format!("[{}]", r.pick(&NUMS[..]))),
        20 => one(format!("{{\"type\":\"{OTD}\",\"delta\":\"n\",\"n\":{}}}", r.pick(&NUMS[..]))),
        // nesting around rip_kernel::MAX_PAYLOAD_NESTING (125) and serde_json's limit (127 parse, 128 refuse)
        21 => {
            let n = *r.pick(&[124usize, 125, 126, 127, 128, 129][..]);
            one(match r.below(5) {
                0 => nested("[", "]", "", n),
                1 => nested("{\"a\":", "}", "1", n),
                2 => nested("[ ", " ]", "1.0", n),
                3 => nested("{\"b\":0, \"a\":", "}", "[1e2]", n - 1),
                _ => format!("{{\"type\":\"{OTD}\",\"delta\":\"deep\",\"x\":{}}}", nested("[", "]", "0", n - 1)),
            })
        }
        // a value spread over several data lines (the newline is JSON whitespace)
        22 => {
            let v = gen_value(r, 2);
            vec!["{\"a\":".to_string(), format!("{v},"), "\"b\":[".to_string(), "1,".to_string(), "2]}".to_string()]
        }
        _ => one(format!("{{\"type\":\"{OTD}\",\"delta\":{},\"delta\":{}}}", r.pick(&STRS[..]), r.pick(&["1", "null", "\"last\""][..]))),
    }
}
struct Body {
    bytes: Vec<u8>,
    /// events the generator wrote, in order (None when the body was damaged afterwards)
    expected: Option<Vec<(Option<String>, String)>>,
    tags: Vec<&'static str>,
}
fn gen_body(r: &mut Rng) -> Body {
    let mut s = String::new();
    let mut expected = vec![];
    let mut tags: Vec<&'static str> = vec![];
    let crlf_mode = r.below(3); // 0 LF, 1 CRLF, 2 mixed
    if crlf_mode > 0 {
        tags.push("crlf");
    }
    let mut cur_event: Option<String> = None;
    let nblocks = r.range(1, 4);
    let eol = |r: &mut Rng, s: &mut String| match crlf_mode {
        0 => s.push('\n'),
        1 => s.push_str("\r\n"),
        _ => s.push_str(*r.pick(&["\n", "\r\n", "\r\r\n"][..])),
    };
    for _ in 0..nblocks {
        if r.chance(1, 4) {
            s.push_str(*r.pick(&[": keep-alive", ":", ":data: x", ": é😀"][..]));
            eol(r, &mut s);
            tags.push("comment");
        }
        if r.chance(1, 2) {
            let name = *r.pick(&NAMES[..]);
            let (pre, post) = *r.pick(&[(" ", ""), ("", ""), ("  ", "  "), ("\t", "\u{3000}")][..]);
            s.push_str(&format!("event:{pre}{name}{post}"));
            eol(r, &mut s);
            cur_event = Some(name.to_string());
            tags.push("event-name");
            if r.chance(1, 12) {
                s.push_str("event:  ");
                eol(r, &mut s);
                cur_event = None;
            }
        }
        if r.chance(1, 8) {
            s.push_str(*r.pick(&["id: 7", "retry: 3", "foo", "datax: 1", " data: y", "Data: z"][..]));
            eol(r, &mut s);
            tags.push("unknown-field");
        }
        let vals = if r.chance(1, 10) { vec![] } else { gen_payload(r) };
        if vals.len() > 1 {
            tags.push("multi-line-data");
        }
        for v in &vals {
            let sp = *r.pick(&[" ", " ", "", "  ", "\t "][..]);
            s.push_str(&format!("data:{sp}{v}"));
            eol(r, &mut s);
        }
        // the blank line
        eol(r, &mut s);
        if !vals.is_empty() {
            expected.push((cur_event.take(), vals.join("\n")));
        }
        if r.chance(1, 10) {
            eol(r, &mut s);
        }
    }
    let mut bytes = s.into_bytes();
    let mut expected = Some(expected);
    match r.below(10) {
        0 => {
            // a trailing unterminated block: never dispatched
            bytes.extend_from_slice(b"data: tail");
            if r.chance(1, 2) {
                bytes.push(b'\n');
            }
            tags.push("missing-final-blank");
        }
        1 => {
            // the final blank line loses its LF but keeps a CR: finish() dispatches
            bytes.extend_from_slice(b"data: last\n\r");
            // an event name set by a block WITHOUT data is still pending: SseDecoder resets current_event only when it
            // dispatches (the WHATWG algorithm also resets it on a blank line with an empty data buffer; noted in
            // notes/sse15.md, outside the property text)
            if let Some(e) = expected.as_mut() {
                e.push((cur_event.take(), "last".to_string()));
            }
            tags.push("cr-only-tail");
        }
        2 => {
            let k = r.below(bytes.len() as u64 + 1) as usize;
            bytes.truncate(k);
            expected = None;
            tags.push("truncated");
        }
        _ => {}
    }
    if r.chance(2, 5) {
        // damage: invalid / truncated / overlong / surrogate sequences at random positions
        const BAD: [&[u8]; 14] = [
            &[0xFF], &[0x80], &[0xC0, 0xAF], &[0xE2, 0x82], &[0xE2], &[0xF0, 0x90, 0x80], &[0xF0, 0x90], &[0xE0, 0x80, 0x80],
            &[0xED, 0xA0, 0x80], &[0xF4, 0x90, 0x80, 0x80], &[0xC3], &[0xF5], &[0xE2, 0x82, 0xAC], &[0xF0, 0x9F, 0x98, 0x80],
        ];
        let n = r.range(1, 3);
        for _ in 0..n {
            let pos = r.below(bytes.len() as u64 + 1) as usize;
            let bad = *r.pick(&BAD[..]);
            for (i, b) in bad.iter().enumerate() {
                bytes.insert(pos + i, *b);
            }
        }
        expected = None;
        tags.push("invalid-utf8");
    }
    Body { bytes, expected, tags }
}

// ------------------------------------------------------------------ oracle on one body
#[derive(Clone, Debug)]
struct PipeCase {
    body: Vec<u8>,
    off: u64,
    compat: bool,
    terr: Option<String>,
}
fn case_json(c: &PipeCase, cuts: &[usize]) -> Value {
    json!({"body_hex": hex::encode(&c.body), "body_lossy": String::from_utf8_lossy(&c.body), "cuts": cuts, "seq_offset": c.off,
           "compat_missing_item_ids": c.compat, "transport_error": c.terr})
}
/// first partition (as cut positions) whose frames differ from the one-chunk run, if any
fn find_variant(run: &Runner, c: &PipeCase, parts: &[Vec<usize>]) -> Option<(Vec<usize>, String)> {
    let (f0, s0) = run.pipe(&[c.body.clone()], c.off, c.compat, c.terr.as_deref());
    let c0 = canon_frames(&f0);
    for cuts in parts {
        let (f, s) = run.pipe(&split_at_cuts(&c.body, cuts), c.off, c.compat, c.terr.as_deref());
        if canon_frames(&f) != c0 || s != s0 {
            return Some((cuts.clone(), format!("{} frames in one chunk, {} frames when cut at {:?}", f0.len(), f.len(), cuts)));
        }
    }
    None
}
fn partitions(r: &mut Rng, n: usize, all_single: bool) -> Vec<Vec<usize>> {
    let mut parts: Vec<Vec<usize>> = vec![];
    parts.push((1..n).collect()); // one byte at a time
    if all_single {
        for i in 0..=n {
            parts.push(vec![i]);
        }
    } else {
        for _ in 0..8 {
            parts.push(vec![r.below(n as u64 + 1) as usize]);
        }
    }
    for _ in 0..6 {
        let k = r.range(2, 6);
        let mut cuts: Vec<usize> = (0..k).map(|_| r.below(n as u64 + 1) as usize).collect();
        cuts.sort();
        parts.push(cuts);
    }
    parts
}
/// O2/O3 on the one-chunk run
fn check_expected(frames: &[Event], seq_end: u64, c: &PipeCase, expected: Option<&Vec<(Option<String>, String)>>) -> Option<(String, String)> {
    for (i, f) in frames.iter().enumerate() {
        if f.seq != c.off + i as u64 {
            return Some((format!("frame {i} has seq {} (offset {})", f.seq, c.off), "seq_gap".into()));
        }
    }
    if seq_end != c.off + frames.len() as u64 {
        return Some((format!("*seq ends at {seq_end} after {} frames from {}", frames.len(), c.off), "seq_gap".into()));
    }
    let Some(exp) = expected else { return None };
    // cut after the first [DONE]
    let mut exp: Vec<(Option<String>, String)> = exp.clone();
    if let Some(p) = exp.iter().position(|e| e.1 == "[DONE]") {
        exp.truncate(p + 1);
    }
    let prov: Vec<&Event> = frames.iter().filter(|f| matches!(f.kind, EventKind::ProviderEvent { .. })).collect();
    let n_expected = exp.len() + if c.terr.is_some() && !exp.iter().any(|e| e.1 == "[DONE]") { 1 } else { 0 };
    if prov.len() != n_expected {
        return Some((format!("{} provider frames for {} generated events", prov.len(), n_expected), "frame_per_event_mismatch".into()));
    }
    let mut text = String::new();
    let mut want_text = String::new();
    for f in frames {
        if let EventKind::OutputTextDelta { delta } = &f.kind {
            text.push_str(delta);
        }
    }
    for (i, (ev, raw)) in exp.iter().enumerate() {
        let EventKind::ProviderEvent { status, event_name, data, raw: fraw, errors, response_errors, .. } = &prov[i].kind else { unreachable!() };
        let own: Result<Value, _> = serde_json::from_str::<Value>(raw);
        let ok = if raw == "[DONE]" {
            *status == ProviderEventStatus::Done && fraw.as_deref() == Some(raw.as_str()) && event_name.is_none() && data.is_none() && errors.is_empty()
        } else {
            match &own {
                // not JSON: the text is kept byte for byte, the only error is the parser's own message
                Err(e) => {
                    *status == ProviderEventStatus::InvalidJson
                        && fraw.as_deref() == Some(raw.as_str())
                        && event_name == ev
                        && data.is_none()
                        && errors == &vec![e.to_string()]
                        && response_errors.is_empty()
                }
                // JSON too deep for a frame: kept as text
                Ok(v) if rip_kernel::json_nesting(v) > rip_kernel::MAX_PAYLOAD_NESTING => {
                    *status == ProviderEventStatus::InvalidJson && fraw.as_deref() == Some(raw.as_str()) && event_name == ev && data.is_none() && errors.len() == 1
                }
                // JSON: the value, which printed and parsed again is the same value; the name-mismatch error iff
                // the SSE event name differs from a string `type`; in strict mode the other errors are the validators'
                Ok(v) => {
                    let reparsed = data.as_ref().map(|d| serde_json::from_str::<Value>(&serde_json::to_string(d).unwrap()).ok() == Some(d.clone())).unwrap_or(false);
                    let ty = v.get("type").and_then(|t| t.as_str());
                    let mis = match (ev, ty) {
                        (Some(e), Some(t)) if e != t => Some(format!("event name '{e}' does not match type '{t}'")),
                        _ => None,
                    };
                    let mut rest: Vec<String> = errors.clone();
                    let mis_ok = match &mis {
                        Some(m) => rest.pop().as_ref() == Some(m),
                        None => !rest.iter().any(|e| e.starts_with("event name '")),
                    };
                    // the other errors are the stream-event validator's on the (normalised, in compat mode) value, the
                    // response errors the response validator's on its `response` member
                    let (_, want_errs, want_rerrs) = own_validation(v, c.compat);
                    let val_ok = rest == want_errs && response_errors == &want_rerrs;
                    *status == ProviderEventStatus::Event && data.as_ref() == Some(v) && fraw.is_none() && event_name == ev && reparsed && mis_ok && val_ok
                }
            }
        };
        if !ok {
            return Some((format!("provider frame {i} does not carry generated event {:?} / payload {:?} unchanged (got {:?})", ev, raw, prov[i].kind), "payload_changed".into()));
        }
        if let Ok(v) = &own {
            if v.is_object() && rip_kernel::json_nesting(v) <= rip_kernel::MAX_PAYLOAD_NESTING && v.get("type").and_then(|t| t.as_str()) == Some("response.output_text.delta") {
                if let Some(d) = v.get("delta").and_then(|d| d.as_str()) {
                    want_text.push_str(d);
                }
            }
        }
    }
    if text != want_text {
        return Some((format!("output text {text:?} is not the concatenation of the deltas {want_text:?}"), "text_not_concat_of_deltas".into()));
    }
    None
}
/// O4: the library's own reading of the provider frames (stream_transformers::extract_text_deltas: the payload's
/// `type`, else the frame's event name) gives the same text as the OutputTextDelta frames, unless a payload
/// WITHOUT a string `type` arrived under the SSE event name of a text delta (the mapper never looks at the event name).
/// Returns (violation, diverged-for-the-stated-reason).
fn check_extractor(frames: &[Event]) -> (Option<(String, String)>, bool) {
    let lib: String = rip_provider_openresponses::extract_text_deltas(frames).concat();
    let mut text = String::new();
    let mut typeless_under_delta_name = false;
    for f in frames {
        match &f.kind {
            EventKind::OutputTextDelta { delta } => text.push_str(delta),
            EventKind::ProviderEvent { status: ProviderEventStatus::Event, event_name: Some(n), data, .. } if n == OTD => {
                let has_type = matches!(data, Some(Value::Object(o)) if matches!(o.get("type"), Some(Value::String(_))));
                if !has_type {
                    typeless_under_delta_name = true;
                }
            }
            _ => {}
        }
    }
    if lib == text {
        (None, false)
    } else if typeless_under_delta_name {
        (None, true)
    } else {
        (Some((format!("extract_text_deltas over the provider frames gives {lib:?}, the output_text_delta frames give {text:?}"), "text_not_concat_of_deltas".into())), false)
    }
}

// ------------------------------------------------------------------ UTF-8 strings
fn enc_from_utf8(b: &[u8]) -> Vec<u64> {
    let mut out = vec![];
    match std::str::from_utf8(b) {
        Ok(t) => {
            out.push(0);
            enc_str(&mut out, t);
        }
        Err(e) => {
            out.push(1);
            out.push(e.valid_up_to() as u64);
            out.push(e.error_len().map(|k| k as u64).unwrap_or(0));
            enc_str(&mut out, std::str::from_utf8(&b[..e.valid_up_to()]).unwrap());
        }
    }
    out
}
fn utf8_strings(r: &mut Rng, thorough: bool) -> Vec<Vec<u8>> {
    let mut v: Vec<Vec<u8>> = vec![vec![]];
    for b in 0..=255u8 {
        v.push(vec![b]);
    }
    // every lead-byte class boundary x every second-byte boundary, then third / fourth
    const B: [u8; 30] = [
        0x00, 0x41, 0x7F, 0x80, 0x8F, 0x90, 0x9F, 0xA0, 0xBF, 0xC0, 0xC1, 0xC2, 0xDF, 0xE0, 0xE1, 0xEC, 0xED, 0xEE, 0xEF, 0xF0, 0xF1, 0xF3,
        0xF4, 0xF5, 0xF7, 0xF8, 0xFB, 0xFC, 0xFE, 0xFF,
    ];
    for a in B {
        for b in B {
            v.push(vec![a, b]);
        }
    }
    const L: [u8; 10] = [0xE0, 0xE1, 0xED, 0xEE, 0xEF, 0xF0, 0xF1, 0xF4, 0xC2, 0x41];
    const C: [u8; 8] = [0x7F, 0x80, 0x8F, 0x90, 0x9F, 0xA0, 0xBF, 0xC0];
    for a in L {
        for b in C {
            for c in C {
                v.push(vec![a, b, c]);
                if a >= 0xF0 {
                    for d in [0x41u8, 0x80, 0xBF, 0xC0] {
                        v.push(vec![a, b, c, d]);
                    }
                }
            }
        }
    }
    if thorough {
        for a in 0..=255u8 {
            for b in 0..=255u8 {
                v.push(vec![a, b]);
            }
        }
    }
    let nrand = if thorough { 30000 } else { 300 };
    for _ in 0..nrand {
        let n = r.range(3, 9);
        let mut s = vec![];
        while (s.len() as u64) < n {
            match r.below(6) {
                0 => s.push(r.below(128) as u8),
                1 => s.extend_from_slice("é".as_bytes()),
                2 => s.extend_from_slice("€".as_bytes()),
                3 => s.extend_from_slice("😀".as_bytes()),
                4 => s.push(*r.pick(&B[..])),
                _ => s.push(r.below(256) as u8),
            }
        }
        if r.chance(1, 3) {
            let k = r.below(s.len() as u64) as usize;
            s.truncate(k + 1);
        }
        v.push(s);
    }
    v
}

// ------------------------------------------------------------------ decoder-level cases (text chunks)
fn run_decoder(chunks: &[String]) -> Vec<u64> {
    let mut d = SseDecoder::new();
    let mut evs: Vec<ParsedEvent> = vec![];
    for c in chunks {
        evs.extend(d.push(c));
    }
    evs.extend(d.finish());
    let mut out = vec![evs.len() as u64];
    for e in &evs {
        out.push(match e.kind {
            ParsedEventKind::Done => 0,
            ParsedEventKind::InvalidJson => 1,
            ParsedEventKind::Event => 2,
        });
        enc_ostr(&mut out, e.event.as_deref());
        enc_str(&mut out, &e.raw);
        enc_ojson(&mut out, e.data.as_ref());
        enc_strs(&mut out, &e.errors);
        enc_strs(&mut out, &e.response_errors);
        // the text delta the mapper derives
        let delta = match (&e.kind, &e.data) {
            (ParsedEventKind::Event, Some(v)) if v.is_object() && v.get("type").and_then(|t| t.as_str()) == Some("response.output_text.delta") => {
                v.get("delta").and_then(|d| d.as_str())
            }
            _ => None,
        };
        enc_ostr(&mut out, delta);
    }
    let mut m = EventFrameMapper::new("s");
    for e in &evs {
        for f in m.map(e) {
            enc_frame(&mut out, &f);
        }
    }
    out
}

type Expected = Vec<(Option<String>, String)>;
fn corpus() -> Vec<(PipeCase, Vec<usize>, Option<Expected>)> {
    let mk = |body: &[u8], cuts: &[usize]| (PipeCase { body: body.to_vec(), off: 0, compat: false, terr: None }, cuts.to_vec(), None);
    // with the events the body consists of: (SSE event name, payload = the joined data lines)
    let ev = |body: &str, off: u64, cuts: &[usize], exp: &[(Option<&str>, &str)]| {
        (
            PipeCase { body: body.as_bytes().to_vec(), off, compat: false, terr: None },
            cuts.to_vec(),
            Some(exp.iter().map(|(e, r)| (e.map(|x| x.to_string()), r.to_string())).collect::<Expected>()),
        )
    };
    let otd = Some(OTD);
    let deep = |n: usize| nested("[", "]", "", n);
    let d125 = format!("data: {}\n\ndata: {}\n\ndata: {}\n\n", deep(125), deep(126), deep(128));
    let mut all = vec![
        // S11 first half: E2 82 'A' with the boundary right before E2
        mk(b"data: x\xE2\x82A\n\n", &[7]),
        // S11 second half: an event after [DONE] in the same chunk / in the next one
        mk(b"data: [DONE]\n\ndata: x\n\n", &[14]),
        mk(b"data: {\"type\":\"response.output_text.delta\",\"delta\":\"\xE2\x82\xAC\"}\r\n\r\n", &[50, 51, 59]),
        mk(b"event: e\n\ndata: x\n\n", &[9]),
        mk(b"data: x\n\r", &[8]),
        // the delta comes from the payload's `delta` when its `type` says so: SSE event name that disagrees, keys in any
        // order, a duplicate key (the last one counts), escapes; not from `text`, not from a nested object
        ev(
            "event: response.created\ndata: {\"delta\":\"a\\u00e9\\n\",\"type\":\"response.output_text.delta\"}\n\nevent: response.output_text.delta\ndata: {\"type\":\"response.output_text.delta\",\"delta\":\"no\",\"text\":\"T\",\"delta\":\"b\"}\n\ndata: {\"type\":\"response.output_text.done\",\"text\":\"full\",\"delta\":\"x\"}\n\ndata: {\"x\":{\"type\":\"response.output_text.delta\",\"delta\":\"nested\"}}\n\n",
            3,
            &[40, 41, 120],
            &[
                (Some("response.created"), "{\"delta\":\"a\\u00e9\\n\",\"type\":\"response.output_text.delta\"}"),
                (otd, "{\"type\":\"response.output_text.delta\",\"delta\":\"no\",\"text\":\"T\",\"delta\":\"b\"}"),
                (None, "{\"type\":\"response.output_text.done\",\"text\":\"full\",\"delta\":\"x\"}"),
                (None, "{\"x\":{\"type\":\"response.output_text.delta\",\"delta\":\"nested\"}}"),
            ],
        ),
        // a payload without `type` under the event name of a text delta: no delta frame (the mapper reads the payload only)
        ev("event: response.output_text.delta\ndata: {\"delta\":\"typeless\"}\n\n", 0, &[10], &[(otd, "{\"delta\":\"typeless\"}")]),
        // text that is not JSON is passed through as it stands: inner and trailing blanks, a quote, what looks like JSON
        // followed by garbage; only the blanks after `data:` go
        ev(
            "data:   {not  json}  \n\ndata: \"a\"  x\t\n\ndata:{\"k\" : 1 ,}\n\ndata: [DONE] \n\ndata:[DONE]\n\n",
            0,
            &[5, 6, 30],
            &[(None, "{not  json}  "), (None, "\"a\"  x\t"), (None, "{\"k\" : 1 ,}"), (None, "[DONE] "), (None, "[DONE]")],
        ),
        // number spellings and key order are the Value's, everything else survives; a value over several data lines
        ev(
            "data: {\"b\": [1.0, 1e2, -0, 18446744073709551616, 18446744073709551615, -9223372036854775808],\ndata: \"a\":{\"z\":null,\"y\":true,\"z\":false}}\n\n",
            1 << 40,
            &[7, 60],
            &[(None, "{\"b\": [1.0, 1e2, -0, 18446744073709551616, 18446744073709551615, -9223372036854775808],\n\"a\":{\"z\":null,\"y\":true,\"z\":false}}")],
        ),
        // nesting: 125 levels is the deepest event, 126 / 128 levels are kept as text
        ev(&d125, 0, &[200], &[(None, &deep(125)), (None, &deep(126)), (None, &deep(128))]),
        // numbering right below 2^64: two frames end at u64::MAX
        ev("data: {\"type\":\"response.output_text.delta\",\"delta\":\"z\"}\n\n", u64::MAX - 2, &[3], &[(None, "{\"type\":\"response.output_text.delta\",\"delta\":\"z\"}")]),
    ];
    // compat validation: ids are made up for the VALIDATORS only (function_call by call_id / index, function_call_output
    // by output_<call_id> / output_<index>, response.output items by position, function_call_arguments events by
    // item_<output_index>); the frames carry the payload as it came
    {
        let payloads = [
            "{\"type\":\"response.output_item.added\",\"sequence_number\":1,\"output_index\":2,\"item\":{\"type\":\"function_call\",\"call_id\":\"c1\",\"name\":\"ls\",\"arguments\":\"{}\",\"status\":\"completed\"}}",
            "{\"type\":\"response.output_item.done\",\"sequence_number\":2,\"output_index\":2,\"item\":{\"id\":\"\",\"type\":\"function_call\",\"name\":\"ls\",\"arguments\":\"{}\",\"status\":\"completed\"}}",
            "{\"type\":\"response.output_item.done\",\"sequence_number\":3,\"output_index\":1.0,\"item\":{\"type\":\"function_call_output\",\"call_id\":\"c1\",\"output\":\"o\"}}",
            "{\"type\":\"response.output_item.done\",\"sequence_number\":4,\"output_index\":7,\"item\":{\"type\":\"function_call_output\",\"call_id\":\"\",\"output\":\"o\"}}",
            "{\"type\":\"response.completed\",\"sequence_number\":5,\"response\":{\"id\":\"resp_1\",\"output\":[{\"type\":\"function_call\",\"name\":\"a\",\"arguments\":\"\"},{\"id\":\"keep\",\"type\":\"function_call\",\"name\":\"b\",\"arguments\":\"\"},{\"type\":\"function_call_output\",\"call_id\":\"c2\",\"output\":\"\"},{\"type\":\"message\"}]}}",
            "{\"type\":\"response.function_call_arguments.delta\",\"sequence_number\":6,\"output_index\":3,\"delta\":\"{\"}",
            "{\"type\":\"response.function_call_arguments.done\",\"sequence_number\":7,\"output_index\":3,\"item_id\":\"\",\"arguments\":\"{}\"}",
            "{\"type\":\"response.function_call_arguments.done\",\"sequence_number\":8,\"item_id\":7,\"arguments\":\"{}\"}",
        ];
        let body: String = payloads.iter().map(|p| format!("data: {p}\n\n")).collect();
        let exp: Vec<(Option<&str>, &str)> = payloads.iter().map(|p| (None, *p)).collect();
        for (compat, cuts) in [(true, [100usize, 500]), (false, [300, 301])] {
            let mut c = ev(&body, 0, &cuts, &exp);
            c.0.compat = compat;
            all.push(c);
        }
    }
    all
}

/// set while the harness provokes a u64 overflow on purpose: the panic message is not printed then
static EXPECT_PANIC: std::sync::atomic::AtomicBool = std::sync::atomic::AtomicBool::new(false);
fn expecting_panic<T>(f: impl FnOnce() -> T) -> T {
    EXPECT_PANIC.store(true, std::sync::atomic::Ordering::SeqCst);
    let r = f();
    EXPECT_PANIC.store(false, std::sync::atomic::Ordering::SeqCst);
    r
}

fn main() {
    std::panic::set_hook(Box::new(|info| {
        if !EXPECT_PANIC.load(std::sync::atomic::Ordering::SeqCst) {
            eprintln!("c15: panic in the implementation: {info}");
        }
    }));
    let a = parse_args();
    let mut res = RunResult::new("C15", &a);
    res.rule = "cases = (SSE body from a grammar: LF/CRLF/mixed, comments, event names, unknown fields, multi-line data, [DONE] in the middle, missing final blank line, CR-only tail, truncation, 2-4 byte characters, injected invalid/overlong/surrogate/truncated sequences) x (partition: one chunk, every single split, byte at a time, random cuts incl. empty chunks) for the real pipe; text-chunk cases for SseDecoder+mapper; byte strings for from_utf8. non-trivial = body with >= 1 event and a partition with >= 2 chunks (or a from_utf8 error). distinct by hash of (body, cuts)".into();
    let run = Runner::new();
    let mut r = Rng::new(a.seed);
    let thorough = a.thorough();
    let mut w = CaseWriter::new(&a.out, "Model.SseJson", "check_case", "model_obs", 60);
    let mut distinct = Distinct::default();

    // ---- replay of one recorded case
    if let Some(rp) = &a.replay {
        if let Ok(txt) = std::fs::read_to_string(rp) {
            if let Ok(v) = serde_json::from_str::<Value>(&txt) {
                let c = v.get("case").cloned().unwrap_or(v.clone());
                if let Some(h) = c.get("body_hex").and_then(|h| h.as_str()) {
                    let body = hex::decode(h).unwrap_or_default();
                    let cuts: Vec<usize> = c.get("cuts").and_then(|x| x.as_array()).map(|x| x.iter().filter_map(|y| y.as_u64().map(|z| z as usize)).collect()).unwrap_or_default();
                    let pc = PipeCase { body, off: c.get("seq_offset").and_then(|x| x.as_u64()).unwrap_or(0), compat: false, terr: None };
                    res.oracle_checks += 1;
                    if let Some((cuts, what)) = find_variant(&run, &pc, &[cuts]) {
                        res.oracle_violations.push(OracleViolation { case_id: -1, what, class: "chunking_variant_frames".into(), replay: case_json(&pc, &cuts) });
                    }
                }
            }
        }
    }

    // ---- pipe level
    // does this build check u64 overflow?  (a frame numbered from u64::MAX: `*seq += 1` panics iff it does)
    let overflow_checks = expecting_panic(|| std::panic::catch_unwind(std::panic::AssertUnwindSafe(|| run.pipe(&[b"data: x\n\n".to_vec()], u64::MAX, false, None))).is_err());
    res.bump(if overflow_checks { "build.overflow_checks_on" } else { "build.overflow_checks_off" });
    let nbodies = if thorough { 12000 } else { 450 };
    let mut bodies: Vec<(Body, PipeCase, Option<Vec<usize>>)> = vec![];
    for (pc, cuts, expected) in corpus() {
        bodies.push((Body { bytes: pc.body.clone(), expected, tags: vec!["corpus"] }, pc, Some(cuts)));
    }
    for _ in 0..nbodies {
        let mut b = gen_body(&mut r);
        let compat = r.chance(1, 3);
        let terr = if r.chance(1, 10) { Some("connection reset by peer".to_string()) } else { None };
        // seq offsets: small, large, and right below 2^64: with n frames, u64::MAX - n is the largest offset whose
        // numbering still fits (`*seq` ends at u64::MAX); one more overflows `*seq += frame_count`
        let mut off = *r.pick(&[0u64, 0, 1, 7, 1000, 1 << 40, u64::MAX >> 1]);
        if r.chance(1, 6) {
            let n = std::panic::catch_unwind(std::panic::AssertUnwindSafe(|| run.pipe(&[b.bytes.clone()], 0, compat, terr.as_deref()).0.len() as u64)).unwrap_or(0);
            let d = *r.pick(&[0u64, 0, 0, 1, 2, 5]);
            off = u64::MAX - n - d;
            if overflow_checks && r.chance(1, 3) {
                off = (u64::MAX - n).saturating_add(*r.pick(&[1u64, 1, 2, 1000]));
            }
            b.tags.push("offset-near-u64-max");
        }
        let pc = PipeCase { body: b.bytes.clone(), off, compat, terr };
        // a stream that breaks with a transport error is never finish()ed: the event whose blank line was cut
        // short (CR-only tail) is an incomplete event then, not one the provider sent
        if pc.terr.is_some() && b.tags.contains(&"cr-only-tail") {
            if let Some(e) = b.expected.as_mut() {
                e.pop();
            }
        }
        bodies.push((b, pc, None));
    }
    for (b, pc, fixed_cuts) in &bodies {
        let n = pc.body.len();
        let mut parts = partitions(&mut r, n, n <= 160 || thorough);
        if let Some(c) = fixed_cuts {
            parts.insert(0, c.clone());
        }
        res.evaluations += 1;
        for t in &b.tags {
            res.bump(t);
        }
        res.bump(&format!("body_len={}", match n { 0..=20 => "0-20", 21..=80 => "21-80", 81..=200 => "81-200", _ => "200+" }));
        // tables for the model (independent of any chunked run)
        let text = harness_lossy(&pc.body);
        let extra: Vec<String> = b.expected.as_ref().map(|e| e.iter().map(|x| x.1.clone()).collect()).unwrap_or_default();
        let (table, problems) = if a.oracle_only() { (Tables::default(), vec![]) } else { tables_for(&text, pc.compat, &extra) };

        // the number of frames this body gives from offset 0 decides whether the numbering fits into u64
        let n_frames = std::panic::catch_unwind(std::panic::AssertUnwindSafe(|| run.pipe(&[pc.body.clone()], 0, pc.compat, pc.terr.as_deref()).0.len() as u64));
        let Ok(n_frames) = n_frames else {
            res.impl_panics += 1;
            res.oracle_violations.push(OracleViolation { case_id: -1, what: "OpenResponsesSsePipe panicked".into(), class: "panic".into(), replay: case_json(pc, &[]) });
            continue;
        };
        if pc.off.checked_add(n_frames).is_none() {
            // out of the stated domain (seq_offset + frames < 2^64): the u64 additions overflow; with overflow checks
            // the pipe panics (recorded, dispositioned in notes/sse15.md — not a violation), and the model says so
            res.bump("seq_overflow.cases");
            res.oracle_checks += 1;
            let cuts = parts[parts.len() - 1].clone();
            let chunks = split_at_cuts(&pc.body, &cuts);
            let panicked = expecting_panic(|| std::panic::catch_unwind(std::panic::AssertUnwindSafe(|| run.pipe(&chunks, pc.off, pc.compat, pc.terr.as_deref()))).is_err());
            res.bump(if panicked { "seq_overflow.panicked" } else { "seq_overflow.wrapped" });
            if panicked != overflow_checks {
                res.oracle_violations.push(OracleViolation { case_id: -1, what: format!("offset {} + {} frames exceeds u64: expected {} but the pipe {}", pc.off, n_frames, if overflow_checks { "an overflow panic" } else { "wrapping" }, if panicked { "panicked" } else { "did not panic" }), class: "seq_overflow_unexpected".into(), replay: case_json(pc, &cuts) });
            }
            if !a.oracle_only() && panicked {
                let term = format!("CPipe {} {} {} {} [99]", table.coq(), pc.off, coq_list(&chunks, |c| coq_bytes(c)), coq_opt(&pc.terr, |e| coq_str(e)));
                let id = w.push(term);
                if res.case_index.len() < 3000 {
                    res.case_index.insert(id.to_string(), case_json(pc, &cuts));
                }
            }
            continue;
        }
        res.oracle_checks += parts.len() as u64;
        let pc2 = pc.clone();
        let parts2 = parts.clone();
        let got = std::panic::catch_unwind(std::panic::AssertUnwindSafe(|| {
            let v = find_variant(&run, &pc2, &parts2);
            let (f0, s0) = run.pipe(&[pc2.body.clone()], pc2.off, pc2.compat, pc2.terr.as_deref());
            (v, f0, s0)
        }));
        match got {
            Err(_) => {
                res.impl_panics += 1;
                res.oracle_violations.push(OracleViolation { case_id: -1, what: "OpenResponsesSsePipe panicked".into(), class: "panic".into(), replay: case_json(pc, &[]) });
                continue;
            }
            Ok((variant, f0, s0)) => {
                let mut flagged = false;
                let mut viol: Vec<(String, String, Value)> = vec![];
                let mut ids: Vec<usize> = vec![];
                if let Some((cuts, _)) = variant {
                    // shrink the body while some single split / bytewise partition still disagrees
                    let base = pc.clone();
                    let small = shrink_vec(pc.body.clone(), |bs| {
                        let mut c = base.clone();
                        c.body = bs.to_vec();
                        c.off = c.off.min(1 << 40);
                        let mut ps: Vec<Vec<usize>> = (0..=bs.len()).map(|i| vec![i]).collect();
                        ps.push((1..bs.len()).collect());
                        std::panic::catch_unwind(std::panic::AssertUnwindSafe(|| find_variant(&run, &c, &ps).is_some())).unwrap_or(false)
                    });
                    let mut c = pc.clone();
                    c.body = small.clone();
                    c.off = c.off.min(1 << 40);
                    let mut ps: Vec<Vec<usize>> = (0..=small.len()).map(|i| vec![i]).collect();
                    ps.push((1..small.len()).collect());
                    let (cuts2, what) = find_variant(&run, &c, &ps).unwrap_or((cuts.clone(), "frames differ between partitions".into()));
                    viol.push((format!("frames depend on the chunking: {what}"), "chunking_variant_frames".into(), case_json(&c, &cuts2)));
                    flagged = true;
                }
                res.oracle_checks += 2;
                if let Some((what, class)) = check_expected(&f0, s0, pc, b.expected.as_ref()) {
                    if !flagged {
                        viol.push((what, class, case_json(pc, &[])));
                    }
                }
                let (ex, diverged) = check_extractor(&f0);
                if diverged {
                    res.bump("extractor_vs_mapper.typeless_payload_under_delta_event_name");
                }
                if let Some((what, class)) = ex {
                    if !flagged {
                        viol.push((what, class, case_json(pc, &[])));
                    }
                }
                if !a.oracle_only() {
                    // model comparison: byte at a time (or the corpus cut) and one random partition
                    for p in problems {
                        viol.push((p, "classification_mismatch".into(), case_json(pc, &[])));
                    }
                    let chosen: Vec<Vec<usize>> = vec![parts[0].clone(), parts[parts.len() - 1 - (r.below(6) as usize)].clone()];
                    for cuts in chosen {
                        let chunks = split_at_cuts(&pc.body, &cuts);
                        let (f, s) = run.pipe(&chunks, pc.off, pc.compat, pc.terr.as_deref());
                        let mut exp = vec![s, f.len() as u64];
                        exp.extend(canon_frames(&f));
                        enc_strs(&mut exp, &rip_provider_openresponses::extract_text_deltas(&f));
                        let term = format!("CPipe {} {} {} {} {}", table.coq(), pc.off, coq_list(&chunks, |c| coq_bytes(c)), coq_opt(&pc.terr, |e| coq_str(e)), coq_list_n(&exp));
                        let id = w.push(term);
                        ids.push(id);
                        if res.case_index.len() < 3000 {
                            res.case_index.insert(id.to_string(), case_json(pc, &cuts));
                        }
                        if !f.is_empty() && chunks.len() >= 2 {
                            distinct.add(&format!("{:?}{:?}", pc.body, cuts));
                        }
                    }
                }
                for (what, class, replay) in viol {
                    if ids.is_empty() {
                        res.oracle_violations.push(OracleViolation { case_id: -1, what, class, replay });
                    } else {
                        for id in &ids {
                            res.oracle_violations.push(OracleViolation { case_id: *id as i64, what: what.clone(), class: class.clone(), replay: replay.clone() });
                        }
                    }
                }
                if res.samples.len() < 3 && !f0.is_empty() && n > 30 {
                    res.samples.push(case_json(pc, &parts[parts.len() - 1]));
                }
            }
        }
    }

    if !a.oracle_only() {
        // ---- decoder level: text chunks of the lossy text of fresh bodies
        let ndec = if thorough { 3000 } else { 150 };
        for _ in 0..ndec {
            let b = gen_body(&mut r);
            let text = harness_lossy(&b.bytes);
            let chars: Vec<char> = text.chars().collect();
            let k = r.range(0, 5);
            let mut cuts: Vec<usize> = (0..k).map(|_| r.below(chars.len() as u64 + 1) as usize).collect();
            cuts.sort();
            let mut chunks: Vec<String> = vec![];
            let mut prev = 0;
            for c in cuts.iter().chain(std::iter::once(&chars.len())) {
                chunks.push(chars[prev..*c].iter().collect());
                prev = *c;
            }
            if r.chance(1, 5) {
                chunks = chars.iter().map(|c| c.to_string()).collect();
            }
            res.evaluations += 1;
            let ch2 = chunks.clone();
            let Ok(exp) = std::panic::catch_unwind(move || run_decoder(&ch2)) else {
                res.impl_panics += 1;
                res.oracle_violations.push(OracleViolation { case_id: -1, what: "SseDecoder panicked".into(), class: "panic".into(), replay: json!({"chunks": chunks}) });
                continue;
            };
            // O1 at the library level
            res.oracle_checks += 1;
            let whole = run_decoder(&[text.clone()]);
            if whole != exp {
                res.oracle_violations.push(OracleViolation { case_id: -1, what: "SseDecoder events depend on the chunking".into(), class: "chunking_variant_frames".into(), replay: json!({"chunks": chunks}) });
            }
            let (table, _) = tables_for(&text, false, &[]);
            let id = w.push(format!("CDec {} {} {}", table.coq(), coq_list(&chunks, |c| coq_str(c)), coq_list_n(&exp)));
            if res.case_index.len() < 4000 {
                res.case_index.insert(id.to_string(), json!({"decoder_chunks": chunks}));
            }
            res.bump("decoder-level");
        }
        // ---- from_utf8
        for s in utf8_strings(&mut r, thorough) {
            res.evaluations += 1;
            let exp = enc_from_utf8(&s);
            let id = w.push(format!("CUtf8 {} {}", coq_bytes(&s), coq_list_n(&exp)));
            if res.case_index.len() < 6000 {
                res.case_index.insert(id.to_string(), json!({"from_utf8_hex": hex::encode(&s)}));
            }
            if exp[0] == 1 {
                distinct.add(&format!("u{:?}", s));
            }
            res.bump("from_utf8");
        }
    }
    w.flush();
    res.distinct_nontrivial = distinct.count();
    res.case_files = w.files.iter().map(|p| p.display().to_string()).collect();
    res.write(&a.out);
    println!("c15: {} evaluations, {} oracle checks, {} distinct non-trivial, {} oracle violations, {} panics", res.evaluations, res.oracle_checks, res.distinct_nontrivial, res.oracle_violations.len(), res.impl_panics);
}
