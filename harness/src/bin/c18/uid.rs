//! C18, fourth wave: the REAL liveness probe (`kill(pid, 0)` and its classification) and the real recovery between
//! processes of DIFFERENT uids and pid namespaces.  Everything else in c18.rs scripts the liveness answers per pid
//! (`ripd::verif::authority::set_liveness`), so the probe itself — part of the decision "this authority is gone" — was
//! exercised once (a reaped child, same uid).  Here:
//! * `real_probe`: the real `pid_liveness`, called by this process and by a re-executed helper running as uid 65534, on
//!   pids whose existence / signalability the harness knows: compared with Model/AuthorityProbe.v (`liveness_of
//!   full_probe_table (kill0 exists permitted)`) inside Coq; oracle: an existing process is never Dead, a reaped one is.
//! * `other_uid`: the real `rip serve` / `rip threads ensure` as uid 65534 against a live root-owned authority on a
//!   shared (umask 0) store — fabricated (lock.json of this live process, endpoint silent) and real (`rip serve`,
//!   SIGSTOPped): lock.json must keep the authority's pid.
//! * `other_pid_namespace`: the real client in another pid namespace (`unshare --pid --fork`) against a real, answering
//!   authority: both files must stay.
//! Not root / no `unshare` / helper not executable by uid 65534 ⇒ that part is skipped with a note (never a failure).
use super::*;
use std::os::unix::fs::PermissionsExt;
use std::os::unix::process::CommandExt;
use std::process::{Child, Command, Stdio};

pub const NOBODY: u32 = 65534;
const SIGSTOP: i32 = 19;
const SIGCONT: i32 = 18;

pub fn live_code(l: PidLiveness) -> u64 {
    match l {
        PidLiveness::Alive => 1,
        PidLiveness::Dead => 0,
        PidLiveness::Unknown => 2,
    }
}
fn live_name(c: u64) -> &'static str {
    match c {
        1 => "Alive",
        0 => "Dead",
        _ => "Unknown",
    }
}
pub fn euid() -> u32 {
    unsafe { libc::geteuid() }
}

/// `c18 --c18-probe <pid|self>..` — re-executed by the harness under another uid: the answers of the real pid_liveness
pub fn probe_helper_main(args: &[String]) -> ! {
    println!("uid {}", euid());
    for a in args {
        let pid: u32 = if a == "self" { std::process::id() } else { a.parse().unwrap_or(0) };
        println!("probe {a} {pid} {}", live_code(ripd::pid_liveness(pid)));
    }
    std::process::exit(0)
}

/// real / effective / saved uid of a process (None: no such process)
fn proc_uids(pid: u32) -> Option<(u32, u32, u32)> {
    let s = std::fs::read_to_string(format!("/proc/{pid}/status")).ok()?;
    let l = s.lines().find(|l| l.starts_with("Uid:"))?;
    let v: Vec<u32> = l.split_whitespace().skip(1).filter_map(|x| x.parse().ok()).collect();
    Some((*v.first()?, *v.get(1)?, *v.get(2)?))
}
/// kill(2): the sender is privileged, or its real or effective uid equals the real or saved set-user-ID of the target
fn may_signal(sender_uid: u32, target: u32) -> Option<bool> {
    let (r, _e, s) = proc_uids(target)?;
    Some(sender_uid == 0 || sender_uid == r || sender_uid == s)
}

struct ProbeObs {
    caller: String,
    target: String,
    pid: u32,
    exists: bool,
    permitted: bool,
    code: u64,
}

pub fn real_probe(res: &mut RunResult, out: &Path, write_cases: bool) -> Vec<String> {
    let mut files = vec![];
    let me = std::process::id();
    let my_uid = euid();
    let mut child = Command::new("true").spawn().expect("spawn true");
    let dead = child.id();
    let _ = child.wait();
    for p in [me, 1, dead] {
        hk::set_liveness(p, None);
    }
    let mut obs: Vec<ProbeObs> = vec![];
    // this process asks
    let caller = format!("harness (uid {my_uid})");
    obs.push(ProbeObs { caller: caller.clone(), target: "the calling process itself".into(), pid: me, exists: true, permitted: true, code: live_code(ripd::pid_liveness(me)) });
    if let Some(p) = may_signal(my_uid, 1) {
        obs.push(ProbeObs { caller: caller.clone(), target: "pid 1".into(), pid: 1, exists: true, permitted: p, code: live_code(ripd::pid_liveness(1)) });
    }
    obs.push(ProbeObs { caller, target: "a reaped child".into(), pid: dead, exists: false, permitted: true, code: live_code(ripd::pid_liveness(dead)) });
    // a helper of another uid asks (needs root to become uid 65534)
    if my_uid == 0 {
        let exe = std::env::current_exe().expect("current_exe");
        let r = Command::new(&exe).arg("--c18-probe").args(["self", "1", &me.to_string(), &dead.to_string()]).uid(NOBODY).gid(NOBODY).stdin(Stdio::null()).stderr(Stdio::null()).output();
        match r {
            Ok(o) if o.status.success() => {
                let text = String::from_utf8_lossy(&o.stdout).to_string();
                let uid_ok = text.lines().any(|l| l == format!("uid {NOBODY}"));
                if !uid_ok {
                    res.notes.push(format!("real_probe: the helper did not run as uid {NOBODY} ({text:?}) — other-uid probes skipped"));
                } else {
                    let caller = format!("helper (uid {NOBODY})");
                    for l in text.lines() {
                        let w: Vec<&str> = l.split_whitespace().collect();
                        if w.len() != 4 || w[0] != "probe" {
                            continue;
                        }
                        let (pid, code): (u32, u64) = (w[2].parse().unwrap_or(0), w[3].parse().unwrap_or(9));
                        match w[1] {
                            "self" => obs.push(ProbeObs { caller: caller.clone(), target: "the calling process itself".into(), pid, exists: true, permitted: true, code }),
                            "1" => {
                                if let Some(p) = may_signal(NOBODY, 1) {
                                    obs.push(ProbeObs { caller: caller.clone(), target: "pid 1 (another uid's)".into(), pid, exists: true, permitted: p, code });
                                }
                            }
                            x if x == me.to_string() => obs.push(ProbeObs { caller: caller.clone(), target: "the live root-owned harness process".into(), pid, exists: true, permitted: false, code }),
                            _ => obs.push(ProbeObs { caller: caller.clone(), target: "a reaped child".into(), pid, exists: false, permitted: true, code }),
                        }
                    }
                }
            }
            Ok(o) => res.notes.push(format!("real_probe: the uid-{NOBODY} helper ended {:?} — other-uid probes skipped", o.status)),
            Err(e) => res.notes.push(format!("real_probe: could not run {} as uid {NOBODY}: {e} — other-uid probes skipped", exe.display())),
        }
    } else {
        res.notes.push(format!("real_probe: the harness runs as uid {my_uid}, not root: probes by a helper of another uid skipped (pid 1 probed by this process instead)"));
    }
    // pid_max is small here: the reaped pid may have been handed out again
    if std::path::Path::new(&format!("/proc/{dead}")).exists() {
        res.notes.push(format!("real_probe: reaped pid {dead} already reused, its probes are skipped"));
        obs.retain(|o| o.pid != dead);
    }
    for o in &obs {
        res.evaluations += 1;
        res.oracle_checks += 1;
        res.bump("kind=real_probe");
        res.bump(&format!("probe={}_{}_{}", if o.exists { "exists" } else { "gone" }, if o.permitted { "permitted" } else { "not_permitted" }, live_name(o.code)));
        let bad = if o.exists && o.code == 0 {
            Some("pid_probe_reports_existing_process_dead")
        } else if !o.exists && o.code != 0 {
            Some("pid_probe_does_not_recognise_gone_process")
        } else {
            None
        };
        if let Some(class) = bad {
            res.bump(&format!("finding={class}"));
            res.oracle_violations.push(OracleViolation {
                case_id: 200_000,
                what: format!("ripd::pid_liveness({}) asked by the {} about {} (the process {}; the caller {} signal it) answered {} — recovery treats exactly `Dead` as \"this authority is gone\"", o.pid, o.caller, o.target, if o.exists { "EXISTS" } else { "does not exist" }, if o.permitted { "may" } else { "may NOT" }, live_name(o.code)),
                class: class.into(),
                replay: json!({"real_probe": "ripd::pid_liveness", "caller": o.caller, "target": o.target, "pid": o.pid, "exists": o.exists, "caller_may_signal": o.permitted, "answer": live_name(o.code),
                               "how": format!("run `c18 --c18-probe {}` as the caller's uid (setuid/setgid {NOBODY} for the helper)", o.pid)}),
            });
        }
    }
    if write_cases && !obs.is_empty() {
        let mut w = CaseWriter::new(&out.join("probe"), "Model.AuthorityProbe", "check_case", "model_obs", 150).with_base(200_000);
        let probes = obs.iter().map(|o| format!("{{| pc_exists := {}; pc_permitted := {} |}}", coq_bool(o.exists), coq_bool(o.permitted))).collect::<Vec<_>>().join("; ");
        let exp: Vec<u64> = obs.iter().map(|o| o.code).collect();
        let id = w.push(format!("{{| c_table := full_probe_table; c_probes := [{probes}]; c_expect := {} |}}", coq_list_n(&exp)));
        res.case_index.insert(id.to_string(), json!({"real_probe": obs.iter().map(|o| json!({"caller": o.caller, "target": o.target, "pid": o.pid, "exists": o.exists, "caller_may_signal": o.permitted, "answer": live_name(o.code)})).collect::<Vec<_>>()}));
        w.flush();
        files = w.files.iter().map(|p| p.display().to_string()).collect();
    }
    files
}

// ------------------------------------------------------------------ a store shared between uids
fn chmod(p: &Path, mode: u32) {
    let _ = std::fs::set_permissions(p, std::fs::Permissions::from_mode(mode));
}
/// leftover files as given, every directory 0777 and every file 0666 (what a umask-0 authority leaves)
fn shared_store(lock: &LockF, meta: Option<(u64, &str)>) -> (Scratch, PathBuf, PathBuf) {
    let (sc, data, ws) = fresh_store(lock, &MetaF::Absent);
    if let Some((pid, endpoint)) = meta {
        std::fs::write(ripd::authority_meta_path(&data), json!({"endpoint": endpoint, "pid": pid, "started_at_ms": 1021, "workspace_root": ws.to_string_lossy()}).to_string()).unwrap();
    }
    for d in [sc.path().to_path_buf(), data.clone(), ripd::authority_dir(&data), ws.clone()] {
        chmod(&d, 0o777);
    }
    for f in [ripd::authority_lock_path(&data), ripd::authority_meta_path(&data)] {
        if f.exists() {
            chmod(&f, 0o666);
        }
    }
    (sc, data, ws)
}
fn rip_cmd(rip: &Path, args: &[&str], data: &Path, ws: &Path, home: &Path, log: &Path) -> Command {
    let mut c = Command::new(rip);
    let f = std::fs::OpenOptions::new().create(true).append(true).open(log).expect("log file");
    chmod(log, 0o666);
    c.args(args).env("RIP_DATA_DIR", data).env("RIP_WORKSPACE_ROOT", ws).env("RIP_SERVER_ADDR", "127.0.0.1:0").env("HOME", home).env("RUST_BACKTRACE", "0").current_dir(ws)
        .stdin(Stdio::null()).stdout(Stdio::null()).stderr(Stdio::from(f));
    c
}
fn as_nobody(c: &mut Command) -> &mut Command {
    c.uid(NOBODY).gid(NOBODY)
}
fn umask0(c: &mut Command) -> &mut Command {
    unsafe {
        c.pre_exec(|| {
            libc::umask(0);
            Ok(())
        })
    }
}
fn tail(p: &Path) -> String {
    let s = std::fs::read_to_string(p).unwrap_or_default();
    let s = s.trim();
    let start = s.len().saturating_sub(400);
    let mut i = start;
    while !s.is_char_boundary(i) {
        i += 1;
    }
    s[i..].replace('\n', " | ")
}
fn stop_child(child: &mut Child) {
    let _ = child.kill();
    let _ = child.wait();
}

/// waits until the contender has ended or lock.json no longer carries `holder`'s record; generous watchdog.
/// -> (exit status if it ended, lock code when the wait ended, ms until lock.json changed)
fn watch(child: &mut Child, data: &Path, holder: u64, secs: u64) -> (Option<String>, u64, Option<u128>) {
    let t0 = Instant::now();
    // (the harness is a subreaper and `reap_orphans` waits for ANY child: a child it has reaped already answers ECHILD here)
    let ended = |child: &mut Child| -> Option<String> {
        match child.try_wait() {
            Ok(Some(st)) => Some(format!("{st:?}")),
            Ok(None) => None,
            Err(_) => Some("ended (status collected by the orphan reaper)".to_string()),
        }
    };
    loop {
        let l = data_lock(data);
        if l != 2 + holder {
            return (ended(child), l, Some(t0.elapsed().as_millis()));
        }
        if let Some(st) = ended(child) {
            let l = data_lock(data);
            return (Some(st), l, if l != 2 + holder { Some(t0.elapsed().as_millis()) } else { None });
        }
        if t0.elapsed() > Duration::from_secs(secs) {
            return (None, l, None);
        }
        std::thread::sleep(Duration::from_millis(20));
    }
}

/// kill whatever authority now owns the store (never `keep`)
fn kill_new_owner(data: &Path, keep: &[u64]) {
    for code in [data_lock(data), meta_file(&ripd::authority_meta_path(data))] {
        if code >= 2 && !keep.contains(&(code - 2)) && code - 2 > 1 {
            unsafe { kill((code - 2) as i32, SIGKILL) };
        }
    }
}

const CLASS_UID: &str = "contender_of_another_uid_takes_lock_of_live_authority";

fn judge_contender(res: &mut RunResult, scenario: &str, who: &str, holder: u64, holder_desc: &str, st: Option<String>, lock_after: u64, changed_ms: Option<u128>, log: &Path, expect_in_log: &str, schedule: Vec<String>) -> bool {
    res.evaluations += 1;
    res.oracle_checks += 1;
    res.bump(&format!("kind=other_uid_{scenario}"));
    if let Some(ms) = changed_ms {
        res.bump(&format!("finding={CLASS_UID}"));
        res.oracle_violations.push(OracleViolation {
            case_id: -1,
            what: format!("{scenario}: {who} on the shared store of {holder_desc} (pid {holder}, ALIVE, owned by another uid — the contender may not signal it: kill(pid, 0) = EPERM): {ms} ms after its start lock.json no longer carried pid {holder}'s record (lock code now {lock_after}: 0 = removed, 1 = fresh empty lock, 2+pid = record of pid); the contender's output: {}", tail(log)),
            class: CLASS_UID.into(),
            replay: json!({"real_processes": scenario, "contender": who, "authority_pid": holder, "authority": holder_desc, "schedule": schedule}),
        });
        return false;
    }
    match st {
        None => res.notes.push(format!("other_uid {scenario}: {who} had neither ended nor touched lock.json after 240 s — not judged")),
        Some(st) => {
            let t = tail(log);
            if !std::fs::read_to_string(log).unwrap_or_default().contains(expect_in_log) {
                res.notes.push(format!("other_uid {scenario}: {who} ended {st} without the expected refusal `{expect_in_log}` (output: {t}) — lock.json intact, recovery decision possibly not reached"));
            }
        }
    }
    true
}

/// the client `rip threads ensure` as uid 65534 against the fabricated files of a live root-owned authority whose endpoint
/// is silent: started early (it waits out its own 8 s budget), judged by `finish_client_other_uid` at the end of the run
pub struct PendingClient {
    sc: Scratch,
    data: PathBuf,
    log: PathBuf,
    child: Child,
    holder: u64,
}
pub fn start_client_other_uid(res: &mut RunResult) -> Option<PendingClient> {
    let rip = rip_bin();
    if euid() != 0 || !rip.exists() {
        return None;
    }
    let me = std::process::id() as u64;
    let (sc, data, ws) = shared_store(&LockF::Rec(me), Some((me, "http://127.0.0.1:1")));
    let log = sc.path().join("client.log");
    match as_nobody(&mut rip_cmd(&rip, &["threads", "ensure"], &data, &ws, sc.path(), &log)).spawn() {
        Ok(child) => Some(PendingClient { sc, data, log, child, holder: me }),
        Err(e) => {
            res.notes.push(format!("other_uid client: could not run {} as uid {NOBODY}: {e} — skipped", rip.display()));
            None
        }
    }
}
pub fn finish_client_other_uid(res: &mut RunResult, p: Option<PendingClient>) {
    let Some(mut p) = p else { return };
    let (st, lock_after, changed) = watch(&mut p.child, &p.data, p.holder, 240);
    let schedule = vec![
        format!("store with directories 0777: authority/lock.json and authority/meta.json carry pid {} (this live root-owned process), endpoint http://127.0.0.1:1 (silent)", p.holder),
        format!("run `rip threads ensure` with uid/gid {NOBODY} on that store; watch lock.json until the command ends"),
    ];
    judge_contender(res, "client_vs_silent_live_authority", &format!("`rip threads ensure` (uid {NOBODY})"), p.holder, "a live root-owned process holding lock.json and meta.json (endpoint silent)", st, lock_after, changed, &p.log, "timed out waiting for local authority", schedule);
    stop_child(&mut p.child);
    kill_new_owner(&p.data, &[p.holder]);
    reap_orphans(200);
    drop(p.sc);
}

/// `rip serve` (as uid 65534 when `switch_uid`, else as the current user) on a store whose lock.json carries the pid of a live
/// process of ANOTHER uid (`holder`), no meta.json.  -> false: the contender could not be started
fn server_vs_starting_live_authority(res: &mut RunResult, rip: &Path, holder: u64, switch_uid: bool) -> bool {
    let (sc, data, ws) = shared_store(&LockF::Rec(holder), None);
    let log = sc.path().join("b.log");
    let mut cmd = rip_cmd(rip, &["serve"], &data, &ws, sc.path(), &log);
    if switch_uid {
        as_nobody(&mut cmd);
    }
    let who_uid = if switch_uid { NOBODY } else { euid() };
    match cmd.spawn() {
        Ok(mut b) => {
            let (st, lock_after, changed) = watch(&mut b, &data, holder, 240);
            let schedule = vec![
                format!("store with directories 0777: authority/lock.json carries pid {holder} (a live process of another uid), no meta.json"),
                format!("run `rip serve` with uid {who_uid} on that store; watch lock.json until it ends"),
            ];
            judge_contender(res, "server_vs_starting_live_authority", &format!("`rip serve` (pid {}, uid {who_uid})", b.id()), holder, "a live process of another uid holding lock.json, no meta.json yet", st, lock_after, changed, &log, "store already has an authority", schedule);
            stop_child(&mut b);
            kill_new_owner(&data, &[holder, std::process::id() as u64]);
            true
        }
        Err(e) => {
            res.notes.push(format!("other_uid: could not run {} as uid {who_uid}: {e} — skipped", rip.display()));
            false
        }
    }
}

/// server-side contenders of another uid, and the client of another pid namespace
pub fn other_uid_and_namespace(res: &mut RunResult) {
    let rip = rip_bin();
    if !rip.exists() {
        return;
    }
    let me = std::process::id() as u64;
    if euid() != 0 {
        // not root: no contender of another uid can be started, but pid 1 is a live process of another uid that this user may
        // not signal — the contender is `rip serve` as the current user, the "authority" is pid 1
        if may_signal(euid(), 1) == Some(false) {
            server_vs_starting_live_authority(res, &rip, 1, false);
            res.notes.push(format!("other_uid: the harness runs as uid {}, not root: only `rip serve` as this user against lock.json of pid 1 was run; contenders of uid {NOBODY}, the SIGSTOPped real authority and the pid namespace are skipped", euid()));
        } else {
            res.notes.push(format!("other_uid: the harness runs as uid {}, not root, and may signal pid 1: skipped", euid()));
        }
        return;
    }
    // 1. a live authority of another uid that has not published its endpoint yet (fabricated: lock.json of this live process)
    if !server_vs_starting_live_authority(res, &rip, me, true) {
        return;
    }
    // 2. the client of another pid namespace (`unshare --pid --fork`): lock.json and meta.json carry the pid of this live process,
    //    which does not exist in the client's namespace (the REAL probe answers ESRCH), and the endpoint ANSWERS (the ping is
    //    scripted through the RIP_VERIF_ENSURE driver, so no timing is involved): attach, touch nothing
    other_pid_namespace(res, &rip, me);
    // 3. a REAL authority (root, umask 0)
    let (sc, data, ws) = shared_store(&LockF::Absent, None);
    let alog = sc.path().join("a.log");
    let mut a = match umask0(&mut rip_cmd(&rip, &["serve"], &data, &ws, sc.path(), &alog)).spawn() {
        Ok(c) => c,
        Err(e) => {
            res.notes.push(format!("other_uid: could not start the authority `rip serve`: {e}"));
            return;
        }
    };
    let apid = a.id() as u64;
    let end = Instant::now() + Duration::from_secs(240);
    let mut published = false;
    while Instant::now() < end {
        if meta_pid_endpoint(&data).map(|(p, _)| p == apid).unwrap_or(false) {
            published = true;
            break;
        }
        if let Ok(Some(_)) = a.try_wait() {
            break;
        }
        std::thread::sleep(Duration::from_millis(20));
    }
    if !published {
        res.notes.push(format!("other_uid: the authority `rip serve` did not publish meta.json within 240 s ({}) — not judged", tail(&alog)));
        stop_child(&mut a);
        return;
    }
    // 3. the authority stops answering (SIGSTOP: alive, endpoint silent); a server of another uid arrives
    {
        unsafe { kill(apid as i32, SIGSTOP) };
        let blog = sc.path().join("b.log");
        match as_nobody(&mut rip_cmd(&rip, &["serve"], &data, &ws, sc.path(), &blog)).spawn() {
            Ok(mut b) => {
                let (st, lock_after, changed) = watch(&mut b, &data, apid, 240);
                let schedule = vec![
                    "start `rip serve` as root with umask 0 on an empty store (directories 0777), wait for its meta.json".to_string(),
                    "SIGSTOP it (alive, endpoint silent)".to_string(),
                    format!("run `rip serve` with uid/gid {NOBODY} on the same store; watch lock.json until it ends"),
                ];
                judge_contender(res, "server_vs_stopped_real_authority", &format!("`rip serve` (pid {}, uid {NOBODY})", b.id()), apid, "a real `rip serve` started by root (SIGSTOPped: alive, not answering)", st, lock_after, changed, &blog, "store already has an authority", schedule);
                stop_child(&mut b);
            }
            Err(e) => res.notes.push(format!("other_uid: could not run {} as uid {NOBODY}: {e} — skipped", rip.display())),
        }
        unsafe { kill(apid as i32, SIGCONT) };
    }
    unsafe { kill(apid as i32, SIGTERM) };
    if wait_child(&mut a, 30).is_none() {
        stop_child(&mut a);
    }
    kill_new_owner(&data, &[apid, me]);
    reap_orphans(200);
    drop(sc);
}

/// the real client loop (scripted driver: the ping is answered by the harness, the clock is scripted; the liveness probe
/// is the REAL one) inside a new pid namespace, against the files of a live authority of the parent namespace
fn other_pid_namespace(res: &mut RunResult, rip: &Path, me: u64) {
    if !["/usr/bin/unshare", "/bin/unshare"].iter().any(|p| Path::new(p).exists()) {
        res.notes.push("other_pid_namespace: no `unshare` binary — skipped".into());
        return;
    }
    let (sc, data, ws) = shared_store(&LockF::Rec(me), Some((me, "http://127.0.0.1:1")));
    let mut cmd = Command::new("unshare");
    cmd.args(["--pid", "--fork", "--kill-child"]).arg(rip).env("HOME", sc.path()).env("RUST_BACKTRACE", "0");
    let mut cp = match ClientProc::start_with(cmd, &data, &ws) {
        Ok(c) => c,
        Err(e) => {
            res.notes.push(format!("other_pid_namespace: could not run unshare: {e} — skipped"));
            return;
        }
    };
    let mut trace: Vec<String> = vec![];
    let mut result: Option<String> = None;
    for _ in 0..200 {
        let Some(l) = cp.line() else { break };
        let kind = l.split_whitespace().next().unwrap_or("").to_string();
        trace.push(l.split_whitespace().take(2).collect::<Vec<_>>().join(" "));
        match kind.as_str() {
            "result" => {
                result = Some(l);
                break;
            }
            "ping" => {
                cp.send("reach 1");
                cp.send("go");
            }
            _ => cp.send("go"),
        }
        // the scripted clock does not move by itself beyond the loop's own back-off: bound the run by its polls
        if trace.iter().filter(|t| t.as_str() == "spawn" || t.starts_with("spawn ")).count() >= 1 {
            break;
        }
    }
    let (lock1, meta1) = (data_lock(&data), meta_file(&ripd::authority_meta_path(&data)));
    cp.stop();
    if trace.is_empty() {
        res.notes.push("other_pid_namespace: `unshare --pid --fork` produced no output (not permitted here?) — skipped".into());
        return;
    }
    res.evaluations += 1;
    res.oracle_checks += 1;
    res.bump("kind=other_pid_namespace_client");
    if lock1 != 2 + me || meta1 != 2 + me {
        let class = "client_of_another_pid_namespace_takes_files_of_answering_authority";
        res.bump(&format!("finding={class}"));
        res.oracle_violations.push(OracleViolation {
            case_id: -1,
            what: format!("lock.json and meta.json carry pid {me} (this live process); the real client loop, run in a new pid namespace (`unshare --pid --fork`: kill({me}, 0) = ESRCH there), got its ping of the endpoint in meta.json ANSWERED — if it asked at all — and yet the files were taken (lock code now {lock1}, meta code {meta1}; 2+pid = record of pid, 0 = gone); the loop's points: {}; result: {result:?}", trace.join(", ")),
            class: class.into(),
            replay: json!({"real_loop": "client (RIP_VERIF_ENSURE=1 rip under `unshare --pid --fork --kill-child`: scripted ping, REAL pid probe)", "schedule": [format!("authority/lock.json and authority/meta.json carry pid {me} of a live process of the parent pid namespace"), "answer every `ping` line with `reach 1`, every other line with `go`".to_string()], "points": trace, "result": result}),
        });
    } else if !result.as_deref().map(|r| r.starts_with("result ok")).unwrap_or(false) {
        res.notes.push(format!("other_pid_namespace: the client did not attach ({result:?}; points {}) — files intact", trace.join(", ")));
    }
    drop(sc);
}

// ------------------------------------------------------------------ an endpoint that answers
/// a minimal HTTP responder (200 to every request) — the endpoint of an authority that is alive and serving
pub struct Responder {
    pub endpoint: String,
    /// when each response had been written completely
    pub answered: Arc<Mutex<Vec<Instant>>>,
    stop: Arc<std::sync::atomic::AtomicBool>,
    handle: Option<std::thread::JoinHandle<()>>,
}
impl Responder {
    pub fn start() -> Option<Self> {
        use std::io::{Read, Write};
        let l = std::net::TcpListener::bind("127.0.0.1:0").ok()?;
        let endpoint = format!("http://{}", l.local_addr().ok()?);
        l.set_nonblocking(true).ok()?;
        let stop = Arc::new(std::sync::atomic::AtomicBool::new(false));
        let stop2 = stop.clone();
        let answered = Arc::new(Mutex::new(Vec::new()));
        let answered2 = answered.clone();
        let handle = std::thread::spawn(move || {
            while !stop2.load(std::sync::atomic::Ordering::SeqCst) {
                match l.accept() {
                    Ok((mut s, _)) => {
                        let _ = s.set_nonblocking(false);
                        let _ = s.set_read_timeout(Some(Duration::from_secs(5)));
                        let mut buf = [0u8; 2048];
                        let mut got = Vec::new();
                        while !got.windows(4).any(|w| w == b"\r\n\r\n") {
                            match s.read(&mut buf) {
                                Ok(0) | Err(_) => break,
                                Ok(n) => got.extend_from_slice(&buf[..n]),
                            }
                        }
                        let _ = s.write_all(b"HTTP/1.1 200 OK\r\nContent-Type: application/json\r\nContent-Length: 2\r\nConnection: close\r\n\r\n{}");
                        let _ = s.flush();
                        answered2.lock().unwrap().push(Instant::now());
                    }
                    Err(_) => std::thread::sleep(Duration::from_millis(5)),
                }
            }
        });
        Some(Responder { endpoint, answered, stop, handle: Some(handle) })
    }
}
impl Drop for Responder {
    fn drop(&mut self) {
        self.stop.store(true, std::sync::atomic::Ordering::SeqCst);
        if let Some(h) = self.handle.take() {
            let _ = h.join();
        }
    }
}

/// two independent signals, server side: lock.json and meta.json of a pid the probe calls Dead (another pid namespace) whose
/// endpoint ANSWERS: the real server recovery loop must refuse and leave both files
pub fn real_server_answering_authority(res: &mut RunResult) {
    let Some(rsp) = Responder::start() else {
        res.notes.push("real_server_answering_authority: could not bind a local endpoint — skipped".into());
        return;
    };
    let rt = tokio::runtime::Builder::new_current_thread().enable_all().build().expect("tokio runtime");
    hk::set_thread_pid(Some(101));
    hk::set_liveness(101, Some(PidLiveness::Alive));
    hk::set_liveness(DEAD as u32, Some(PidLiveness::Dead));
    let (_sc, data, ws) = shared_store(&LockF::Rec(DEAD), Some((DEAD, &rsp.endpoint)));
    let (lock0, meta0) = (data_lock(&data), meta_file(&ripd::authority_meta_path(&data)));
    let t_call = Instant::now();
    let r = rt.block_on(async { tokio::time::timeout(Duration::from_secs(180), ripd::verif::acquire_authority_lock_with_recovery(&data, &ws)).await });
    let ret = match &r {
        Ok(Ok(_)) => "Ok(guard)".to_string(),
        Ok(Err(e)) => format!("Err({e})"),
        Err(_) => "no return within 180 s".to_string(),
    };
    let (lock1, meta1) = (data_lock(&data), meta_file(&ripd::authority_meta_path(&data)));
    drop(r);
    hk::set_thread_pid(None);
    res.evaluations += 1;
    res.oracle_checks += 1;
    res.bump("kind=real_server_loop_answering_authority");
    // load-independent verdict: the loop's ping has a 250 ms budget that starts after `t_call`; the files count as taken from
    // an ANSWERING authority only if the loop never asked, or the complete answer was on the wire within 150 ms of `t_call`
    let first_answer = rsp.answered.lock().unwrap().first().map(|t| t.duration_since(t_call));
    let in_time = first_answer.map(|d| d < Duration::from_millis(150)).unwrap_or(true);
    if (lock1 != lock0 || meta1 != meta0) && !in_time {
        res.notes.push(format!("real_server_answering_authority: the endpoint's answer took {first_answer:?} (machine load), the loop's 250 ms ping may have timed out — not judged"));
    } else if lock1 != lock0 || meta1 != meta0 {
        let class = "real_server_loop_takes_files_of_answering_authority";
        res.bump(&format!("finding={class}"));
        res.oracle_violations.push(OracleViolation {
            case_id: -1,
            what: format!("the real server recovery loop, alone, pid 101: lock.json and meta.json name pid {DEAD}, which the probe calls Dead (a pid of another pid namespace), but the endpoint {} in meta.json ANSWERS: after the call lock code {lock0} -> {lock1}, meta code {meta0} -> {meta1}, returned {ret} ({})", rsp.endpoint, match first_answer { None => "the loop never asked the endpoint".to_string(), Some(d) => format!("the endpoint had answered {} ms after the call started", d.as_millis()) }),
            class: class.into(),
            replay: json!({"real_loop": "server", "lock": format!("Rec({DEAD})"), "meta": format!("Rec({DEAD}) with an endpoint that answers 200"), "dead_pids": [DEAD], "schedule": ["start an HTTP responder", "write lock.json / meta.json naming pid 900 and the responder's endpoint", "set_liveness(900, Dead)", "call ripd::verif::acquire_authority_lock_with_recovery once"]}),
        });
    }
}
