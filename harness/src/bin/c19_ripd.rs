//! C19 helper: the real authority process.  Identical to crates/ripd/src/main.rs (`ripd::serve_default()`:
//! data dir / workspace / address / provider configuration from the environment, authority lock, start-up
//! output on stderr), built inside the harness workspace so that it shares the dependency artifacts of `c19`.
//! `rv c19` spawns it for every third scenario and talks HTTP to it.
#[tokio::main]
async fn main() {
    ripd::serve_default().await;
}
