//! C07 — run lifecycle frames are complete, unique and causally ordered.
//!
//! Drives the REAL router (`ripd::verif::build_app`) or the REAL `SessionEngine` (for provider
//! configurations the router cannot express: restricted / invalid `tool_choice`) against the scripted
//! OpenResponses provider (`rv::provider`).  A case = one fresh store + 1..4 activities (message posts
//! = linked runs, plain session inputs, a compaction job), fired one after the other or all at once.
//! After every activity has finished, `events.jsonl` is read back and
//!  (a) compared with the model (`Model/RunLifecycle.v`, evaluated in Coq): for each activity the log
//!      filtered on that activity's ids must equal `act_events` of what the harness scripted;
//!  (b) checked by the independent oracle (no model): regular-expression check of every session
//!      stream's kind sequence (`started (not start/end)* ended`, seqs 0..n-1), of every run's thread
//!      frames (`spawned (selection compiled)? side_effects* cursor? ended`), exactly-once counts
//!      (one run_spawned per message, one run_ended per run_spawned, at most one job_ended per job),
//!      run_ended after the run's own terminal session frame in log order and with its reason;
//!  (c) "whatever the provider does" includes a provider that never stops: `ProviderSpec.forever` answers EVERY
//!      request with the same response (the last of `reqs`), for every tool_choice shape (auto, required, a named
//!      function, allowed_tools, none, allowed_tools mode none) and both history modes; the oracle demands that the
//!      run ends BY ITSELF within `REQUEST_BOUND` provider requests (counted at the provider and as
//!      openresponses_request_started frames; class `provider-requests-unbounded`) - the request count, not the clock.
use rv::provider::{sse_event, Scripted, ScriptedProvider, SSE_DONE};
use rv::*;
use serde::{Deserialize, Serialize};
use serde_json::{json, Value};
use std::collections::{BTreeMap, BTreeSet};
use std::path::{Path, PathBuf};
use std::sync::atomic::{AtomicU64, Ordering};
use std::sync::Arc;
use std::time::{Duration, Instant};
use tower::ServiceExt;

// ------------------------------------------------------------------ specs
#[derive(Clone, Copy, Debug, PartialEq, Eq, PartialOrd, Ord, Serialize, Deserialize)]
enum Tool {
    Ls,
    ReadOk,
    ReadMissing,
    ReadBadArgs,
    WriteOk,
    WriteBadArgs,
    BashEcho,
    BashFail,
    Unknown,
    /// only as a tool envelope with an expiring timeout
    BashSleep,
    /// `bash` whose output exceeds its preview (`max_bytes`): the rest goes to an overflow artifact under
    /// `<ws>/.rip/artifacts` - a side write of the TOOL (fails when that directory is damaged)
    BashOverflow,
    /// calibration key only: BashOverflow on a store whose artifact directory is damaged
    BashOverflowDamaged,
    /// `read utf8.txt` with `max_bytes` = the argument: the cut falls inside 2-/3-/4-byte characters
    ReadCut(u8),
    /// `bash` that puts something else where a best-effort write of the run's exit path (or of a later run) wants to go:
    /// "whatever the tools do" includes damaging the store's own side files
    Damage(Target),
}

/// the target path of a side write, damaged by the run's own tool (cwd = workspace root `<root>/ws`, data dir `<root>/data`)
#[derive(Clone, Copy, Debug, PartialEq, Eq, PartialOrd, Ord, Serialize, Deserialize)]
enum Target {
    /// `<data>/snapshots` replaced by a regular file: write_snapshot's create_dir_all fails in this and every later run
    SnapDir,
    /// `<data>/snapshots/<this session>.json` made a directory: File::create fails in THIS run only (the session id must be
    /// known when the input is written: engine route, or POST /sessions + input)
    SnapFile,
    /// `<data>/continuity_streams` replaced by a regular file: the sidecar / index writes of every later thread frame fail
    StreamCache,
    /// every full sidecar `<data>/continuity_streams/<thread>.jsonl` made a directory (the file the run_ended line goes to)
    SidecarFull,
    /// every messages+runs sidecar `<thread>.mr.v1.jsonl` made a directory (the cache run_ended is indexed in)
    SidecarMr,
    /// every seek / message index (`*.seek.v1.jsonl`, `*.bin`) made a directory
    SidecarIdx,
    /// `<ws>/.rip/artifacts` replaced by a regular file: context bundles cannot be written (later compiles fail)
    Artifacts,
    /// `<ws>/.rip/checkpoints` replaced by a regular file: the auto checkpoint of a later mutating tool fails
    Checkpoints,
}
const DIR_TARGETS: [Target; 7] = [Target::SnapDir, Target::StreamCache, Target::SidecarFull, Target::SidecarMr, Target::SidecarIdx, Target::Artifacts, Target::Checkpoints];
impl Target {
    fn command(self, sid: Option<&str>) -> String {
        let swap = |p: &str| format!("rm -rf {p} && : > {p}");
        match self {
            Target::SnapDir => swap("../data/snapshots"),
            Target::SnapFile => format!("mkdir -p ../data/snapshots/{}.json", sid.unwrap_or("unknown-session")),
            Target::StreamCache => swap("../data/continuity_streams"),
            // (`<uuid>.jsonl` only: the 12 characters in front of `.jsonl` follow a `-`)
            Target::SidecarFull => "for f in ../data/continuity_streams/*-????????????.jsonl; do [ -e \"$f\" ] || continue; rm -rf \"$f\"; mkdir -p \"$f\"; done".to_string(),
            Target::SidecarMr => "for f in ../data/continuity_streams/*.mr.v1.jsonl; do [ -e \"$f\" ] || continue; rm -rf \"$f\"; mkdir -p \"$f\"; done".to_string(),
            Target::SidecarIdx => "for f in ../data/continuity_streams/*.seek.v1.jsonl ../data/continuity_streams/*.bin; do [ -e \"$f\" ] || continue; rm -rf \"$f\"; mkdir -p \"$f\"; done".to_string(),
            Target::Artifacts => "mkdir -p .rip && rm -rf .rip/artifacts && : > .rip/artifacts".to_string(),
            Target::Checkpoints => "mkdir -p .rip && rm -rf .rip/checkpoints && : > .rip/checkpoints".to_string(),
        }
    }
    /// the model's `sw_code` of the side write this target belongs to
    fn sw_code(self) -> u64 {
        match self {
            Target::SnapDir | Target::SnapFile => 1,
            Target::StreamCache | Target::SidecarFull | Target::SidecarMr | Target::SidecarIdx => 2,
            Target::Artifacts => 3,
            Target::Checkpoints => 4,
        }
    }
}
/// one line: 2 ASCII bytes, then 2-byte characters from offset 2, 3-byte from 18, 4-byte from 42 (74 bytes)
const UTF8_FILE: &str = "abéééééééé€€€€€€€€😀😀😀😀😀😀😀😀";
const CALL_TOOLS: [Tool; 10] = [Tool::Ls, Tool::ReadOk, Tool::ReadMissing, Tool::ReadBadArgs, Tool::WriteOk, Tool::WriteBadArgs, Tool::BashEcho, Tool::BashFail, Tool::Unknown, Tool::BashOverflow];

impl Tool {
    fn name(self) -> &'static str {
        match self {
            Tool::Ls => "ls",
            Tool::ReadOk | Tool::ReadMissing | Tool::ReadBadArgs | Tool::ReadCut(_) => "read",
            Tool::WriteOk | Tool::WriteBadArgs => "write",
            Tool::BashEcho | Tool::BashFail | Tool::BashSleep | Tool::Damage(_) | Tool::BashOverflow | Tool::BashOverflowDamaged => "bash",
            Tool::Unknown => "frobnicate",
        }
    }
    fn args(self) -> Value {
        match self {
            Tool::Ls => json!({"path": "sub"}),
            Tool::ReadOk => json!({"path": "a.txt"}),
            Tool::ReadMissing => json!({"path": "missing.txt"}),
            Tool::ReadBadArgs => json!("{not json"),
            Tool::WriteOk => json!({"path": "out.txt", "content": "x\n"}),
            Tool::WriteBadArgs => json!({"content": "no path"}),
            Tool::BashEcho => json!({"command": "echo hi"}),
            Tool::BashFail => json!({"command": "echo oops 1>&2; exit 3"}),
            Tool::Unknown => json!({"x": 1}),
            Tool::BashSleep => json!({"command": "sleep 2"}),
            Tool::BashOverflow | Tool::BashOverflowDamaged => json!({"command": "echo 0123456789abcdefghijklmnopqrstuvwxyz; echo second line", "max_bytes": 8}),
            Tool::ReadCut(k) => json!({"path": "utf8.txt", "max_bytes": k}),
            Tool::Damage(t) => json!({"command": t.command(None)}),
        }
    }
    /// the `arguments` string of a provider function call
    fn arguments(self) -> String {
        match self {
            Tool::ReadBadArgs => "{not json".to_string(),
            t => t.args().to_string(),
        }
    }
    /// `requires_workspace_lock` (workspace_lock.rs)
    fn lock(self) -> bool {
        !matches!(self.name(), "read" | "ls" | "grep" | "artifact_fetch")
    }
    /// auto checkpoint before the tool (runtime.rs files_for_invocation): 0 none, 1 created, 2 failed
    fn auto(self) -> u64 {
        match self {
            Tool::WriteOk => 1,
            Tool::WriteBadArgs => 2,
            _ => 0,
        }
    }
}

#[derive(Clone, Copy, Debug, PartialEq, Eq, Serialize, Deserialize)]
enum Sse {
    Created { id: bool },
    Delta,
    Malformed,
    SchemaInvalid,
    Completed { id: bool },
    Call(Tool),
}

#[derive(Clone, Debug, PartialEq, Serialize, Deserialize)]
enum Req {
    /// 200 text/event-stream; `cuts` = chunk boundaries (permille of the body); `drop_at` = close the
    /// socket after that many body bytes, without the terminating chunk
    Stream { events: Vec<Sse>, done: bool, partial_tail: bool, cuts: Vec<u64>, drop_at: Option<u64> },
    Http(u16),
    /// 200, zero-length body, properly terminated
    Empty,
    /// non-2xx with a long body: `prefix` x 'x', then `count` x the character `cp`, then `tail` x 'y'
    HttpBody { status: u16, body: BodySpec },
}

/// an error body described by its shape (the bytes are what matters: lengths around every cap the code
/// has or may get, with a 1-/2-/3-/4-byte character at every alignment of that offset)
#[derive(Clone, Copy, Debug, PartialEq, Eq, Serialize, Deserialize)]
struct BodySpec {
    prefix: u32,
    cp: u32,
    count: u32,
    tail: u32,
}
impl BodySpec {
    fn ch(&self) -> char {
        char::from_u32(self.cp).unwrap_or('?')
    }
    fn text(&self) -> String {
        let mut s = String::with_capacity(self.len());
        s.extend(std::iter::repeat('x').take(self.prefix as usize));
        s.extend(std::iter::repeat(self.ch()).take(self.count as usize));
        s.extend(std::iter::repeat('y').take(self.tail as usize));
        s
    }
    fn len(&self) -> usize {
        self.prefix as usize + self.ch().len_utf8() * self.count as usize + self.tail as usize
    }
    /// a body of about `total` bytes in which a character of width `w` starts `back` bytes before offset `at`
    /// (back = 0: `at` is a character boundary; 0 < back < w: `at` falls inside a character)
    fn straddling(at: u32, w: u32, back: u32, total: u32) -> BodySpec {
        let cp = match w {
            1 => 'a' as u32,
            2 => 0xE9,    // é
            3 => 0x20AC,  // €
            _ => 0x1F600, // 😀
        };
        let start = at.saturating_sub(back);
        let prefix = start % w;
        let count = (total.saturating_sub(prefix)) / w + 1;
        BodySpec { prefix, cp, count, tail: 0 }
    }
}


#[derive(Clone, Copy, Debug, PartialEq, Eq, Serialize, Deserialize)]
enum Choice {
    Auto,
    OnlyLs,
    NoTools,
    Invalid,
    /// "required": every function allowed
    Required,
    /// {"type":"allowed_tools","tools":[{"type":"function","name":"ls"}]}: only `ls`
    AllowedLs,
    /// allowed_tools with mode "none": nothing allowed
    AllowedModeNone,
    /// a named function that needs the workspace lock: only `bash`
    OnlyBash,
}
const VALID_CHOICES: [Choice; 7] = [Choice::Auto, Choice::Required, Choice::OnlyLs, Choice::AllowedLs, Choice::OnlyBash, Choice::NoTools, Choice::AllowedModeNone];

/// the provider answers this many requests with the repeated response, then gives up (HTTP 500) so that a run that
/// would go on for ever is put down instead of spinning behind the later cases
const FOREVER_CAP: usize = 48;
/// a run whose provider never stops must end by itself within this many provider requests (tool budget 32: a request
/// is only made with budget left and every answered round spends some)
const REQUEST_BOUND: usize = 33;

#[derive(Clone, Debug, PartialEq, Serialize, Deserialize)]
struct ProviderSpec {
    stateless: bool,
    choice: Choice,
    /// endpoint = a port nobody listens on
    closed_port: bool,
    reqs: Vec<Req>,
    /// the provider never stops: after `reqs` it goes on answering EVERY request with the last response of `reqs`
    /// (fresh call ids each time, as a model does) - FOREVER_CAP answers in all, then it gives up
    #[serde(default)]
    forever: bool,
}
impl ProviderSpec {
    /// the answers the provider will give, in order
    fn script(&self) -> Vec<Req> {
        let mut v = self.reqs.clone();
        if self.forever {
            if let Some(last) = self.reqs.last() {
                while v.len() < FOREVER_CAP {
                    v.push(last.clone());
                }
            }
        }
        v
    }
}

#[derive(Clone, Debug, PartialEq, Serialize, Deserialize)]
enum InputSpec {
    Prompt,
    /// tmo: 0 = no timeout_ms, 1 = generous, 2 = expires (tool must be BashSleep)
    ToolEnv { tool: Tool, tmo: u8 },
    CkCreate { ok: bool },
    /// a checkpoint create that names no file at all (`files: []`): an input of the third kind like any other
    CkCreateEmpty,
    CkRewindMissing,
    /// rewind of a checkpoint that exists FOR THIS SESSION ID (checkpoints are per session and a session gets one
    /// input, so the harness files the checkpoint in the workspace store itself, under the id of the session that
    /// is about to get its input): `checkpoint_rewound`.  Not for router posts (their session id is not known before).
    CkRewindOwn,
}

#[derive(Clone, Debug, PartialEq, Serialize, Deserialize)]
enum Act {
    /// POST /threads/{id}/messages (router) or append_message + append_run_spawned + spawn_session (engine)
    Post { input: InputSpec, provider: Option<ProviderSpec> },
    /// POST /sessions + POST /sessions/{id}/input (router) or create_session + spawn_session (engine)
    Input { input: InputSpec, provider: Option<ProviderSpec> },
    /// POST /threads/{id}/compaction-auto (router only); `fail`: the artifact store is made unwritable first
    /// (`.rip/artifacts` replaced by a file), so the summarizer fails at its first checkpoint
    Job {
        stride: u64,
        max_new: u64,
        #[serde(default)]
        fail: bool,
        /// the job task's replay of the thread fails (fail point `cont.job.replay`): it returns before its closure -
        /// a job_spawned frame and nothing else (no checkpoint, no job_ended)
        #[serde(default)]
        early_err: bool,
    },
    /// S6: POST /sessions, then POST /sessions/{id}/input TWICE (router only, no provider); `wait` = the
    /// second input is sent after the first run has finished
    Input2 { first: InputSpec, second: InputSpec, wait: bool },
    /// S6, concurrent: `rounds` fresh sessions (no provider); for each, `n` inputs are sent AT ONCE from `n` OS
    /// threads (router: POST /sessions/{id}/input; engine: `SessionEngine::spawn_session` on clones of the handle).
    /// `stepped` = false: the threads are released together by a spin gate (a race; many rounds).
    /// `stepped` = true: deterministic - every thread is held at the `rip_verif` point `session.spawn.guarded`
    /// (inside spawn_session, after the started-guard, before the task is spawned) until all `n` threads have either
    /// reached it or returned; a guard that is one atomic read-modify-write lets exactly one thread reach the point.
    InputRace { rounds: u32, n: u8, input: InputSpec, stepped: bool },
    /// POST /threads/{id}/messages whose client hangs up: the request future is polled ONCE by hand and dropped when it is
    /// still pending (what hyper/axum do with the handler future of a connection that went away).  `hold` = while it is
    /// polled another request sits inside the critical section of the router's session map (hook point
    /// `server.sessions.locked` in create_session), so the handler's `sessions.lock().await` really suspends.
    /// Router only, kernel stub (no provider).  Property: a message that reached the thread has its run_spawned frame.
    PostDrop { hold: bool },
}

#[derive(Clone, Debug, PartialEq, Serialize, Deserialize)]
struct Case {
    engine: bool,
    parallel: bool,
    acts: Vec<Act>,
    /// router only: before the activities, post one message, checkpoint it (POST …/compaction-checkpoint) and
    /// delete the summary artifact, so that every later context compilation fails
    #[serde(default)]
    break_summaries: bool,
    /// fault injection (hook `rip_kernel::verif::fail`): these continuity appends return Err for the whole case
    #[serde(default)]
    faults: Vec<Fault>,
    /// failing SIDE writes through the fail hook: for the whole case (every run of it) these best-effort writes of the
    /// exit path return an I/O error.  (The other way to make them fail is `Tool::Damage`: the run's own tool.)
    #[serde(default)]
    side_faults: Vec<SideFault>,
}

/// a best-effort write at the end of a run, failing through `rip_kernel::verif::fail`
#[derive(Clone, Copy, Debug, PartialEq, Eq, PartialOrd, Ord, Serialize, Deserialize)]
enum SideFault {
    /// write_snapshot fails before it touches the disk (read-only data directory)
    SnapWrite,
    /// write_snapshot fails after File::create: an empty `<session>.json` is left (disk full)
    SnapWriteBody,
}
impl SideFault {
    fn point(self) -> &'static str {
        match self {
            SideFault::SnapWrite => "snap.write",
            SideFault::SnapWriteBody => "snap.write.body",
        }
    }
}

/// what the failing side writes of a case do to each activity's run (the harness's own book-keeping: which snapshot
/// writes it expects to fail, what a damaged directory changes for later runs)
#[derive(Clone, Debug, Default)]
struct SidePlan {
    /// the snapshot write of activity i's run fails
    snap_fails: Vec<bool>,
    /// `sw_code`s of the side writes that fail in activity i's run
    codes: Vec<Vec<u64>>,
    /// `.rip/artifacts` is damaged when activity i's run compiles its context
    no_artifacts: Vec<bool>,
    /// a sidecar file of the thread is a directory when activity i's run compiles: the compile outcome is observed
    compile_observed: Vec<bool>,
    any: bool,
}
fn act_damage(a: &Act) -> Vec<Target> {
    let mut out = vec![];
    if let Act::Post { input, provider } | Act::Input { input, provider } = a {
        if let InputSpec::ToolEnv { tool: Tool::Damage(t), .. } = input {
            out.push(*t);
        }
        if let (InputSpec::Prompt, Some(p)) = (input, provider) {
            for r in &p.reqs {
                if let Req::Stream { events, .. } = r {
                    out.extend(events.iter().filter_map(|e| match e {
                        Sse::Call(Tool::Damage(t)) => Some(*t),
                        _ => None,
                    }));
                }
            }
        }
    }
    out
}
fn side_plan(c: &Case) -> SidePlan {
    let n = c.acts.len();
    let hook = !c.side_faults.is_empty();
    let mut pl = SidePlan { snap_fails: vec![hook; n], codes: vec![if hook { vec![1] } else { vec![] }; n], no_artifacts: vec![false; n], compile_observed: vec![false; n], any: hook };
    for (i, a) in c.acts.iter().enumerate() {
        for t in act_damage(a) {
            pl.any = true;
            let upto = if t == Target::SnapFile { i + 1 } else { n };
            for j in i..upto {
                // (the damaging run itself compiled its context / took its auto checkpoint before the damage)
                let in_effect = j > i || !matches!(t, Target::Artifacts | Target::Checkpoints);
                if in_effect && !pl.codes[j].contains(&t.sw_code()) {
                    pl.codes[j].push(t.sw_code());
                }
                match t {
                    Target::SnapDir | Target::SnapFile => pl.snap_fails[j] = true,
                    Target::Artifacts if j > i => pl.no_artifacts[j] = true,
                    Target::SidecarFull | Target::SidecarMr | Target::SidecarIdx if j > i => pl.compile_observed[j] = true,
                    _ => {}
                }
            }
        }
    }
    pl
}

/// a continuity append a run makes, failing (`let _ = continuities.append_…` in run_session drops the result)
#[derive(Clone, Copy, Debug, PartialEq, Eq, PartialOrd, Ord, Serialize, Deserialize)]
enum Fault {
    Selection,
    Compiled,
    SideEffects,
    Cursor,
    RunEnded,
}
impl Fault {
    fn point(self) -> &'static str {
        match self {
            Fault::Selection => "cont.append.selection_decided",
            Fault::Compiled => "cont.append.context_compiled",
            Fault::SideEffects => "cont.append.tool_side_effects",
            Fault::Cursor => "cont.append.provider_cursor_updated",
            Fault::RunEnded => "cont.append.run_ended",
        }
    }
    /// head of the frame's `ck_code` in the model
    fn code(self) -> u64 {
        match self {
            Fault::Selection => 22,
            Fault::Compiled => 23,
            Fault::SideEffects => 24,
            Fault::Cursor => 25,
            Fault::RunEnded => 26,
        }
    }
    fn letter(self) -> char {
        match self {
            Fault::Selection => 'S',
            Fault::Compiled => 'C',
            Fault::SideEffects => 'E',
            Fault::Cursor => 'U',
            Fault::RunEnded => 'X',
        }
    }
}
/// the fail points that return `true` right now (one case at a time); the process-wide fail hook (installed in `main`)
/// looks them up here and counts how often `snap.write` is asked - a run_session task asks it exactly once, when it
/// reaches its snapshot step, whether or not the write then succeeds
static FAILING: std::sync::Mutex<BTreeSet<&'static str>> = std::sync::Mutex::new(BTreeSet::new());
static SNAP_ATTEMPTS: AtomicU64 = AtomicU64::new(0);
fn fail_hook(name: &'static str) -> bool {
    if name == "snap.write" {
        SNAP_ATTEMPTS.fetch_add(1, Ordering::SeqCst);
    }
    FAILING.lock().map(|g| g.contains(name)).unwrap_or(false)
}
/// sets the failing points of one case, clears them when dropped
struct FaultGuard;
impl FaultGuard {
    fn install(faults: &[Fault], side: &[SideFault], job_early_err: bool) -> FaultGuard {
        let mut names: BTreeSet<&'static str> = faults.iter().map(|f| f.point()).collect();
        names.extend(side.iter().map(|f| f.point()));
        if job_early_err {
            names.insert("cont.job.replay");
        }
        *FAILING.lock().unwrap() = names;
        FaultGuard
    }
}
impl Drop for FaultGuard {
    fn drop(&mut self) {
        if let Ok(mut g) = FAILING.lock() {
            g.clear();
        }
    }
}

// ------------------------------------------------------------------ provider scripts
fn sse_json(tag: &str, req: usize, n: usize, e: Sse, call_ix: &mut u64) -> String {
    let rid = format!("resp_{tag}_{req}");
    match e {
        Sse::Created { id } => {
            let resp = if id { json!({"id": rid}) } else { json!({}) };
            sse_event("response.created", &json!({"type": "response.created", "sequence_number": n, "response": resp}))
        }
        Sse::Completed { id } => {
            let resp = if id { json!({"id": rid}) } else { json!({}) };
            sse_event("response.completed", &json!({"type": "response.completed", "sequence_number": n, "response": resp}))
        }
        Sse::Delta => sse_event(
            "response.output_text.delta",
            &json!({"type": "response.output_text.delta", "sequence_number": n, "item_id": "m1", "output_index": 0, "content_index": 0, "delta": format!("d{n}")}),
        ),
        Sse::Malformed => "event: response.output_text.delta\ndata: {not json\n\n".to_string(),
        Sse::SchemaInvalid => sse_event("response.bogus", &json!({"type": "response.bogus_event", "sequence_number": "NaN", "x": [1, 2]})),
        Sse::Call(t) => {
            let ix = *call_ix;
            *call_ix += 1;
            sse_event(
                "response.output_item.done",
                &json!({"type": "response.output_item.done", "sequence_number": n, "output_index": ix,
                        "item": {"type": "function_call", "id": format!("fc_{tag}_{req}_{ix}"), "call_id": format!("call_{tag}_{req}_{ix}"),
                                 "name": t.name(), "arguments": t.arguments(), "status": "completed"}}),
            )
        }
    }
}

/// what the run will have seen of one scripted request, as the model's `req_out` needs it
struct Seen {
    /// 0 ok, 1 first-chunk error, 2 mid-stream error
    class: u8,
    pf: Vec<bool>,
    has_id: bool,
    calls: Vec<Tool>,
}

fn build_stream(tag: &str, req: usize, events: &[Sse], done: bool, partial_tail: bool, cuts: &[u64], drop_at: Option<u64>) -> (Scripted, Seen) {
    let mut body = String::new();
    let mut ends: Vec<(usize, Sse)> = vec![];
    let mut call_ix = 0u64;
    for (n, e) in events.iter().enumerate() {
        body.push_str(&sse_json(tag, req, n, *e, &mut call_ix));
        ends.push((body.len(), *e));
    }
    let mut done_end = None;
    if done {
        body.push_str(SSE_DONE);
        done_end = Some(body.len());
    } else if partial_tail {
        body.push_str("event: response.output_text.delta\ndata: {\"type\":\"response.output_text.delta\",\"del");
    }
    let bytes = body.into_bytes();
    let total = bytes.len();
    let delivered = match drop_at {
        Some(k) => (k as usize).min(total),
        None => total,
    };
    // the run stops reading at [DONE]; a drop after a fully delivered [DONE] is never observed
    let saw_done = done_end.map(|d| d <= delivered).unwrap_or(false);
    let dropped = drop_at.is_some() && !saw_done;
    let mut seen = Seen { class: 0, pf: vec![], has_id: false, calls: vec![] };
    for (end, e) in &ends {
        if *end <= delivered {
            seen.pf.push(matches!(e, Sse::Delta));
            match e {
                Sse::Created { id: true } | Sse::Completed { id: true } => seen.has_id = true,
                Sse::Call(t) => seen.calls.push(*t),
                _ => {}
            }
        }
    }
    if saw_done {
        seen.pf.push(false);
    }
    if dropped {
        seen.class = if delivered == 0 { 1 } else { 2 };
    }
    // chunks
    let mut points: Vec<usize> = cuts.iter().map(|p| (*p as usize * total) / 1000).filter(|p| *p > 0 && *p < total).collect();
    if dropped && delivered > 0 && delivered < total {
        points.push(delivered);
    }
    points.sort();
    points.dedup();
    let mut chunks: Vec<Vec<u8>> = vec![];
    let mut prev = 0;
    for p in points.iter().chain(std::iter::once(&total)) {
        if *p > prev {
            chunks.push(bytes[prev..*p].to_vec());
            prev = *p;
        }
    }
    let mut sc = Scripted::sse(chunks.clone());
    if dropped {
        let mut acc = 0usize;
        let mut k = 0usize;
        for c in &chunks {
            if acc + c.len() <= delivered {
                acc += c.len();
                k += 1;
            } else {
                break;
            }
        }
        sc.drop_after_chunks = Some(k);
    }
    (sc, seen)
}

/// an endpoint nobody listens on: privileged port 1 on loopback is refused deterministically (a port
/// obtained by bind-and-drop could be re-used by another process on this shared box)
fn closed_port_url() -> String {
    "http://127.0.0.1:1/v1/responses".to_string()
}

/// starts the scripted provider of one activity; returns (provider guard, endpoint, per-request Seen or the fixed outcome)
enum Pred {
    Stream(Seen),
    /// status, body as (code point, count) segments
    Http(u16, Vec<(u32, u32)>),
    Empty,
}
const SHORT_ERROR_BODY: &str = "{\"error\":{\"message\":\"scripted\"}}";
fn segments(text: &str) -> Vec<(u32, u32)> {
    let mut out: Vec<(u32, u32)> = vec![];
    for c in text.chars() {
        match out.last_mut() {
            Some((cp, n)) if *cp == c as u32 => *n += 1,
            _ => out.push((c as u32, 1)),
        }
    }
    out
}
fn start_provider(tag: &str, p: &ProviderSpec) -> (Option<ScriptedProvider>, String, Vec<Pred>) {
    let mut scripts = vec![];
    let mut preds = vec![];
    for (i, r) in p.script().iter().enumerate() {
        match r {
            Req::Stream { events, done, partial_tail, cuts, drop_at } => {
                let (sc, seen) = build_stream(tag, i, events, *done, *partial_tail, cuts, *drop_at);
                // a 200 with a zero-length, properly terminated body is "ended before first byte"
                let empty = sc.chunks.iter().all(|c| c.is_empty()) && seen.class == 0;
                scripts.push(sc);
                preds.push(if empty { Pred::Empty } else { Pred::Stream(seen) });
            }
            Req::Http(st) => {
                scripts.push(Scripted::http_error(*st, SHORT_ERROR_BODY));
                preds.push(Pred::Http(*st, segments(SHORT_ERROR_BODY)));
            }
            Req::HttpBody { status, body } => {
                let text = body.text();
                scripts.push(Scripted::http_error(*status, &text));
                preds.push(Pred::Http(*status, segments(&text)));
            }
            Req::Empty => {
                scripts.push(Scripted::sse(vec![]));
                preds.push(Pred::Empty);
            }
        }
    }
    if p.closed_port {
        return (None, closed_port_url(), preds);
    }
    let sp = ScriptedProvider::start(scripts);
    let url = sp.url.clone();
    (Some(sp), url, preds)
}

// ------------------------------------------------------------------ inputs
fn input_text(i: &InputSpec, n: usize) -> String {
    match i {
        InputSpec::Prompt => format!("hello {n}"),
        InputSpec::ToolEnv { tool, tmo } => {
            let mut v = json!({"tool": tool.name(), "args": tool.args()});
            match tmo {
                1 => v["timeout_ms"] = json!(600_000),
                2 => v["timeout_ms"] = json!(30),
                _ => {}
            }
            v.to_string()
        }
        InputSpec::CkCreate { ok } => {
            let files = if *ok { json!(["a.txt"]) } else { json!(["/nonexistent-c07/abs.txt"]) };
            json!({"checkpoint": {"action": "create", "label": "c07", "files": files}}).to_string()
        }
        InputSpec::CkCreateEmpty => json!({"checkpoint": {"action": "create", "label": "c07-empty", "files": []}}).to_string(),
        InputSpec::CkRewindMissing | InputSpec::CkRewindOwn => json!({"checkpoint": {"action": "rewind", "id": "no-such-checkpoint"}}).to_string(),
    }
}
/// the input text for a session whose id is already known
fn input_text_for(i: &InputSpec, n: usize, ws: &Path, sid: &str) -> Result<String, String> {
    if let InputSpec::CkRewindOwn = i {
        let w = rip_workspace::Workspace::new(ws).map_err(|e| format!("workspace: {e}"))?;
        let ck = w.create_checkpoint(sid, "c07-own", &[PathBuf::from("a.txt")]).map_err(|e| format!("checkpoint set-up: {e}"))?;
        return Ok(json!({"checkpoint": {"action": "rewind", "id": ck.id}}).to_string());
    }
    if let InputSpec::ToolEnv { tool: Tool::Damage(t @ Target::SnapFile), .. } = i {
        return Ok(json!({"tool": "bash", "args": {"command": t.command(Some(sid))}}).to_string());
    }
    Ok(input_text(i, n))
}

// ------------------------------------------------------------------ log
#[derive(Clone, Debug)]
struct Line {
    stream: String,
    seq: u64,
    id: String,
    ty: String,
    v: Value,
    pos: usize,
}
fn read_log(data: &Path) -> Vec<Line> {
    let mut out = vec![];
    let Ok(text) = std::fs::read_to_string(data.join("events.jsonl")) else { return out };
    for (pos, line) in text.lines().enumerate() {
        let Ok(v) = serde_json::from_str::<Value>(line) else {
            out.push(Line { stream: String::new(), seq: u64::MAX, id: String::new(), ty: "UNPARSABLE".into(), v: Value::Null, pos });
            continue;
        };
        let s = |k: &str| v.get(k).and_then(|x| x.as_str()).unwrap_or("").to_string();
        out.push(Line { stream: s("session_id"), seq: v.get("seq").and_then(|x| x.as_u64()).unwrap_or(u64::MAX), id: s("id"), ty: s("type"), v, pos });
    }
    out
}
impl Line {
    fn is_cont(&self) -> bool {
        self.ty.starts_with("continuity_")
    }
    fn is_task(&self) -> bool {
        self.ty.starts_with("tool_task_")
    }
    fn is_session(&self) -> bool {
        !self.is_cont() && !self.is_task() && self.ty != "UNPARSABLE"
    }
    fn s(&self, k: &str) -> String {
        self.v.get(k).and_then(|x| x.as_str()).unwrap_or("").to_string()
    }
}
fn reason_code(r: &str) -> u64 {
    match r {
        "completed" => 0,
        "provider_error" => 1,
        "invalid_request" => 2,
        "max_tool_calls_exceeded" => 3,
        "context_compile_failed" => 4,
        "unknown" => 5,
        _ => 77,
    }
}
fn sk_code(l: &Line) -> Vec<u64> {
    match l.ty.as_str() {
        "session_started" => vec![1],
        "output_text_delta" => vec![2],
        "session_ended" => vec![3, reason_code(&l.s("reason"))],
        "provider_event" => vec![4],
        "openresponses_request_started" => vec![5],
        "openresponses_response_headers" => vec![6],
        "openresponses_response_first_byte" => vec![7],
        "tool_started" => vec![8],
        "tool_stdout" => vec![9],
        "tool_stderr" => vec![10],
        "tool_ended" => vec![11],
        "tool_failed" => vec![12],
        "checkpoint_created" => vec![13],
        "checkpoint_rewound" => vec![14],
        "checkpoint_failed" => vec![15],
        _ => vec![99],
    }
}

/// ids of one executed activity
#[derive(Clone, Debug, Default)]
struct Ids {
    sid: Option<String>,
    mid: Option<String>,
    job: Option<String>,
    /// checkpoints the job planned (from the spawn response)
    planned: u64,
    /// HTTP status / error of the request that started it
    status: u16,
    /// Input2: status of the second input
    status2: u16,
    /// InputRace: session id and number of accepted inputs of every round
    race: Vec<(String, u32)>,
    /// PostDrop: the request future was still pending after its first poll and was dropped
    dropped: bool,
    /// Job: value of JOB_RETURNS before the job was spawned
    job_returns_before: u64,
}

struct IdMap(BTreeMap<String, u64>);
impl IdMap {
    fn get(&self, k: &str) -> u64 {
        *self.0.get(k).unwrap_or(&9999)
    }
}

/// Adler-32 of a text (mirrored by `adler` in the model)
fn adler(b: &[u8]) -> u64 {
    let (mut x, mut y) = (1u64, 0u64);
    for c in b {
        x = (x + *c as u64) % 65521;
        y = (y + x) % 65521;
    }
    y * 65536 + x
}
const HTTP_ERROR_PREFIX: &str = "provider http error: ";
/// tool ids of `read utf8.txt` invocations (their stdout chunk is compared with the model's cut)
fn read_cut_tool_ids(log: &[Line]) -> BTreeSet<String> {
    log.iter()
        .filter(|l| l.ty == "tool_started" && l.s("name") == "read" && l.v.pointer("/args/path").and_then(|x| x.as_str()) == Some("utf8.txt"))
        .map(|l| l.s("tool_id"))
        .collect()
}
fn enc_line(l: &Line, ids: &IdMap, cut_tools: &BTreeSet<String>) -> Vec<u64> {
    if l.is_session() {
        let mut o = vec![1, ids.get(&l.stream), l.seq];
        // the text of an HTTP-error frame and the chunk of a cut read are compared too (length, Adler-32)
        let err = l.v.pointer("/errors/0").and_then(|x| x.as_str()).unwrap_or("");
        if l.ty == "provider_event" && err.starts_with(HTTP_ERROR_PREFIX) {
            o.extend([16, err.len() as u64, adler(err.as_bytes())]);
        } else if l.ty == "tool_stdout" && cut_tools.contains(&l.s("tool_id")) {
            let chunk = l.s("chunk");
            o.extend([17, chunk.len() as u64, adler(chunk.as_bytes())]);
        } else {
            o.extend(sk_code(l));
        }
        return o;
    }
    let run = ids.get(&l.s("run_session_id"));
    let mut o = vec![2];
    match l.ty.as_str() {
        "continuity_message_appended" => o.extend([20, ids.get(&l.id)]),
        "continuity_run_spawned" => o.extend([21, run, ids.get(&l.s("message_id"))]),
        "continuity_context_selection_decided" => o.extend([22, run, ids.get(&l.s("message_id"))]),
        "continuity_context_compiled" => o.extend([23, run]),
        "continuity_tool_side_effects" => o.extend([24, run]),
        "continuity_provider_cursor_updated" => o.extend([25, run]),
        "continuity_run_ended" => o.extend([26, run, ids.get(&l.s("message_id")), reason_code(&l.s("reason"))]),
        "continuity_job_spawned" => o.extend([28, ids.get(&l.s("job_id"))]),
        "continuity_job_ended" => o.extend([29, ids.get(&l.s("job_id")), match l.s("status").as_str() { "completed" => 0, "failed" => 1, _ => 7 }]),
        _ => o.push(98),
    }
    o
}

// ------------------------------------------------------------------ independent oracle
fn letter(l: &Line) -> char {
    match l.ty.as_str() {
        "continuity_run_spawned" => 'P',
        "continuity_context_selection_decided" => 'S',
        "continuity_context_compiled" => 'C',
        "continuity_tool_side_effects" => 'E',
        "continuity_provider_cursor_updated" => 'U',
        "continuity_run_ended" => 'X',
        _ => '?',
    }
}
/// ^P(SC)?E*U?X$
fn thread_regex(s: &str) -> bool {
    let b: Vec<char> = s.chars().collect();
    let mut i = 0;
    if b.get(i) != Some(&'P') {
        return false;
    }
    i += 1;
    if b.get(i) == Some(&'S') {
        if b.get(i + 1) != Some(&'C') {
            return false;
        }
        i += 2;
    }
    while b.get(i) == Some(&'E') {
        i += 1;
    }
    if b.get(i) == Some(&'U') {
        i += 1;
    }
    b.get(i) == Some(&'X') && i + 1 == b.len()
}

/// with failing appends: every frame whose append was made to fail may be missing, the order of the rest stands
fn thread_regex_faulted(s: &str, faults: &[Fault]) -> bool {
    let gone: Vec<char> = faults.iter().map(|f| f.letter()).collect();
    if s.chars().any(|c| gone.contains(&c)) {
        return false;
    }
    let k = s.chars().filter(|c| *c == 'E').count();
    for sc in [false, true] {
        for u in [false, true] {
            let full = format!("P{}{}{}X", if sc { "SC" } else { "" }, "E".repeat(k), if u { "U" } else { "" });
            let left: String = full.chars().filter(|c| !gone.contains(c)).collect();
            if left == s {
                return true;
            }
        }
    }
    false
}

/// (what, class) of every violation of the property text visible in the log; `faults` = continuity appends the
/// harness made fail in this case (AppendOk does not hold for them: those frames must be ABSENT, the rest stands)
fn oracle(log: &[Line], faults: &[Fault]) -> Vec<(String, String)> {
    let mut out = vec![];
    if log.iter().any(|l| l.ty == "UNPARSABLE") {
        out.push(("events.jsonl has an unparsable line".to_string(), "log-unparsable".to_string()));
    }
    // session streams
    let mut sessions: BTreeMap<&str, Vec<&Line>> = BTreeMap::new();
    for l in log.iter().filter(|l| l.is_session()) {
        sessions.entry(l.stream.as_str()).or_default().push(l);
    }
    for (sid, fr) in &sessions {
        let n = fr.len();
        let starts = fr.iter().filter(|l| l.ty == "session_started").count();
        let ends = fr.iter().filter(|l| l.ty == "session_ended").count();
        let shape = n >= 2 && fr[0].ty == "session_started" && fr[n - 1].ty == "session_ended" && starts == 1 && ends == 1;
        let seqs = fr.iter().enumerate().all(|(i, l)| l.seq == i as u64);
        // the conversation is bounded: a session that goes on asking the provider is a run that only ends if the provider stops
        let asked = fr.iter().filter(|l| l.ty == "openresponses_request_started").count();
        if asked > REQUEST_BOUND {
            out.push((format!("session stream {sid}: {asked} provider requests (the tool budget allows at most {REQUEST_BOUND})"), "provider-requests-unbounded".to_string()));
        }
        if !shape || !seqs {
            let kinds: Vec<String> = fr.iter().take(12).map(|l| format!("{}:{}", l.seq, l.ty)).collect();
            let class = if starts > 1 && fr.iter().filter(|l| l.seq == 0).count() > 1 {
                "session-shape-two-runs-one-session"
            } else if starts == 1 && ends == 0 && fr[0].ty == "session_started" {
                // the run started and nothing closed it (its task returned early, panicked or hangs)
                "run-never-ended"
            } else if !shape {
                "session-shape"
            } else {
                "session-seqs"
            };
            out.push((format!("session stream {sid}: starts={starts} ends={ends} n={n} seqs_ok={seqs} head={kinds:?}"), class.to_string()));
        }
    }
    // threads
    let mut threads: BTreeMap<&str, Vec<&Line>> = BTreeMap::new();
    for l in log.iter().filter(|l| l.is_cont()) {
        threads.entry(l.stream.as_str()).or_default().push(l);
    }
    for (tid, fr) in &threads {
        // one run_spawned per message
        for m in fr.iter().filter(|l| l.ty == "continuity_message_appended") {
            let k = fr.iter().filter(|l| l.ty == "continuity_run_spawned" && l.s("message_id") == m.id).count();
            if k != 1 {
                out.push((format!("thread {tid}: message {} has {k} run_spawned frames", m.id), "spawn-count".to_string()));
            }
        }
        let spawned: Vec<&&Line> = fr.iter().filter(|l| l.ty == "continuity_run_spawned").collect();
        let mut runs_seen = BTreeSet::new();
        for sp in &spawned {
            let run = sp.s("run_session_id");
            if !runs_seen.insert(run.clone()) {
                out.push((format!("thread {tid}: run {run} spawned twice"), "spawn-count".to_string()));
                continue;
            }
            if fr.iter().filter(|l| l.ty == "continuity_message_appended" && l.id == sp.s("message_id")).count() != 1 {
                out.push((format!("thread {tid}: run {run} spawned for a message that is not on the thread"), "spawn-count".to_string()));
            }
            let mine: Vec<&&Line> = fr.iter().filter(|l| letter(l) != '?' && l.s("run_session_id") == run).collect();
            let word: String = mine.iter().map(|l| letter(l)).collect();
            let ends = word.chars().filter(|c| *c == 'X').count();
            if !faults.is_empty() {
                if !thread_regex_faulted(&word, faults) {
                    out.push((format!("thread {tid}: run {run} thread frames {word} with failing appends {faults:?}: a frame whose append failed is there, or the order of the others is wrong"), "thread-order".to_string()));
                }
                if faults.contains(&Fault::RunEnded) {
                    continue;
                }
            }
            if ends != 1 {
                out.push((format!("thread {tid}: run {run} has {ends} run_ended frames (frames {word})"), "end-count".to_string()));
                continue;
            }
            if faults.is_empty() && !thread_regex(&word) {
                out.push((format!("thread {tid}: run {run} thread frames {word} do not match P(SC)?E*U?X"), "thread-order".to_string()));
            }
            let x = mine.iter().find(|l| l.ty == "continuity_run_ended").unwrap();
            if x.s("message_id") != sp.s("message_id") {
                out.push((format!("thread {tid}: run {run} ended for another message"), "thread-order".to_string()));
            }
            // after the run's own terminal session frame, same reason
            match sessions.get(run.as_str()).and_then(|s| s.iter().rev().find(|l| l.ty == "session_ended")) {
                None => out.push((format!("thread {tid}: run {run} ended but its session has no end frame"), "end-before-terminal".to_string())),
                Some(t) => {
                    let last_pos = sessions[run.as_str()].iter().map(|l| l.pos).max().unwrap_or(0);
                    if x.pos < t.pos || x.pos < last_pos {
                        out.push((format!("thread {tid}: run {run} run_ended at line {} precedes session frames up to line {last_pos}", x.pos), "end-before-terminal".to_string()));
                    }
                    if x.s("reason") != t.s("reason") {
                        out.push((format!("thread {tid}: run {run} run_ended reason {:?} vs session_ended {:?}", x.s("reason"), t.s("reason")), "end-reason".to_string()));
                    }
                    if sp.pos > sessions[run.as_str()][0].pos {
                        out.push((format!("thread {tid}: run {run} session frames precede run_spawned"), "thread-order".to_string()));
                    }
                }
            }
        }
        // frames naming a run that was never spawned
        for l in fr.iter().filter(|l| letter(l) != '?' && letter(l) != 'P') {
            let run = l.s("run_session_id");
            if letter(l) == 'U' && run.is_empty() {
                continue;
            }
            if !runs_seen.contains(&run) {
                out.push((format!("thread {tid}: {} names run {run} that was never spawned", l.ty), "end-count".to_string()));
            }
        }
        // jobs
        let mut spawned_jobs = BTreeSet::new();
        for l in fr.iter().filter(|l| l.ty == "continuity_job_spawned") {
            if !spawned_jobs.insert(l.s("job_id")) {
                out.push((format!("thread {tid}: job {} spawned twice", l.s("job_id")), "job-end".to_string()));
            }
        }
        let mut ended_jobs = BTreeSet::new();
        for l in fr.iter().filter(|l| l.ty == "continuity_job_ended") {
            let j = l.s("job_id");
            if !ended_jobs.insert(j.clone()) {
                out.push((format!("thread {tid}: job {j} ended more than once"), "job-end".to_string()));
            }
            match fr.iter().find(|s| s.ty == "continuity_job_spawned" && s.s("job_id") == j) {
                None => out.push((format!("thread {tid}: job {j} ended but never spawned"), "job-end".to_string())),
                Some(s) if s.pos > l.pos => out.push((format!("thread {tid}: job {j} ended before it was spawned"), "job-end".to_string())),
                _ => {}
            }
        }
    }
    out
}

// ------------------------------------------------------------------ execution
static SNAPS: AtomicU64 = AtomicU64::new(0);
/// job tasks that have returned (hook point `job.task.returned`)
static JOB_RETURNS: AtomicU64 = AtomicU64::new(0);

fn req(method: &str, uri: &str, body: Option<Value>) -> axum::http::Request<axum::body::Body> {
    let b = axum::http::Request::builder().method(method).uri(uri);
    match body {
        Some(v) => b.header("content-type", "application/json").body(axum::body::Body::from(v.to_string())).unwrap(),
        None => b.body(axum::body::Body::empty()).unwrap(),
    }
}
async fn call_json(app: &axum::Router, r: axum::http::Request<axum::body::Body>) -> (u16, Value) {
    use http_body_util::BodyExt;
    let resp = app.clone().oneshot(r).await.expect("infallible");
    let st = resp.status().as_u16();
    let bytes = resp.into_body().collect().await.map(|b| b.to_bytes()).unwrap_or_default();
    (st, serde_json::from_slice(&bytes).unwrap_or(Value::Null))
}

fn tool_choice(c: Choice) -> rip_provider_openresponses::ToolChoiceParam {
    use rip_provider_openresponses::ToolChoiceParam as T;
    match c {
        Choice::Auto => T::auto(),
        Choice::OnlyLs => T::specific_function("ls"),
        Choice::NoTools => T::none(),
        Choice::Invalid => T::new(json!({"type": "function"})),
        Choice::Required => T::required(),
        Choice::AllowedLs => T::new(json!({"type": "allowed_tools", "tools": [{"type": "function", "name": "ls"}]})),
        Choice::AllowedModeNone => T::new(json!({"type": "allowed_tools", "tools": [{"type": "function", "name": "ls"}], "mode": "none"})),
        Choice::OnlyBash => T::specific_function("bash"),
    }
}
/// the request validator refuses this tool_choice: the run ends invalid_request before any request is sent
fn choice_invalid(c: Choice) -> bool {
    !tool_choice(c).errors().is_empty()
}
fn engine_cfg(url: &str, p: &ProviderSpec) -> ripd::verif::OpenResponsesConfig {
    ripd::verif::OpenResponsesConfig {
        endpoint: url.to_string(),
        api_key: None,
        model: Some("scripted".into()),
        headers: vec![],
        tool_choice: tool_choice(p.choice),
        followup_user_message: None,
        stateless_history: p.stateless,
        parallel_tool_calls: false,
    }
}

// ---- concurrent inputs to one session
thread_local! {
    static RACER: std::cell::Cell<Option<usize>> = const { std::cell::Cell::new(None) };
}
#[derive(Default)]
struct RaceState {
    parked: BTreeSet<usize>,
    finished: BTreeSet<usize>,
    released: bool,
}
static RACE: std::sync::Mutex<Option<RaceState>> = std::sync::Mutex::new(None);
static RACE_CV: std::sync::Condvar = std::sync::Condvar::new();
/// how often a racer was seen parked at the guard point (tells whether the hook point exists in this tree)
static RACE_PARKS: AtomicU64 = AtomicU64::new(0);

/// called from the global hook
fn race_point() {
    let Some(me) = RACER.with(|r| r.get()) else { return };
    let mut g = RACE.lock().unwrap();
    let Some(st) = g.as_mut() else { return };
    st.parked.insert(me);
    RACE_PARKS.fetch_add(1, Ordering::SeqCst);
    RACE_CV.notify_all();
    while !g.as_ref().map(|s| s.released).unwrap_or(true) {
        g = RACE_CV.wait(g).unwrap();
    }
}

/// `n` threads run `f(i)` (true = the input was accepted) against one session; returns how many were accepted
fn race<F: Fn(usize) -> bool + Sync>(n: usize, stepped: bool, f: F) -> u32 {
    let gate = std::sync::atomic::AtomicUsize::new(0);
    *RACE.lock().unwrap() = if stepped { Some(RaceState::default()) } else { None };
    let accepted = std::thread::scope(|sc| {
        let mut hs = vec![];
        for i in 0..n {
            let (f, gate) = (&f, &gate);
            hs.push(sc.spawn(move || {
                if stepped {
                    RACER.with(|r| r.set(Some(i)));
                } else {
                    gate.fetch_add(1, Ordering::SeqCst);
                    while gate.load(Ordering::SeqCst) < n {
                        std::hint::spin_loop();
                    }
                }
                let ok = std::panic::catch_unwind(std::panic::AssertUnwindSafe(|| f(i))).unwrap_or(false);
                if stepped {
                    let mut g = RACE.lock().unwrap();
                    if let Some(st) = g.as_mut() {
                        st.finished.insert(i);
                    }
                    RACE_CV.notify_all();
                }
                ok
            }));
            if stepped {
                // the next thread starts only when this one sits at the guard point or is through (no clock involved)
                let mut g = RACE.lock().unwrap();
                while !g.as_ref().map(|s| s.parked.contains(&i) || s.finished.contains(&i)).unwrap_or(true) {
                    g = RACE_CV.wait(g).unwrap();
                }
            }
        }
        if stepped {
            if let Some(st) = RACE.lock().unwrap().as_mut() {
                st.released = true;
            }
            RACE_CV.notify_all();
        }
        hs.into_iter().map(|h| h.join().unwrap_or(false)).filter(|b| *b).count() as u32
    });
    *RACE.lock().unwrap() = None;
    accepted
}

// ---- a request whose client hangs up while the handler is suspended
thread_local! {
    static HOLDER: std::cell::Cell<bool> = const { std::cell::Cell::new(false) };
}
#[derive(Default)]
struct HoldState {
    held: bool,
    finished: bool,
    released: bool,
}
static HOLD: std::sync::Mutex<Option<HoldState>> = std::sync::Mutex::new(None);
static HOLD_CV: std::sync::Condvar = std::sync::Condvar::new();
/// called from the global hook at `server.sessions.locked` (inside the critical section of the session map)
fn hold_point() {
    if !HOLDER.with(|h| h.get()) {
        return;
    }
    let mut g = HOLD.lock().unwrap();
    if let Some(st) = g.as_mut() {
        st.held = true;
    }
    HOLD_CV.notify_all();
    while !g.as_ref().map(|s| s.released).unwrap_or(true) {
        g = HOLD_CV.wait(g).unwrap();
    }
}
struct NoopWake;
impl std::task::Wake for NoopWake {
    fn wake(self: Arc<Self>) {}
}
/// Polls the request ONCE; Some(response) when the handler ran to completion in that poll, None when it was still
/// pending and has been dropped.  With `hold`, a second request (POST /sessions, on its own OS thread) is parked inside
/// the session map's critical section for the duration of the poll.
fn post_and_hang_up(app: &axum::Router, request: axum::http::Request<axum::body::Body>, hold: bool, h: &tokio::runtime::Handle) -> Option<(u16, Value)> {
    use std::future::Future;
    *HOLD.lock().unwrap() = Some(HoldState::default());
    let out = std::thread::scope(|sc| {
        let holder = hold.then(|| {
            sc.spawn(|| {
                HOLDER.with(|x| x.set(true));
                let _ = std::panic::catch_unwind(std::panic::AssertUnwindSafe(|| h.block_on(call_json(app, req("POST", "/sessions", None)))));
                if let Some(st) = HOLD.lock().unwrap().as_mut() {
                    st.finished = true;
                }
                HOLD_CV.notify_all();
            })
        });
        if hold {
            // until the holder sits in the critical section (or is through: a tree without the hook point)
            let mut g = HOLD.lock().unwrap();
            while !g.as_ref().map(|s| s.held || s.finished).unwrap_or(true) {
                g = HOLD_CV.wait(g).unwrap();
            }
        }
        let waker = std::task::Waker::from(Arc::new(NoopWake));
        let mut cx = std::task::Context::from_waker(&waker);
        let mut fut = Box::pin(call_json(app, request));
        let polled = {
            let _g = h.enter();
            fut.as_mut().poll(&mut cx)
        };
        let out = match polled {
            std::task::Poll::Ready(x) => Some(x),
            // the client is gone: hyper drops the handler future
            std::task::Poll::Pending => None,
        };
        drop(fut);
        if let Some(st) = HOLD.lock().unwrap().as_mut() {
            st.released = true;
        }
        HOLD_CV.notify_all();
        if let Some(hd) = holder {
            let _ = hd.join();
        }
        out
    });
    *HOLD.lock().unwrap() = None;
    out
}

// ---- panics of implementation tasks (tokio catches them; the hook still sees them)
static PANICS: std::sync::Mutex<Vec<String>> = std::sync::Mutex::new(Vec::new());
fn panics_seen() -> usize {
    PANICS.lock().map(|g| g.len()).unwrap_or(0)
}

struct Exec {
    ids: Vec<Ids>,
    preds: Vec<Vec<Pred>>,
    log: Vec<Line>,
    thread: String,
    hang: Option<String>,
    /// panics seen while the case ran (thread name, message, location)
    panics: Vec<String>,
    /// requests each activity's scripted provider received
    asked: Vec<Option<usize>>,
}

const WATCHDOG: Duration = Duration::from_secs(180);

fn act_done(a: &Act, id: &Ids, log: &[Line], faults: &[Fault]) -> bool {
    match a {
        // the append is attempted right after the snapshot (phase 1) and fails at once
        Act::Post { .. } | Act::PostDrop { .. } if faults.contains(&Fault::RunEnded) => true,
        Act::Post { .. } | Act::PostDrop { .. } => match &id.sid {
            Some(s) => log.iter().any(|l| l.ty == "continuity_run_ended" && l.s("run_session_id") == *s),
            None => true,
        },
        Act::Input { .. } | Act::Input2 { .. } | Act::InputRace { .. } => true, // counted through the snapshot hook
        // a job whose replay fails writes no closing frame: its task having returned is all there is to wait for
        Act::Job { early_err: true, .. } => id.job.is_none() || JOB_RETURNS.load(Ordering::SeqCst) > id.job_returns_before,
        Act::Job { .. } => match &id.job {
            Some(j) => log.iter().any(|l| l.ty == "continuity_job_ended" && l.s("job_id") == *j),
            None => true,
        },
    }
}

/// set once a run or job was seen not to write its closing thread frame: later cases wait only briefly
static SEEN_MISSING_END: std::sync::atomic::AtomicBool = std::sync::atomic::AtomicBool::new(false);

/// counters at the start of a case
#[derive(Clone, Copy)]
struct Before {
    snaps: u64,
    panics: usize,
    attempts: u64,
}
/// runs started so far in a case, and how many of them the harness expects to write their snapshot (all of them unless
/// the case makes snapshot writes fail)
#[derive(Clone, Copy, Default)]
struct Started {
    runs: u64,
    snap_ok: u64,
}
impl std::ops::AddAssign<u64> for Started {
    /// `n` more runs whose snapshot write is expected to succeed
    fn add_assign(&mut self, n: u64) {
        self.runs += n;
        self.snap_ok += n;
    }
}
impl Started {
    fn add(&mut self, snap_fails: bool) {
        self.runs += 1;
        if !snap_fails {
            self.snap_ok += 1;
        }
    }
}
/// set once a run was seen not to reach its snapshot step within the watchdog: later cases wait only briefly (the tree is
/// red already; a search over thousands of cases must not pay the full watchdog every time)
static SEEN_HANG: std::sync::atomic::AtomicBool = std::sync::atomic::AtomicBool::new(false);
const WATCHDOG_AFTER_HANG: Duration = Duration::from_secs(12);

/// Phase 1: every started run_session task has reached `write_snapshot` (it asks the fail point `snap.write` exactly once;
/// hook count) and every snapshot the harness expects to be written is flushed (hook count of `snap.flushed`); with no
/// failing snapshot in the case that is "as many flushed snapshots as runs".  Watchdog => "hang".
/// Phase 2: the closing thread frames (run_ended right after the snapshot step, job_ended) are in the log; a frame
/// still missing after a generous grace period is left to the oracle (end-count), not reported as a hang.
async fn wait_done(data: &Path, acts: &[Act], ids: &[Ids], before: Before, started: Started, faults: &[Fault]) -> Option<String> {
    let runs_started = started.runs;
    let t0 = Instant::now();
    loop {
        let snaps = SNAPS.load(Ordering::SeqCst) - before.snaps;
        let attempts = SNAP_ATTEMPTS.load(Ordering::SeqCst) - before.attempts;
        // (a tree without the fail point never counts an attempt: there a flushed snapshot is the sign)
        let reached = attempts.max(snaps);
        if reached >= runs_started && snaps >= started.snap_ok {
            break;
        }
        // a run whose task panicked never reaches its single exit: no session_ended, no snapshot, no run_ended
        let died = (panics_seen() - before.panics.min(panics_seen())) as u64;
        if died > 0 && reached + died >= runs_started {
            let msg = PANICS.lock().ok().and_then(|g| g.last().cloned()).unwrap_or_default();
            return Some(format!("{} of {runs_started} runs never ended: their task panicked ({msg})", runs_started - reached.min(runs_started)));
        }
        let watchdog = if SEEN_HANG.load(Ordering::SeqCst) { WATCHDOG_AFTER_HANG } else { WATCHDOG };
        if t0.elapsed() > watchdog {
            SEEN_HANG.store(true, Ordering::SeqCst);
            return Some(format!("{} of {runs_started} runs did not reach their snapshot step within {watchdog:?} ({snaps} snapshots flushed, {} expected)", runs_started - reached.min(runs_started), started.snap_ok));
        }
        tokio::time::sleep(Duration::from_millis(3)).await;
    }
    let t1 = Instant::now();
    loop {
        let log = read_log(data);
        if acts.iter().zip(ids).all(|(a, i)| act_done(a, i, &log, faults)) {
            return None;
        }
        let has_job = acts.iter().any(|a| matches!(a, Act::Job { .. }));
        let grace = if SEEN_MISSING_END.load(Ordering::SeqCst) { Duration::from_millis(700) } else if has_job { Duration::from_secs(90) } else { Duration::from_secs(30) };
        if t1.elapsed() > grace {
            SEEN_MISSING_END.store(true, Ordering::SeqCst);
            return None;
        }
        tokio::time::sleep(Duration::from_millis(3)).await;
    }
}

fn prepare_workspace(ws: &Path) -> std::io::Result<()> {
    std::fs::create_dir_all(ws.join("sub"))?;
    std::fs::write(ws.join("a.txt"), "alpha\nbeta\n")?;
    std::fs::write(ws.join("sub/one.txt"), "1\n")?;
    std::fs::write(ws.join("sub/two.txt"), "2\n")?;
    std::fs::write(ws.join("utf8.txt"), UTF8_FILE)?;
    // the store needs room too: refuse to start a case on a (nearly) full disk
    std::fs::write(ws.join(".probe"), vec![0u8; 1 << 20])?;
    std::fs::remove_file(ws.join(".probe"))
}

/// Err = the harness could not set the case up (its own I/O, e.g. disk full): not a statement about rip
async fn exec_case(c: &Case, root: &Path) -> Result<Exec, String> {
    let data = root.join("data");
    let ws = root.join("ws");
    prepare_workspace(&ws).map_err(|e| format!("workspace setup: {e}"))?;
    let mut providers: Vec<Option<ScriptedProvider>> = vec![];
    let mut urls: Vec<Option<String>> = vec![];
    let mut preds: Vec<Vec<Pred>> = vec![];
    for (i, a) in c.acts.iter().enumerate() {
        let p = match a {
            Act::Post { provider, .. } | Act::Input { provider, .. } => provider.as_ref(),
            Act::Job { .. } | Act::Input2 { .. } | Act::InputRace { .. } | Act::PostDrop { .. } => None,
        };
        match p {
            Some(p) => {
                let (sp, url, pr) = start_provider(&format!("a{i}"), p);
                providers.push(sp);
                urls.push(Some(url));
                preds.push(pr);
            }
            None => {
                providers.push(None);
                urls.push(None);
                preds.push(vec![]);
            }
        }
    }
    let snaps_before = Before { snaps: SNAPS.load(Ordering::SeqCst), panics: panics_seen(), attempts: SNAP_ATTEMPTS.load(Ordering::SeqCst) };
    let plan = side_plan(c);
    let damaging = c.acts.iter().any(|a| !act_damage(a).is_empty());
    if plan.any && ((c.parallel && damaging) || c.acts.iter().any(|a| !matches!(a, Act::Post { .. } | Act::Input { .. }))) {
        return Err("unsupported case: failing side writes with parallel activities / other activity kinds".into());
    }
    let _faults = FaultGuard::install(&c.faults, &c.side_faults, c.acts.iter().any(|a| matches!(a, Act::Job { early_err: true, .. })));
    let mut ids: Vec<Ids> = vec![];
    let mut runs_started = Started::default();
    let mut hang = None;
    let thread;
    if c.engine {
        let engine = ripd::SessionEngine::new(data.clone(), ws.clone(), None).map_err(|e| format!("engine init: {e}"))?;
        let store = engine.continuities();
        thread = store.ensure_default().map_err(|e| format!("ensure_default: {e}"))?;
        for (i, a) in c.acts.iter().enumerate() {
            let mut id = Ids::default();
            match a {
                Act::Post { input, provider } => {
                    let handle = engine.create_session();
                    let sid = handle.session_id.clone();
                    let text = input_text_for(input, i, &ws, &sid)?;
                    let cfg = provider.as_ref().map(|p| engine_cfg(urls[i].as_ref().unwrap(), p));
                    // thread_post_message, by hand (server.rs:722-753)
                    if let Ok(mid) = store.append_message(&thread, "user".into(), "server".into(), text.clone()) {
                        id.mid = Some(mid.clone());
                        if store.append_run_spawned(&thread, &mid, &sid, "user".into(), "server".into()).is_ok() {
                            id.sid = Some(sid);
                            let link = ripd::ContinuityRunLink { continuity_id: thread.clone(), message_id: mid, actor_id: "user".into(), origin: "server".into() };
                            engine.spawn_session(handle, text, Some(link), cfg);
                            runs_started.add(plan.snap_fails[i]);
                            id.status = 202;
                        }
                    }
                }
                Act::Input { input, provider } => {
                    let cfg = provider.as_ref().map(|p| engine_cfg(urls[i].as_ref().unwrap(), p));
                    let handle = engine.create_session();
                    id.sid = Some(handle.session_id.clone());
                    let text = input_text_for(input, i, &ws, &handle.session_id)?;
                    engine.spawn_session(handle, text, None, cfg);
                    runs_started.add(plan.snap_fails[i]);
                    id.status = 202;
                }
                Act::InputRace { rounds, n, input, stepped } => {
                    let h = tokio::runtime::Handle::current();
                    for r in 0..*rounds {
                        let handle = engine.create_session();
                        let text = input_text(input, i + r as usize);
                        let accepted = race(*n as usize, *stepped, |_who| {
                            let _g = h.enter();
                            engine.spawn_session(handle.clone(), text.clone(), None, None)
                        });
                        runs_started += accepted as u64;
                        id.race.push((handle.session_id.clone(), accepted));
                    }
                    id.status = 202;
                }
                Act::Job { .. } | Act::Input2 { .. } | Act::PostDrop { .. } => {}
            }
            ids.push(id);
            if !c.parallel {
                if let Some(h) = wait_done(&data, &c.acts[..ids.len()], &ids, snaps_before, runs_started, &c.faults).await {
                    hang = Some(h);
                    break;
                }
            }
        }
        if hang.is_none() {
            hang = wait_done(&data, &c.acts[..ids.len()], &ids, snaps_before, runs_started, &c.faults).await;
        }
        drop(engine);
    } else {
        // the app-level default provider = the provider of the (single) Input activity that has one
        let default_cfg = c.acts.iter().enumerate().find_map(|(i, a)| match a {
            Act::Input { provider: Some(p), .. } => Some(engine_cfg(urls[i].as_ref().unwrap(), p)),
            _ => None,
        });
        let app = ripd::verif::build_app(data.clone(), ws.clone(), default_cfg);
        let (_, t) = call_json(&app, req("POST", "/threads/ensure", None)).await;
        thread = t.get("thread_id").and_then(|x| x.as_str()).unwrap_or("").to_string();
        if c.break_summaries {
            if c.acts.iter().any(|a| matches!(a, Act::Input { provider: Some(_), .. })) {
                return Err("unsupported case: break_summaries with an app-level default provider".into());
            }
            let (st, v) = call_json(&app, req("POST", &format!("/threads/{thread}/messages"), Some(json!({"content": "preamble"})))).await;
            let mid = v.get("message_id").and_then(|x| x.as_str()).unwrap_or("").to_string();
            let pre = Ids { sid: v.get("session_id").and_then(|x| x.as_str()).map(|s| s.to_string()), status: st, ..Default::default() };
            runs_started.add(!c.side_faults.is_empty());
            let pre_act = Act::Post { input: InputSpec::Prompt, provider: None };
            if let Some(h) = wait_done(&data, std::slice::from_ref(&pre_act), std::slice::from_ref(&pre), snaps_before, runs_started, &c.faults).await {
                hang = Some(h);
            }
            let (st2, _) = call_json(&app, req("POST", &format!("/threads/{thread}/compaction-checkpoint"), Some(json!({"summary_markdown": "c07 summary", "to_message_id": mid})))).await;
            if st2 != 201 {
                return Err(format!("preamble checkpoint refused: {st2}"));
            }
            let _ = std::fs::remove_dir_all(ws.join(".rip").join("artifacts"));
        }
        for (i, a) in c.acts.iter().enumerate() {
            if hang.is_some() {
                break;
            }
            let mut id = Ids::default();
            match a {
                Act::Post { input, provider } => {
                    if *input == InputSpec::CkRewindOwn {
                        return Err("unsupported case: CkRewindOwn on a router post".into());
                    }
                    if matches!(input, InputSpec::ToolEnv { tool: Tool::Damage(Target::SnapFile), .. }) {
                        return Err("unsupported case: Damage(SnapFile) on a router post (the session id is not known before)".into());
                    }
                    let mut body = json!({"content": input_text(input, i)});
                    if let Some(p) = provider {
                        body["openresponses"] = json!({"endpoint": urls[i].as_ref().unwrap(), "model": "scripted", "stateless_history": p.stateless});
                    }
                    let (st, v) = call_json(&app, req("POST", &format!("/threads/{thread}/messages"), Some(body))).await;
                    id.status = st;
                    if st == 202 {
                        id.sid = v.get("session_id").and_then(|x| x.as_str()).map(|s| s.to_string());
                        id.mid = v.get("message_id").and_then(|x| x.as_str()).map(|s| s.to_string());
                        runs_started.add(plan.snap_fails[i]);
                    }
                }
                Act::Input { input, .. } => {
                    let (_, v) = call_json(&app, req("POST", "/sessions", None)).await;
                    let sid = v.get("session_id").and_then(|x| x.as_str()).unwrap_or("").to_string();
                    let text = input_text_for(input, i, &ws, &sid)?;
                    let (st, _) = call_json(&app, req("POST", &format!("/sessions/{sid}/input"), Some(json!({"input": text})))).await;
                    id.status = st;
                    id.sid = Some(sid);
                    if st == 202 {
                        runs_started.add(plan.snap_fails[i]);
                    }
                }
                Act::Input2 { first, second, wait } => {
                    let (_, v) = call_json(&app, req("POST", "/sessions", None)).await;
                    let sid = v.get("session_id").and_then(|x| x.as_str()).unwrap_or("").to_string();
                    let (st, _) = call_json(&app, req("POST", &format!("/sessions/{sid}/input"), Some(json!({"input": input_text(first, i)})))).await;
                    id.status = st;
                    id.sid = Some(sid.clone());
                    if st == 202 {
                        runs_started += 1;
                    }
                    if *wait {
                        let mut ids2 = ids.clone();
                        ids2.push(id.clone());
                        if let Some(h) = wait_done(&data, &c.acts[..ids2.len()], &ids2, snaps_before, runs_started, &c.faults).await {
                            hang = Some(h);
                        }
                    }
                    let (st2, _) = call_json(&app, req("POST", &format!("/sessions/{sid}/input"), Some(json!({"input": input_text(second, i + 50)})))).await;
                    id.status2 = st2;
                    if st2 == 202 {
                        runs_started += 1;
                    }
                }
                Act::InputRace { rounds, n, input, stepped } => {
                    let h = tokio::runtime::Handle::current();
                    for r in 0..*rounds {
                        let (_, v) = call_json(&app, req("POST", "/sessions", None)).await;
                        let sid = v.get("session_id").and_then(|x| x.as_str()).unwrap_or("").to_string();
                        let body = json!({"input": input_text(input, i + r as usize)});
                        // each sender drives its own request on its own OS thread (the handler runs inline in `oneshot`)
                        let accepted = race(*n as usize, *stepped, |_who| {
                            let (st, _) = h.block_on(call_json(&app, req("POST", &format!("/sessions/{sid}/input"), Some(body.clone()))));
                            st == 202
                        });
                        runs_started += accepted as u64;
                        id.race.push((sid, accepted));
                    }
                    id.status = 202;
                }
                Act::PostDrop { hold } => {
                    let body = json!({"content": input_text(&InputSpec::Prompt, i)});
                    let h = tokio::runtime::Handle::current();
                    match post_and_hang_up(&app, req("POST", &format!("/threads/{thread}/messages"), Some(body)), *hold, &h) {
                        Some((st, v)) => {
                            id.status = st;
                            if st == 202 {
                                id.sid = v.get("session_id").and_then(|x| x.as_str()).map(|s| s.to_string());
                                id.mid = v.get("message_id").and_then(|x| x.as_str()).map(|s| s.to_string());
                                runs_started += 1;
                            }
                        }
                        None => id.dropped = true,
                    }
                }
                Act::Job { stride, max_new, fail, .. } => {
                    id.job_returns_before = JOB_RETURNS.load(Ordering::SeqCst);
                    if *fail {
                        let art = ws.join(".rip").join("artifacts");
                        let _ = std::fs::create_dir_all(ws.join(".rip"));
                        let _ = std::fs::remove_dir_all(&art);
                        std::fs::write(&art, b"not a directory").map_err(|e| format!("job fail set-up: {e}"))?;
                    }
                    let body = json!({"stride_messages": stride, "max_new_checkpoints": max_new, "actor_id": "user", "origin": "c07"});
                    let (st, v) = call_json(&app, req("POST", &format!("/threads/{thread}/compaction-auto"), Some(body))).await;
                    id.status = st;
                    if st == 202 {
                        id.job = v.get("job_id").and_then(|x| x.as_str()).map(|s| s.to_string());
                        id.planned = v.get("planned").and_then(|x| x.as_array()).map(|a| a.len() as u64).unwrap_or(0);
                    }
                }
            }
            ids.push(id);
            if !c.parallel {
                if let Some(h) = wait_done(&data, &c.acts[..ids.len()], &ids, snaps_before, runs_started, &c.faults).await {
                    hang = Some(h);
                    break;
                }
            }
        }
        if hang.is_none() {
            hang = wait_done(&data, &c.acts[..ids.len()], &ids, snaps_before, runs_started, &c.faults).await;
        }
        drop(app);
    }
    while ids.len() < c.acts.len() {
        ids.push(Ids::default());
    }
    let log = read_log(&data);
    // the harness's own expectation, checked: a snapshot write planned to fail left no readable snapshot of that run
    // (an empty file after snap.write.body, no file otherwise), the others did
    for (i, id) in ids.iter().enumerate() {
        if let (true, Some(sid)) = (plan.any, &id.sid) {
            let written = std::fs::read(data.join("snapshots").join(format!("{sid}.json"))).map(|b| !b.is_empty()).unwrap_or(false);
            // (a tool that replaces the snapshot directory removes the earlier runs' snapshots with it)
            let dir_replaced = c.acts.iter().any(|a| act_damage(a).contains(&Target::SnapDir));
            if written == plan.snap_fails[i] && !(dir_replaced && !plan.snap_fails[i]) {
                return Err(format!("failing side writes: the snapshot of activity {i} was {} although the case planned the opposite", if written { "written" } else { "not written" }));
            }
        }
    }
    let asked: Vec<Option<usize>> = providers.iter().map(|p| p.as_ref().map(|sp| sp.recorded().len())).collect();
    drop(providers);
    let panics = PANICS.lock().map(|g| g[snaps_before.panics.min(g.len())..].to_vec()).unwrap_or_default();
    Ok(Exec { ids, preds, log, thread, hang, panics, asked })
}

// ------------------------------------------------------------------ model terms
/// stdout / stderr frame counts of each tool invocation, measured once per harness run on a
/// calibration store (tool envelope, unlinked session)
type Calib = BTreeMap<Tool, (u64, u64)>;

/// what a damaged side directory means for the MEASURED part of a tool's outcome: `noart` = `.rip/artifacts` is damaged
/// (the overflow artifact of a `bash` call cannot be written: other stdout / stderr frame counts, calibrated in that state).
/// What the model derives itself from the failure pattern (`k_swf`: compile failure, failed auto checkpoint) is NOT put
/// into the terms here.
#[derive(Clone, Copy, Default)]
struct Cx {
    noart: bool,
}
fn tool_out_term(t: Tool, res: &str, _cx: Cx) -> String {
    format!("{{| t_auto := {}; t_res := {} |}}", t.auto(), res)
}
/// a calibration entry whose tool ended with tool_failed instead of tool_ended
const CAL_FAILED: (u64, u64) = (u64::MAX, 0);
fn tool_res(t: Tool, cal: &Calib, expires: bool, cx: Cx) -> String {
    if expires {
        return "TTimeout".into();
    }
    let t = if t == Tool::BashOverflow && cx.noart { Tool::BashOverflowDamaged } else { t };
    if cal.get(&t) == Some(&CAL_FAILED) {
        // (started, failed: the same two frames as an unknown tool)
        return "TUnknown".into();
    }
    match t {
        Tool::Unknown => "TUnknown".into(),
        // predicted, not measured: one stdout chunk = the file cut as `read` cuts it
        Tool::ReadCut(k) => format!("(TReadCut {} {k})", coq_list(&segments(UTF8_FILE), |(c, n)| format!("({c}, {n})"))),
        _ => {
            let (o, e) = cal.get(&t).copied().unwrap_or((0, 0));
            format!("(TDone {o} {e})")
        }
    }
}
fn allowed(c: Choice, t: Tool) -> bool {
    match c {
        Choice::Auto | Choice::Invalid | Choice::Required => true,
        Choice::OnlyLs | Choice::AllowedLs => t.name() == "ls",
        Choice::OnlyBash => t.name() == "bash",
        Choice::NoTools | Choice::AllowedModeNone => false,
    }
}
fn call_term(t: Tool, ch: Choice, cal: &Calib, cx: Cx) -> String {
    format!("{{| c_allowed := {}; c_lock := {}; c_tool := {} |}}", coq_bool(allowed(ch, t)), coq_bool(t.lock()), tool_out_term(t, &tool_res(t, cal, false, cx), cx))
}
fn reqs_term(p: &ProviderSpec, preds: &[Pred], cal: &Calib, cx: Cx) -> String {
    let mut out: Vec<String> = vec![];
    if choice_invalid(p.choice) {
        out.push("RInvalid".into());
    } else if p.closed_port {
        out.push("RSendErr".into());
    } else {
        for pr in preds {
            out.push(match pr {
                Pred::Http(st, segs) => {
                    // `{status}` as reqwest prints it: the code and its canonical reason phrase
                    let shown = axum::http::StatusCode::from_u16(*st).map(|c| c.to_string()).unwrap_or_default();
                    let bytes: Vec<u64> = shown.bytes().map(|b| b as u64).collect();
                    format!("(RHttpErr {} {})", coq_list_n(&bytes), coq_list(segs, |(c, n)| format!("({c}, {n})")))
                }
                Pred::Empty => "REmpty".into(),
                Pred::Stream(s) => {
                    let pf = coq_list(&s.pf, |b| coq_bool(*b).to_string());
                    match s.class {
                        1 => "RFirstErr".into(),
                        2 => format!("(RMidErr {pf})"),
                        _ => format!("(ROk {pf} {} {})", coq_bool(s.has_id), coq_list(&s.calls, |t| call_term(*t, p.choice, cal, cx))),
                    }
                }
            });
        }
    }
    coq_list(&out, |s| s.clone())
}
fn input_term(i: &InputSpec, p: Option<&ProviderSpec>, preds: &[Pred], cal: &Calib, compile_ok: bool, cx: Cx) -> String {
    match i {
        InputSpec::Prompt => format!("(IPrompt {} {})", coq_bool(compile_ok), match p { Some(p) => reqs_term(p, preds, cal, cx), None => "[]".into() }),
        InputSpec::ToolEnv { tool, tmo } => format!("(ITool {} {})", coq_bool(tool.lock()), tool_out_term(*tool, &tool_res(*tool, cal, *tmo == 2, cx), cx)),
        InputSpec::CkCreate { ok } => format!("(ICheckpoint {})", if *ok { "CkCreatedOk" } else { "CkFail" }),
        InputSpec::CkCreateEmpty => "(ICheckpoint CkCreatedOk)".to_string(),
        InputSpec::CkRewindMissing => "(ICheckpoint CkFail)".into(),
        InputSpec::CkRewindOwn => "(ICheckpoint CkRewoundOk)".into(),
    }
}
fn cfg_term(p: Option<&ProviderSpec>) -> String {
    format!("{{| g_provider := {}; g_stateless := {} |}}", coq_bool(p.is_some()), coq_bool(p.map(|p| p.stateless).unwrap_or(false)))
}

/// message frames with the content of activity `i`'s post (the harness gives every post its own text)
fn orphan_frames(log: &[Line], i: usize) -> Vec<&Line> {
    let text = input_text(&InputSpec::Prompt, i);
    log.iter().filter(|l| l.ty == "continuity_message_appended" && l.s("content") == text).collect()
}

/// Coq `case` term + the flat expectation, or None when an activity was refused (nothing to compare)
fn case_term(c: &Case, ex: &Exec, cal: &Calib) -> Option<String> {
    let mut idmap = BTreeMap::new();
    for (i, id) in ex.ids.iter().enumerate() {
        if let Some(s) = &id.sid {
            idmap.insert(s.clone(), 100 + i as u64);
        }
        if let Some(m) = &id.mid {
            idmap.insert(m.clone(), 200 + i as u64);
        }
        if let Some(j) = &id.job {
            idmap.insert(j.clone(), 300 + i as u64);
        }
        for (r, (sid, _)) in id.race.iter().enumerate() {
            idmap.insert(sid.clone(), 10_000 + 1000 * i as u64 + r as u64);
        }
    }
    let idmap = IdMap(idmap);
    let plan = side_plan(c);
    // the compile outcome of a linked provider run: predicted - fails iff the summaries / the artifact directory are broken -
    // except after a sidecar FILE was made a directory (which reader falls back to the log is C05/C08's business): observed
    let compile_ok = |i: usize, sid: &str| -> bool {
        if plan.compile_observed[i] && !plan.no_artifacts[i] {
            !ex.log.iter().any(|l| l.stream == sid && l.ty == "session_ended" && l.s("reason") == "context_compile_failed")
        } else {
            // (a damaged artifact directory is in `k_swf`: the model turns it into the compile failure)
            !c.break_summaries
        }
    };
    let cut_tools = read_cut_tool_ids(&ex.log);
    let njobs = ex.ids.iter().filter(|i| i.job.is_some()).count();
    let mut acts = vec![];
    let mut expects = vec![];
    let mut races: Vec<String> = vec![];
    let mut drops: Vec<String> = vec![];
    for (i, (a, id)) in c.acts.iter().zip(&ex.ids).enumerate() {
        if let (Act::PostDrop { .. }, true) = (a, id.dropped) {
            // what the dropped request left in the log (the model says: nothing)
            let left = orphan_frames(&ex.log, i);
            let mut flat = vec![left.len() as u64];
            for _ in &left {
                flat.extend([2, 20, 0]);
            }
            drops.push(coq_list_n(&flat));
            continue;
        }
        if let Act::InputRace { input, n, stepped, .. } = a {
            if *stepped {
                // the forced schedule: the model plays the guard it has (Gen ties its kind to runner.rs)
                races.extend(id.race.iter().map(|(_, k)| format!("({n}, {k})")));
            }
            // exactly one of the concurrent inputs started a run: each round is one unlinked session run
            for (r, (sid, accepted)) in id.race.iter().enumerate() {
                if *accepted != 1 {
                    return None;
                }
                let num = 10_000 + 1000 * i as u64 + r as u64;
                let owned: Vec<&Line> = ex.log.iter().filter(|l| l.is_session() && l.stream == *sid).collect();
                let mut flat = vec![owned.len() as u64];
                for l in owned {
                    flat.extend(enc_line(l, &idmap, &cut_tools));
                }
                acts.push(format!("(AInput {} {} {})", cfg_term(None), num, input_term(input, None, &[], cal, true, Cx::default())));
                expects.push(coq_list_n(&flat));
            }
            continue;
        }
        let (term, owned): (String, Vec<&Line>) = match a {
            Act::Post { .. } | Act::PostDrop { .. } => {
                let (input, provider) = match a {
                    Act::Post { input, provider } => (input.clone(), provider.clone()),
                    _ => (InputSpec::Prompt, None),
                };
                let (input, provider) = (&input, &provider);
                let (Some(sid), Some(mid)) = (&id.sid, &id.mid) else { return None };
                let t = format!("APost {} {} {} {}", cfg_term(provider.as_ref()), 200 + i, 100 + i, input_term(input, provider.as_ref(), &ex.preds[i], cal, compile_ok(i, sid), Cx { noart: plan.no_artifacts[i] }));
                let o = ex.log.iter().filter(|l| (l.is_session() && l.stream == *sid) || (l.is_cont() && ((l.ty == "continuity_message_appended" && l.id == *mid) || l.s("run_session_id") == *sid))).collect();
                (t, o)
            }
            Act::Input { input, provider } => {
                let Some(sid) = &id.sid else { return None };
                if id.status != 202 {
                    return None;
                }
                let t = format!("AInput {} {} {}", cfg_term(provider.as_ref()), 100 + i, input_term(input, provider.as_ref(), &ex.preds[i], cal, true, Cx { noart: plan.no_artifacts[i] }));
                let o = ex.log.iter().filter(|l| l.is_session() && l.stream == *sid).collect();
                (t, o)
            }
            Act::Input2 { first, .. } => {
                // a second input on a started session must be refused; the session is the first input's run
                let Some(sid) = &id.sid else { return None };
                if id.status != 202 || id.status2 == 202 {
                    return None;
                }
                let t = format!("AInput {} {} {}", cfg_term(None), 100 + i, input_term(first, None, &[], cal, true, Cx::default()));
                let o = ex.log.iter().filter(|l| l.is_session() && l.stream == *sid).collect();
                (t, o)
            }
            Act::InputRace { .. } => continue,
            Act::Job { .. } => {
                let Some(j) = &id.job else { continue };
                if njobs != 1 {
                    return None;
                }
                let fail = matches!(a, Act::Job { fail: true, .. });
                let early = matches!(a, Act::Job { early_err: true, .. });
                let t = if early { format!("AJob {} JEarlyErr", 300 + i) } else if fail { format!("AJob {} (JFail 0)", 300 + i) } else { format!("AJob {} (JDone {})", 300 + i, id.planned) };
                // checkpoints written after this job's spawn frame are the job's (one job per case)
                let spawn_pos = ex.log.iter().find(|l| l.ty == "continuity_job_spawned" && l.s("job_id") == *j).map(|l| l.pos).unwrap_or(usize::MAX);
                let o = ex
                    .log
                    .iter()
                    .filter(|l| l.is_cont() && ((l.ty == "continuity_compaction_checkpoint_created" && l.pos > spawn_pos) || ((l.ty == "continuity_job_spawned" || l.ty == "continuity_job_ended") && l.s("job_id") == *j)))
                    .collect();
                (t, o)
            }
        };
        let mut flat = vec![owned.len() as u64];
        for l in owned {
            if l.ty == "continuity_compaction_checkpoint_created" {
                flat.extend([2, 27, 300 + i as u64]);
            } else {
                flat.extend(enc_line(l, &idmap, &cut_tools));
            }
        }
        acts.push(format!("({term})"));
        expects.push(coq_list_n(&flat));
    }
    let faults: Vec<u64> = c.faults.iter().map(|f| f.code()).collect();
    // the failing side writes of each run, under the number the run's session id has in the model
    let swf: Vec<String> = plan.codes.iter().enumerate().filter(|(i, cs)| !cs.is_empty() && ex.ids.get(*i).map(|d| d.sid.is_some()).unwrap_or(false)).map(|(i, cs)| format!("({}, {})", 100 + i, coq_list_n(cs))).collect();
    Some(format!(
        "{{| k_acts := {}; k_expect := {}; k_races := {}; k_faults := {}; k_drops := {}; k_swf := {} |}}",
        coq_list(&acts, |s| s.clone()),
        coq_list(&expects, |s| s.clone()),
        coq_list(&races, |s| s.clone()),
        coq_list_n(&faults),
        coq_list(&drops, |s| s.clone()),
        coq_list(&swf, |s| s.clone())
    ))
}

// ------------------------------------------------------------------ generator
/// Byte offsets at which the run path may cut a text: every integer literal (16..=70000) in the non-test part
/// of the sources on the provider / run path, read from the tree under test, plus the usual powers of two.
/// (A cap somebody adds tomorrow is a literal in one of these files.)
fn source_literals(repo: &Path) -> Vec<u32> {
    let mut out = BTreeSet::new();
    for f in ["crates/ripd/src/session.rs", "crates/ripd/src/runner.rs", "crates/ripd/src/provider_openresponses.rs", "crates/rip-provider-openresponses/src/lib.rs", "crates/rip-tools/src/runtime.rs"] {
        let Ok(text) = std::fs::read_to_string(repo.join(f)) else { continue };
        let text = match text.find("#[cfg(test)]") {
            Some(i) => &text[..i],
            None => &text[..],
        };
        for line in text.lines() {
            let line = line.split("//").next().unwrap_or("");
            let b: Vec<char> = line.chars().collect();
            let mut i = 0;
            let mut in_str = false;
            while i < b.len() {
                if b[i] == '"' && (i == 0 || b[i - 1] != '\\') {
                    in_str = !in_str;
                }
                let starts = !in_str && b[i].is_ascii_digit() && (i == 0 || !(b[i - 1].is_alphanumeric() || b[i - 1] == '_' || b[i - 1] == '.'));
                if starts {
                    let mut j = i;
                    let mut v: u64 = 0;
                    while j < b.len() && (b[j].is_ascii_digit() || b[j] == '_') {
                        if let Some(d) = b[j].to_digit(10) {
                            v = v.saturating_mul(10).saturating_add(d as u64);
                        }
                        j += 1;
                    }
                    if (16..=70_000).contains(&v) && !(j < b.len() && b[j] == '.') {
                        out.insert(v as u32);
                    }
                    i = j;
                } else {
                    i += 1;
                }
            }
        }
    }
    out.into_iter().collect()
}
const POW2_CAPS: [u32; 11] = [64, 128, 256, 512, 1024, 2048, 4096, 8192, 16384, 32768, 65536];
const ERR_STATUSES: [u16; 8] = [400, 401, 404, 429, 500, 502, 503, 504];

fn gen_body(r: &mut Rng, caps: &[u32]) -> BodySpec {
    let at = *r.pick(caps);
    let w = r.range(1, 4) as u32;
    let back = r.below(w as u64) as u32;
    let total = match r.below(4) {
        0 => at.saturating_sub(r.below(3) as u32),
        1 => at + r.range(1, 8) as u32,
        2 => at + r.range(9, 400) as u32,
        _ => at * 2 + r.below(50) as u32,
    };
    let mut b = BodySpec::straddling(at, w, back, total);
    if r.chance(1, 3) {
        b.tail = r.range(1, 40) as u32;
    }
    b
}

/// the cut sweep: for the offset `at`, character widths 1..4, every alignment of a character against `at`
/// (and, for ASCII, total lengths at-1, at, at+1), as HTTP error bodies of linked runs
fn body_sweep(at: u32, r: &mut Rng) -> Vec<Case> {
    let mut out = vec![];
    for w in 1..=4u32 {
        let mut bodies: Vec<BodySpec> = (0..w).map(|back| BodySpec::straddling(at, w, back, at + 40)).collect();
        if w == 1 {
            bodies.extend([at.saturating_sub(1), at, at + 1].map(|n| BodySpec { prefix: 0, cp: 'a' as u32, count: n, tail: 0 }));
        } else {
            // mixed: the straddling character is the only wide one
            bodies.push(BodySpec { prefix: at - 1, cp: bodies[1].cp, count: 1, tail: 30 });
        }
        let acts = bodies
            .into_iter()
            .map(|body| Act::Post { input: InputSpec::Prompt, provider: Some(ProviderSpec { stateless: false, choice: Choice::Auto, closed_port: false, forever: false, reqs: vec![Req::HttpBody { status: *r.pick(&ERR_STATUSES), body }] }) })
            .collect();
        out.push(Case { faults: vec![], side_faults: vec![], engine: w % 2 == 0, parallel: false, acts, break_summaries: false });
    }
    out
}

fn gen_events(r: &mut Rng, calls: &[Tool], with_id: bool) -> Vec<Sse> {
    let mut ev = vec![];
    if r.chance(4, 5) {
        ev.push(Sse::Created { id: with_id });
    }
    let n = r.below(4);
    for _ in 0..n {
        ev.push(match r.below(6) {
            0 => Sse::Malformed,
            1 => Sse::SchemaInvalid,
            _ => Sse::Delta,
        });
    }
    for t in calls {
        ev.push(Sse::Call(*t));
        if r.chance(1, 4) {
            ev.push(Sse::Delta);
        }
    }
    if r.chance(1, 2) {
        ev.push(Sse::Completed { id: with_id || r.chance(1, 2) });
    }
    ev
}
fn gen_cuts(r: &mut Rng) -> Vec<u64> {
    (0..r.below(4)).map(|_| r.range(1, 999)).collect()
}
fn gen_provider(r: &mut Rng, engine: bool, caps: &[u32]) -> ProviderSpec {
    let stateless = r.chance(1, 3);
    let choice = if engine { *r.pick(&[Choice::Auto, Choice::OnlyLs, Choice::OnlyLs, Choice::NoTools, Choice::Invalid, Choice::Required, Choice::AllowedLs, Choice::AllowedModeNone, Choice::OnlyBash]) } else { Choice::Auto };
    if r.chance(1, 12) {
        // a provider that never stops asking for tools: 0..2 ordinary rounds, then the same round for ever
        let prefix = r.below(3) as usize;
        return forever_provider(r, stateless, if choice == Choice::Invalid { Choice::NoTools } else { choice }, prefix);
    }
    let closed_port = r.chance(1, 14);
    let rounds = *r.pick(&[0u64, 0, 1, 1, 2, 3]);
    let mut reqs = vec![];
    for k in 0..=rounds {
        let last = k == rounds;
        let ncalls = if last { 0 } else { r.range(1, 3) };
        let calls: Vec<Tool> = (0..ncalls).map(|_| gen_call_tool(r)).collect();
        // a tool round needs a response id unless the history is stateless; sometimes leave it out
        let with_id = r.chance(9, 10);
        let fault = r.below(if last { 3 } else { 9 });
        let events = gen_events(r, &calls, with_id);
        reqs.push(match fault {
            0 if last || r.chance(1, 3) => match r.below(6) {
                0 if r.chance(1, 2) => Req::Http(*r.pick(&[400u16, 401, 404, 429, 500, 503])),
                0 => Req::HttpBody { status: *r.pick(&ERR_STATUSES), body: gen_body(r, caps) },
                1 => Req::Empty,
                2 | 3 => {
                    // drop at byte k of the body
                    let (sc, _) = build_stream("x", 0, &events, true, false, &[], None);
                    let total: usize = sc.chunks.iter().map(|c| c.len()).sum();
                    Req::Stream { events, done: true, partial_tail: false, cuts: gen_cuts(r), drop_at: Some(r.below(total as u64 + 1)) }
                }
                4 => Req::Stream { events, done: false, partial_tail: r.chance(1, 2), cuts: gen_cuts(r), drop_at: None },
                _ => Req::Stream { events: vec![], done: r.chance(1, 2), partial_tail: false, cuts: vec![], drop_at: None },
            },
            _ => Req::Stream { events, done: r.chance(5, 6), partial_tail: false, cuts: gen_cuts(r), drop_at: None },
        });
    }
    ProviderSpec { stateless, choice, closed_port, reqs, forever: false }
}
/// `prefix` ordinary tool rounds, then one round of 1..3 calls repeated for ever (every round carries a response id,
/// so the stateful follow-up is possible too)
fn forever_provider(r: &mut Rng, stateless: bool, choice: Choice, prefix: usize) -> ProviderSpec {
    let mut reqs = vec![];
    for _ in 0..=prefix {
        let calls: Vec<Tool> = (0..r.range(1, 3)).map(|_| gen_call_tool(r)).collect();
        reqs.push(Req::Stream { events: gen_events(r, &calls, true), done: r.chance(5, 6), partial_tail: false, cuts: gen_cuts(r), drop_at: None });
    }
    ProviderSpec { stateless, choice, closed_port: false, reqs, forever: true }
}
/// the stubborn model of the seeded change: every answer is exactly these calls, nothing else
fn stubborn_provider(stateless: bool, choice: Choice, calls: &[Tool]) -> ProviderSpec {
    let events: Vec<Sse> = std::iter::once(Sse::Created { id: true }).chain(calls.iter().map(|t| Sse::Call(*t))).collect();
    ProviderSpec { stateless, choice, closed_port: false, reqs: vec![text_req(events)], forever: true }
}
fn gen_call_tool(r: &mut Rng) -> Tool {
    if r.chance(1, 8) {
        Tool::ReadCut(r.below(80) as u8)
    } else {
        *r.pick(&CALL_TOOLS)
    }
}
fn gen_input(r: &mut Rng) -> InputSpec {
    match r.below(10) {
        0..=5 => InputSpec::Prompt,
        6 | 7 => {
            if r.chance(1, 6) {
                InputSpec::ToolEnv { tool: Tool::BashSleep, tmo: 2 }
            } else {
                InputSpec::ToolEnv { tool: gen_call_tool(r), tmo: r.below(2) as u8 }
            }
        }
        8 => if r.chance(1, 4) { InputSpec::CkCreateEmpty } else { InputSpec::CkCreate { ok: r.chance(2, 3) } },
        _ if r.chance(1, 2) => InputSpec::CkRewindOwn,
        _ => InputSpec::CkRewindMissing,
    }
}
/// an input a router post can carry (no own-checkpoint rewind: the session id is not known before)
fn gen_input_router(r: &mut Rng) -> InputSpec {
    match gen_input(r) {
        InputSpec::CkRewindOwn => InputSpec::CkRewindMissing,
        x => x,
    }
}
fn gen_case(r: &mut Rng, i: usize, caps: &[u32]) -> Case {
    if i % 25 == 7 {
        // a summarizer job that fails: posts through the kernel stub (no tool writes artifacts), then the job
        let mut acts: Vec<Act> = (0..r.range(1, 3)).map(|_| Act::Post { input: InputSpec::Prompt, provider: None }).collect();
        acts.push(Act::Job { stride: 1, max_new: r.range(1, 3), fail: true, early_err: false });
        return Case { faults: vec![], side_faults: vec![], engine: false, parallel: false, acts, break_summaries: false };
    }
    if i % 25 == 19 {
        // posts whose clients hang up (with and without a contended session map), among ordinary posts
        let mut acts: Vec<Act> = vec![];
        for _ in 0..r.range(2, 4) {
            acts.push(if r.chance(1, 2) { Act::PostDrop { hold: r.chance(2, 3) } } else { Act::Post { input: gen_input_router(r), provider: None } });
        }
        acts.push(Act::PostDrop { hold: true });
        return Case { faults: vec![], side_faults: vec![], engine: false, parallel: false, acts, break_summaries: false };
    }
    let engine = i % 3 == 2;
    if i % 25 == 11 {
        // concurrent inputs to fresh sessions, raced (odd: forced through the hook point)
        let stepped = (i / 25) % 2 == 1;
        let act = Act::InputRace { rounds: if stepped { 2 } else { r.range(5, 15) as u32 }, n: r.range(2, 4) as u8, input: if r.chance(1, 3) { InputSpec::ToolEnv { tool: Tool::Ls, tmo: 0 } } else { InputSpec::Prompt }, stepped };
        let mut acts = vec![act];
        if r.chance(1, 2) {
            acts.push(Act::Post { input: InputSpec::Prompt, provider: None });
        }
        return Case { faults: vec![], side_faults: vec![], engine, parallel: false, acts, break_summaries: false };
    }
    let nacts = *r.pick(&[1usize, 1, 1, 2, 2, 3]);
    let parallel = nacts > 1 && r.chance(2, 3);
    let mut acts = vec![];
    let mut default_used = false;
    for _ in 0..nacts {
        let mut input = gen_input(r);
        let linked = r.chance(3, 4);
        if input == InputSpec::CkRewindOwn && linked && !engine {
            input = InputSpec::CkRewindMissing;
        }
        let want_provider = matches!(input, InputSpec::Prompt) && r.chance(5, 6);
        if linked {
            acts.push(Act::Post { provider: if want_provider { Some(gen_provider(r, engine, caps)) } else { None }, input });
        } else {
            // through the router an unlinked session can only use the app's default provider: one per case
            let p = if want_provider && (engine || !default_used) { Some(gen_provider(r, engine, caps)) } else { None };
            if p.is_some() && !engine {
                default_used = true;
            }
            acts.push(Act::Input { provider: p, input });
        }
    }
    if !engine && default_used {
        // with an app-level default, a router post without override would use it too: give every prompt post its own
        for a in acts.iter_mut() {
            match a {
                Act::Post { input: InputSpec::Prompt, provider } if provider.is_none() => *provider = Some(gen_provider(r, false, caps)),
                // … and so would a second unlinked prompt: make it an envelope
                Act::Input { input, provider: None } if *input == InputSpec::Prompt => *input = InputSpec::ToolEnv { tool: Tool::Ls, tmo: 0 },
                _ => {}
            }
        }
    }
    if !engine && r.chance(1, 5) {
        acts.push(Act::Job { stride: r.range(1, 2), max_new: r.range(1, 3), fail: false, early_err: r.chance(1, 4) });
    }
    // (the preamble post would consume the app-level default provider's first script)
    let break_summaries = !engine && !default_used && r.chance(1, 7);
    // now and then some of the run's own thread appends fail (AppendOk does not hold)
    const FAULTS: [Fault; 5] = [Fault::Selection, Fault::Compiled, Fault::SideEffects, Fault::Cursor, Fault::RunEnded];
    let mut faults: Vec<Fault> = if r.chance(1, 7) { (0..r.range(1, 2)).map(|_| *r.pick(&FAULTS)).collect() } else { vec![] };
    faults.sort();
    faults.dedup();
    // … and now and then every snapshot write of the case fails (the runs' closing frames do not depend on it)
    let plain = acts.iter().all(|a| matches!(a, Act::Post { .. } | Act::Input { .. }));
    let side_faults = if plain && r.chance(1, 9) { vec![*r.pick(&[SideFault::SnapWrite, SideFault::SnapWriteBody])] } else { vec![] };
    Case { faults, side_faults, engine, parallel, acts, break_summaries }
}

fn text_req(events: Vec<Sse>) -> Req {
    Req::Stream { events, done: true, partial_tail: false, cuts: vec![], drop_at: None }
}
fn corpus() -> Vec<Case> {
    let p = |reqs: Vec<Req>, stateless: bool, choice: Choice| ProviderSpec { stateless, choice, closed_port: false, forever: false, reqs };
    let post = |reqs: Vec<Req>| Act::Post { input: InputSpec::Prompt, provider: Some(p(reqs, false, Choice::Auto)) };
    vec![
        // text only
        Case { faults: vec![], side_faults: vec![], break_summaries: false, engine: false, parallel: false, acts: vec![post(vec![text_req(vec![Sse::Created { id: true }, Sse::Delta, Sse::Delta, Sse::Completed { id: true }])])] },
        // no provider at all (kernel stub)
        Case { faults: vec![], side_faults: vec![], break_summaries: false, engine: false, parallel: false, acts: vec![Act::Post { input: InputSpec::Prompt, provider: None }] },
        // one tool round with a workspace-mutating tool, then text: selection, compiled, side effects, cursor
        Case { faults: vec![], side_faults: vec![], break_summaries: false, engine: false, parallel: false, acts: vec![post(vec![text_req(vec![Sse::Created { id: true }, Sse::Call(Tool::WriteOk), Sse::Call(Tool::Ls)]), text_req(vec![Sse::Created { id: true }, Sse::Delta])])] },
        // tool round without a response id: provider_error
        Case { faults: vec![], side_faults: vec![], break_summaries: false, engine: false, parallel: false, acts: vec![post(vec![text_req(vec![Sse::Created { id: false }, Sse::Call(Tool::BashEcho)])])] },
        // every early exit of one request
        Case { faults: vec![], side_faults: vec![], break_summaries: false, engine: false, parallel: false, acts: vec![post(vec![Req::Http(500)]), post(vec![Req::Empty]), post(vec![Req::Stream { events: vec![Sse::Created { id: true }, Sse::Delta], done: true, partial_tail: false, cuts: vec![], drop_at: Some(0) }])] },
        Case { faults: vec![], side_faults: vec![], break_summaries: false, engine: false, parallel: false, acts: vec![post(vec![Req::Stream { events: vec![Sse::Created { id: true }, Sse::Delta, Sse::Delta], done: true, partial_tail: false, cuts: vec![500], drop_at: Some(150) }])] },
        // envelopes, linked and not
        Case { faults: vec![], side_faults: vec![], break_summaries: false, engine: false, parallel: true, acts: vec![Act::Post { input: InputSpec::ToolEnv { tool: Tool::WriteOk, tmo: 0 }, provider: None }, Act::Input { input: InputSpec::ToolEnv { tool: Tool::BashSleep, tmo: 2 }, provider: None }, Act::Post { input: InputSpec::CkCreate { ok: true }, provider: None }] },
        // restricted / barred / invalid tool_choice (engine)
        Case { faults: vec![], side_faults: vec![], break_summaries: false, engine: true, parallel: false, acts: vec![Act::Post { input: InputSpec::Prompt, provider: Some(p(vec![text_req(vec![Sse::Created { id: true }, Sse::Call(Tool::Ls), Sse::Call(Tool::BashEcho)]), text_req(vec![Sse::Delta])], false, Choice::OnlyLs)) }] },
        Case { faults: vec![], side_faults: vec![], break_summaries: false, engine: true, parallel: false, acts: vec![Act::Post { input: InputSpec::Prompt, provider: Some(p(vec![text_req(vec![Sse::Delta])], false, Choice::Invalid)) }] },
        // parallel runs on one thread + a job
        Case { faults: vec![], side_faults: vec![], break_summaries: false, engine: false, parallel: true, acts: vec![post(vec![text_req(vec![Sse::Created { id: true }, Sse::Call(Tool::BashEcho)]), text_req(vec![Sse::Delta])]), post(vec![text_req(vec![Sse::Delta])]), Act::Post { input: InputSpec::Prompt, provider: None }, Act::Job { stride: 1, max_new: 2, fail: false, early_err: false }] },
        // context compilation fails (summary artifact gone): the run ends with context_compile_failed, run_ended follows
        Case { faults: vec![], side_faults: vec![], break_summaries: true, engine: false, parallel: false, acts: vec![post(vec![text_req(vec![Sse::Delta])]), Act::Post { input: InputSpec::Prompt, provider: None }, Act::Post { input: InputSpec::ToolEnv { tool: Tool::WriteOk, tmo: 0 }, provider: None }] },
        // a job whose summarizer fails: job_ended(failed), once
        Case { faults: vec![], side_faults: vec![], break_summaries: false, engine: false, parallel: false, acts: vec![Act::Post { input: InputSpec::Prompt, provider: None }, Act::Job { stride: 1, max_new: 2, fail: true, early_err: false }] },
        // a job whose task cannot replay the thread: job_spawned, then nothing (ended zero times - at most once holds)
        Case { faults: vec![], side_faults: vec![], break_summaries: false, engine: false, parallel: false, acts: vec![Act::Post { input: InputSpec::Prompt, provider: None }, Act::Post { input: InputSpec::Prompt, provider: None }, Act::Job { stride: 1, max_new: 2, fail: false, early_err: true }] },
        // S6: two inputs on one session
        Case { faults: vec![], side_faults: vec![], break_summaries: false, engine: false, parallel: false, acts: vec![Act::Input2 { first: InputSpec::Prompt, second: InputSpec::Prompt, wait: true }] },
        Case { faults: vec![], side_faults: vec![], break_summaries: false, engine: false, parallel: false, acts: vec![Act::Input2 { first: InputSpec::ToolEnv { tool: Tool::BashEcho, tmo: 0 }, second: InputSpec::Prompt, wait: false }, Act::Post { input: InputSpec::Prompt, provider: None }] },
        // a session rewinds a checkpoint filed under its own id: checkpoint_rewound
        Case { faults: vec![], side_faults: vec![], break_summaries: false, engine: false, parallel: false, acts: vec![Act::Input { input: InputSpec::CkRewindOwn, provider: None }] },
        Case { faults: vec![], side_faults: vec![], break_summaries: false, engine: true, parallel: false, acts: vec![Act::Post { input: InputSpec::CkRewindOwn, provider: None }, Act::Input { input: InputSpec::CkRewindOwn, provider: None }] },
        // AppendOk is necessary (c07_end_dropped_when_append_fails_refuted, replayed): run_ended cannot be appended
        Case { side_faults: vec![], faults: vec![Fault::RunEnded], break_summaries: false, engine: false, parallel: false, acts: vec![Act::Post { input: InputSpec::Prompt, provider: None }] },
        // every thread append of a full run fails in turn: the session stream and the other thread frames are untouched
        Case { side_faults: vec![], faults: vec![Fault::Selection, Fault::SideEffects], break_summaries: false, engine: false, parallel: false, acts: vec![post(vec![text_req(vec![Sse::Created { id: true }, Sse::Call(Tool::WriteOk)]), text_req(vec![Sse::Created { id: true }, Sse::Delta])])] },
        Case { side_faults: vec![], faults: vec![Fault::Compiled, Fault::Cursor, Fault::RunEnded], break_summaries: false, engine: false, parallel: false, acts: vec![post(vec![text_req(vec![Sse::Created { id: true }, Sse::Call(Tool::WriteOk)]), text_req(vec![Sse::Created { id: true }, Sse::Delta])]), Act::Post { input: InputSpec::ToolEnv { tool: Tool::BashEcho, tmo: 0 }, provider: None }] },
        // concurrent inputs to one session, forced through the guard point: one run
        Case { faults: vec![], side_faults: vec![], break_summaries: false, engine: true, parallel: false, acts: vec![Act::InputRace { rounds: 2, n: 2, input: InputSpec::Prompt, stepped: true }] },
        Case { faults: vec![], side_faults: vec![], break_summaries: false, engine: false, parallel: false, acts: vec![Act::InputRace { rounds: 2, n: 2, input: InputSpec::Prompt, stepped: true }] },
        // a long localized error page: 'x' then 2-byte characters, a character straddles offset 2048
        Case { faults: vec![], side_faults: vec![], break_summaries: false, engine: false, parallel: false, acts: vec![post(vec![Req::HttpBody { status: 502, body: BodySpec { prefix: 1, cp: 0xE9, count: 4000, tail: 0 } }])] },
        // the client of a post hangs up while the handler is suspended at the session map's lock (and, uncontended, never suspends)
        Case { faults: vec![], side_faults: vec![], break_summaries: false, engine: false, parallel: false, acts: vec![Act::Post { input: InputSpec::Prompt, provider: None }, Act::PostDrop { hold: true }, Act::PostDrop { hold: false }, Act::Post { input: InputSpec::Prompt, provider: None }] },
        // tool-call limit: 3 rounds of 12 calls
        Case { faults: vec![], side_faults: vec![], break_summaries: false, engine: false, parallel: false, acts: vec![post((0..4).map(|_| text_req(std::iter::once(Sse::Created { id: true }).chain((0..12).map(|_| Sse::Call(Tool::Ls))).collect())).collect())] },
    ]
}

/// Run lifecycle under FAILING side writes.  The best-effort writes a run makes besides the log - the snapshot at its exit
/// (`<data>/snapshots/<session>.json`), the thread's sidecar / index caches (`<data>/continuity_streams`), context bundle
/// artifacts (`<ws>/.rip/artifacts`), auto checkpoints (`<ws>/.rip/checkpoints`) - are made to fail
///  (a) by the run's OWN tool, which puts a regular file where the directory should be (as a `bash` envelope of a linked
///      run, as a function call a provider asks for, from an unlinked session), or a directory where the snapshot file
///      should be (this run only);
///  (b) through the fail points `snap.write` / `snap.write.body` for every run of the case.
/// A case = [an ordinary run]? ; the damaging run ; two later runs ON THE SAME THREAD (kernel stub, provider text, provider
/// tool round, envelopes, a provider error), one after the other.  The oracle is the usual one: every run announced on the
/// thread has exactly one run_ended after its run_spawned and after its own terminal session frame - the damaging run and
/// every later one.
fn side_write_cases(r: &mut Rng, thorough: bool) -> Vec<Case> {
    let prov = |reqs: Vec<Req>| Some(ProviderSpec { stateless: false, choice: Choice::Auto, closed_port: false, forever: false, reqs });
    let text = || text_req(vec![Sse::Created { id: true }, Sse::Delta, Sse::Completed { id: true }]);
    let next = |k: u64| -> Act {
        match k % 9 {
            8 => Act::Post { input: if k % 2 == 0 { InputSpec::CkCreateEmpty } else { InputSpec::CkCreate { ok: true } }, provider: None },
            7 => Act::Post { input: InputSpec::ToolEnv { tool: Tool::BashOverflow, tmo: 0 }, provider: None },
            0 => Act::Post { input: InputSpec::Prompt, provider: None },
            1 => Act::Post { input: InputSpec::Prompt, provider: prov(vec![text()]) },
            2 => Act::Post { input: InputSpec::Prompt, provider: prov(vec![text_req(vec![Sse::Created { id: true }, Sse::Call(Tool::WriteOk), Sse::Call(Tool::Ls), Sse::Call(Tool::BashOverflow)]), text()]) },
            3 => Act::Post { input: InputSpec::ToolEnv { tool: Tool::WriteOk, tmo: 0 }, provider: None },
            4 => Act::Post { input: InputSpec::ToolEnv { tool: Tool::BashEcho, tmo: 1 }, provider: None },
            5 => Act::Input { input: InputSpec::ToolEnv { tool: Tool::Ls, tmo: 0 }, provider: None },
            _ => Act::Post { input: InputSpec::Prompt, provider: prov(vec![Req::Http(500)]) },
        }
    };
    let mut out = vec![];
    let mut k = r.below(9);
    for t in DIR_TARGETS {
        for delivery in 0..3u8 {
            for engine in [false, true] {
                let damage = match delivery {
                    0 => Act::Post { input: InputSpec::ToolEnv { tool: Tool::Damage(t), tmo: 0 }, provider: None },
                    1 => Act::Post { input: InputSpec::Prompt, provider: prov(vec![text_req(vec![Sse::Created { id: true }, Sse::Call(Tool::Damage(t))]), text()]) },
                    _ => Act::Input { input: InputSpec::ToolEnv { tool: Tool::Damage(t), tmo: 0 }, provider: None },
                };
                let variants = if thorough { 4 } else { 1 };
                for _ in 0..variants {
                    let mut acts = vec![];
                    if k % 2 == 0 {
                        acts.push(next(k / 2));
                    }
                    acts.push(damage.clone());
                    acts.push(next(k));
                    acts.push(next(k + 1 + k / 9));
                    k += 1;
                    // an unlinked session's provider would be the router's app-level default: keep those runs provider-less there
                    out.push(Case { faults: vec![], side_faults: vec![], engine, parallel: false, acts, break_summaries: false });
                }
            }
        }
    }
    // the snapshot FILE of this run cannot be created (a directory of that name): this run only, the next ones write theirs
    for (engine, linked) in [(true, true), (true, false), (false, false)] {
        let input = InputSpec::ToolEnv { tool: Tool::Damage(Target::SnapFile), tmo: 0 };
        let damage = if linked { Act::Post { input, provider: None } } else { Act::Input { input, provider: None } };
        out.push(Case { faults: vec![], side_faults: vec![], engine, parallel: false, acts: vec![next(k), damage, next(k + 1), next(k + 3)], break_summaries: false });
        k += 1;
    }
    // through the fail points: every run of the case, also all at once, also with a failing thread append next to it
    for sf in [SideFault::SnapWrite, SideFault::SnapWriteBody] {
        for engine in [false, true] {
            for parallel in [false, true] {
                let acts = vec![next(k), next(k + 2), next(k + 3)];
                k += 1;
                let faults = if parallel && engine { vec![Fault::Cursor] } else { vec![] };
                out.push(Case { faults, side_faults: vec![sf], engine, parallel, acts, break_summaries: false });
            }
        }
    }
    out
}

fn calibrate(rt: &tokio::runtime::Runtime) -> Calib {
    let sc = Scratch::new("c07cal");
    let acts: Vec<Act> = CALL_TOOLS.iter().map(|t| Act::Input { input: InputSpec::ToolEnv { tool: *t, tmo: 0 }, provider: None }).collect();
    let c = Case { faults: vec![], side_faults: vec![], engine: true, parallel: false, acts, break_summaries: false };
    let ex = rt.block_on(exec_case(&c, sc.path())).expect("calibration store");
    let mut cal = Calib::new();
    for (t, id) in CALL_TOOLS.iter().zip(&ex.ids) {
        let sid = id.sid.clone().unwrap_or_default();
        let o = ex.log.iter().filter(|l| l.stream == sid && l.ty == "tool_stdout").count() as u64;
        let e = ex.log.iter().filter(|l| l.stream == sid && l.ty == "tool_stderr").count() as u64;
        let failed = ex.log.iter().any(|l| l.stream == sid && l.ty == "tool_failed");
        cal.insert(*t, if failed && *t != Tool::Unknown { CAL_FAILED } else { (o, e) });
    }
    // the overflowing command on a store whose artifact directory was replaced by a file
    {
        let sc = Scratch::new("c07cal");
        let acts = vec![Act::Input { input: InputSpec::ToolEnv { tool: Tool::Damage(Target::Artifacts), tmo: 0 }, provider: None }, Act::Input { input: InputSpec::ToolEnv { tool: Tool::BashOverflow, tmo: 0 }, provider: None }];
        let c = Case { faults: vec![], side_faults: vec![], engine: true, parallel: false, acts, break_summaries: false };
        let ex = rt.block_on(exec_case(&c, sc.path())).expect("calibration store");
        let sid = ex.ids[1].sid.clone().unwrap_or_default();
        let o = ex.log.iter().filter(|l| l.stream == sid && l.ty == "tool_stdout").count() as u64;
        let e = ex.log.iter().filter(|l| l.stream == sid && l.ty == "tool_stderr").count() as u64;
        let failed = ex.log.iter().any(|l| l.stream == sid && l.ty == "tool_failed");
        cal.insert(Tool::BashOverflowDamaged, if failed { CAL_FAILED } else { (o, e) });
    }
    // the damaging commands, each on a store of its own (engine route: the session id is known when the input is written)
    for t in DIR_TARGETS.iter().chain(std::iter::once(&Target::SnapFile)) {
        let sc = Scratch::new("c07cal");
        let tool = Tool::Damage(*t);
        let c = Case { faults: vec![], side_faults: vec![], engine: true, parallel: false, acts: vec![Act::Input { input: InputSpec::ToolEnv { tool, tmo: 0 }, provider: None }], break_summaries: false };
        let ex = rt.block_on(exec_case(&c, sc.path())).expect("calibration store");
        let sid = ex.ids[0].sid.clone().unwrap_or_default();
        let o = ex.log.iter().filter(|l| l.stream == sid && l.ty == "tool_stdout").count() as u64;
        let e = ex.log.iter().filter(|l| l.stream == sid && l.ty == "tool_stderr").count() as u64;
        cal.insert(tool, (o, e));
    }
    cal
}

fn label(c: &Case) -> Vec<String> {
    let mut v = vec![format!("route={}", if c.engine { "engine" } else { "router" }), format!("acts={}", c.acts.len()), format!("parallel={}", c.parallel)];
    if c.break_summaries {
        v.push("compile=fails".into());
    }
    for f in &c.faults {
        v.push(format!("append-fails={f:?}"));
    }
    for f in &c.side_faults {
        v.push(format!("side-write-fails={f:?}(fail point)"));
    }
    for a in &c.acts {
        for t in act_damage(a) {
            v.push(format!("side-write-fails={t:?}(damaged by the run's tool: {})", match a { Act::Input { .. } => "unlinked envelope", Act::Post { input: InputSpec::Prompt, .. } => "provider call", _ => "linked envelope" }));
        }
    }
    for a in &c.acts {
        match a {
            Act::Post { input, provider } | Act::Input { input, provider } => {
                v.push(format!("linked={}", matches!(a, Act::Post { .. })));
                v.push(match input {
                    InputSpec::Prompt => "input=prompt".to_string(),
                    InputSpec::ToolEnv { tmo: 2, .. } => "input=tool-timeout".to_string(),
                    InputSpec::ToolEnv { tool: Tool::ReadCut(_), .. } => "input=tool-ReadCut".to_string(),
                    InputSpec::ToolEnv { tool: Tool::Damage(_), .. } => "input=tool-Damage".to_string(),
                    InputSpec::ToolEnv { tool, .. } => format!("input=tool-{tool:?}"),
                    InputSpec::CkCreate { ok } => format!("input=checkpoint-create-{ok}"),
                    InputSpec::CkCreateEmpty => "input=checkpoint-create-empty".to_string(),
                    InputSpec::CkRewindMissing => "input=checkpoint-rewind-missing".to_string(),
                    InputSpec::CkRewindOwn => "input=checkpoint-rewind-own".to_string(),
                });
                if let Some(p) = provider {
                    v.push(format!("choice={:?}", p.choice));
                    v.push(format!("rounds={}", p.reqs.len()));
                    if p.forever {
                        v.push("provider=answers-for-ever".into());
                    }
                    if p.closed_port {
                        v.push("fault=connect-refused".into());
                    }
                    for r in &p.reqs {
                        match r {
                            Req::Http(s) => v.push(format!("fault=http-{}xx", s / 100)),
                            Req::HttpBody { status, body } => {
                                v.push(format!("fault=http-{}xx", status / 100));
                                v.push(format!("http-body=len~2^{} char-width={}", (body.len().max(1) as f64).log2().floor() as u32, body.ch().len_utf8()));
                            }
                            Req::Empty => v.push("fault=empty-body".into()),
                            Req::Stream { done, drop_at, events, partial_tail, .. } => {
                                if drop_at.is_some() {
                                    v.push("fault=drop-at-byte".into());
                                }
                                if !done {
                                    v.push("fault=missing-done".into());
                                }
                                if *partial_tail {
                                    v.push("fault=partial-tail".into());
                                }
                                for e in events {
                                    match e {
                                        Sse::Malformed => v.push("event=malformed-json".into()),
                                        Sse::SchemaInvalid => v.push("event=schema-invalid".into()),
                                        Sse::Call(Tool::ReadCut(_)) => v.push("call=ReadCut".into()),
                                        Sse::Call(Tool::Damage(_)) => v.push("call=Damage".into()),
                                        Sse::Call(t) => v.push(format!("call={t:?}")),
                                        _ => {}
                                    }
                                }
                            }
                        }
                    }
                } else if matches!(input, InputSpec::Prompt) {
                    v.push("provider=none".into());
                }
            }
            Act::Job { fail, early_err, .. } => v.push(if *early_err { "job-early-error(replay fails)".into() } else if *fail { "job-fails".into() } else { "job".into() }),
            Act::Input2 { wait, .. } => v.push(format!("double-input-wait={wait}")),
            Act::InputRace { n, stepped, .. } => v.push(format!("concurrent-inputs={n} {}", if *stepped { "stepped" } else { "raced" })),
            Act::PostDrop { hold } => v.push(format!("post-client-hangs-up session-map-lock-{}", if *hold { "contended" } else { "free" })),
        }
    }
    v.sort();
    v.dedup();
    v
}

fn main() {
    let a = parse_args();
    for (k, _) in std::env::vars() {
        if k.starts_with("RIP_") {
            std::env::remove_var(&k);
        }
    }
    let cfg_home = Scratch::new("c07cfg");
    std::env::set_var("RIP_CONFIG_HOME", cfg_home.path());
    rip_kernel::verif::set_fail_hook(Some(Arc::new(fail_hook)));
    rip_kernel::verif::set_hook(Some(Arc::new(|name: &'static str| {
        if name == "snap.flushed" {
            SNAPS.fetch_add(1, Ordering::SeqCst);
        } else if name == "session.spawn.guarded" {
            race_point();
        } else if name == "server.sessions.locked" {
            hold_point();
        } else if name == "job.task.returned" {
            JOB_RETURNS.fetch_add(1, Ordering::SeqCst);
        }
    })));
    // panics of implementation tasks: tokio swallows them, the run just never ends - record them
    std::panic::set_hook(Box::new(|info| {
        let th = std::thread::current();
        let msg = info.payload().downcast_ref::<&str>().map(|s| s.to_string()).or_else(|| info.payload().downcast_ref::<String>().cloned()).unwrap_or_default();
        let loc = info.location().map(|l| format!("{}:{}", l.file(), l.line())).unwrap_or_default();
        let line: String = format!("thread {:?} at {loc}: {msg}", th.name().unwrap_or("?")).chars().take(300).collect();
        eprintln!("c07: PANIC {line}");
        // a panic raised by the harness's own code (scripted provider thread, case set-up) says nothing about rip
        if loc.contains("harness/src/") {
            return;
        }
        if let Ok(mut g) = PANICS.lock() {
            g.push(line);
        }
    }));
    let mut res = RunResult::new("C07", &a);
    res.rule = "case = fresh store + 1..4 activities (linked runs through POST /threads/{id}/messages or the engine, unlinked session inputs, a compaction job), sequential or all at once; each prompt run talks to its own scripted provider (text, 1-3 tool rounds, malformed JSON, schema-invalid events, 4xx/5xx, drop at byte k, missing [DONE], partial tail, empty body, connect refused, invalid request; tools ok/failing/unknown/invalid args/barred by tool_choice/timeout; tool and checkpoint envelopes; a provider that answers every request with the same tool round for ever x tool_choice auto/required/named function/allowed_tools/none x both history modes; failing side writes at the end of a run - snapshot, thread caches, artifacts, checkpoints - by the run's own bash tool replacing the target path or through the fail points snap.write / snap.write.body, followed by later runs on the same thread); non-trivial = a provider or envelope run; distinct by hash of the canonical case".into();
    let rt = tokio::runtime::Builder::new_multi_thread().worker_threads(4).enable_all().build().expect("runtime");
    let cal = calibrate(&rt);
    res.notes.push(format!("tool calibration (stdout, stderr frames): {cal:?}"));
    let mut cases: Vec<Case> = vec![];
    if let Some(p) = &a.replay {
        let v: Value = serde_json::from_str(&std::fs::read_to_string(p).expect("replay file")).expect("replay json");
        let cv = v.get("case").cloned().unwrap_or(v);
        cases.push(serde_json::from_value(cv).expect("replay case"));
    } else {
        cases.extend(corpus());
        if let Ok(rd) = std::fs::read_dir(a.repo().join("../verif/corpus/C07")).or_else(|_| std::fs::read_dir("/verif/corpus/C07")) {
            let mut files: Vec<PathBuf> = rd.filter_map(|e| e.ok().map(|e| e.path())).filter(|p| p.extension().map(|x| x == "json").unwrap_or(false)).collect();
            files.sort();
            for f in files {
                if let Ok(v) = serde_json::from_str::<Value>(&std::fs::read_to_string(&f).unwrap_or_default()) {
                    let cv = v.get("case").cloned().unwrap_or(v);
                    if let Ok(c) = serde_json::from_value::<Case>(cv) {
                        cases.push(c);
                    }
                }
            }
        }
        let n = if a.thorough() { 1500 } else { 150 };
        let mut r = Rng::new(a.seed);
        // offsets to straddle: literals of the tree under test, 2048, one (thorough: every) power of two
        let lits = source_literals(&a.repo());
        let mut caps: BTreeSet<u32> = lits.iter().copied().collect();
        caps.insert(2048);
        if a.thorough() {
            caps.extend(POW2_CAPS);
        } else {
            caps.insert(*r.pick(&POW2_CAPS));
        }
        let caps: Vec<u32> = caps.into_iter().collect();
        res.notes.push(format!("cut offsets swept: {caps:?} (integer literals found on the run path: {lits:?})"));
        // (the failing-input search after a broken obligation runs the targeted classes first and the random cases last)
        let mut random_cases: Vec<Case> = (0..n).map(|i| gen_case(&mut r, i, &caps)).collect();
        if !a.oracle_only() {
            cases.append(&mut random_cases);
        }
        // run lifecycle under failing side writes (snapshot, thread caches, artifacts, checkpoints)
        cases.extend(side_write_cases(&mut r, a.thorough()));
        for at in &caps {
            cases.extend(body_sweep(*at, &mut r));
        }
        // concurrent inputs: raced (many rounds) and stepped, through the engine and through the router
        for engine in [true, false] {
            let rounds = if a.thorough() { 400 } else { 60 };
            cases.push(Case { faults: vec![], side_faults: vec![], engine, parallel: false, break_summaries: false, acts: vec![Act::InputRace { rounds, n: 2, input: InputSpec::Prompt, stepped: false }] });
            cases.push(Case { faults: vec![], side_faults: vec![], engine, parallel: false, break_summaries: false, acts: vec![Act::InputRace { rounds: rounds / 3, n: 4, input: InputSpec::Prompt, stepped: false }] });
            cases.push(Case { faults: vec![], side_faults: vec![], engine, parallel: false, break_summaries: false, acts: vec![Act::InputRace { rounds: 3, n: 3, input: InputSpec::ToolEnv { tool: Tool::BashEcho, tmo: 0 }, stepped: true }] });
        }
        // a provider that never stops: every tool_choice shape x both history modes x (one call / a mixed round / three
        // calls), linked through the engine; and through the router as the app-level default of an unlinked session.
        // quick: one answer shape per (choice, history mode), rotating with the seed; thorough: all of them
        let shapes: [&[Tool]; 3] = [&[Tool::BashEcho], &[Tool::Ls, Tool::BashEcho], &[Tool::ReadOk, Tool::Unknown, Tool::WriteBadArgs]];
        for (ci, ch) in VALID_CHOICES.iter().enumerate() {
            for (si, stateless) in [false, true].iter().enumerate() {
                for (k, calls) in shapes.iter().enumerate() {
                    if !a.thorough() && (ci + si + k + a.seed as usize) % 3 != 0 {
                        continue;
                    }
                    let p = stubborn_provider(*stateless, *ch, calls);
                    let linked = (ci + k) % 2 == 0;
                    let act = if linked { Act::Post { input: InputSpec::Prompt, provider: Some(p) } } else { Act::Input { input: InputSpec::Prompt, provider: Some(p) } };
                    // unlinked runs go through the router now and then (the tool_choice then comes from the app-level default)
                    cases.push(Case { faults: vec![], side_faults: vec![], engine: linked || k == 0, parallel: false, break_summaries: false, acts: vec![act] });
                }
            }
        }
        // the read tool's own cut, at every offset of a file of 2-/3-/4-byte characters (quick: every 5th)
        let ks: Vec<u8> = (0..=78u8).filter(|k| a.thorough() || (*k as u64 + a.seed) % 5 == 0).collect();
        for chunk in ks.chunks(4) {
            let acts = chunk.iter().map(|k| Act::Input { input: InputSpec::ToolEnv { tool: Tool::ReadCut(*k), tmo: 0 }, provider: None }).collect();
            cases.push(Case { faults: vec![], side_faults: vec![], engine: true, parallel: false, break_summaries: false, acts });
        }
        // single-fault sweep: the connection drops at every event boundary (-1, 0, +1) and at every 9th byte of
        // the first and of the second response of a base conversation (quick: 2 bases, thorough: 20)
        let bases = if a.thorough() { 20 } else { 2 };
        for b in 0..bases {
            let calls: Vec<Tool> = (0..r.range(1, 2)).map(|_| *r.pick(&CALL_TOOLS)).collect();
            let ev0 = gen_events(&mut r, &calls, true);
            let ev1 = gen_events(&mut r, &[], true);
            for which in 0..2usize {
                let evs = if which == 0 { &ev0 } else { &ev1 };
                let (sc, _) = build_stream("x", 0, evs, true, false, &[], None);
                let total: usize = sc.chunks.iter().map(|c| c.len()).sum();
                let mut ks: BTreeSet<u64> = BTreeSet::new();
                let mut off = 0usize;
                let mut ix = 0u64;
                for (n, e) in evs.iter().enumerate() {
                    off += sse_json("x", 0, n, *e, &mut ix).len();
                    for d in [-1i64, 0, 1] {
                        let k = off as i64 + d;
                        if k >= 0 && (k as usize) <= total {
                            ks.insert(k as u64);
                        }
                    }
                }
                if a.thorough() {
                    ks.extend((0..=total as u64).step_by(9));
                } else {
                    ks = ks.into_iter().step_by(3).collect();
                }
                for k in ks {
                    let mk = |events: &Vec<Sse>, drop_at: Option<u64>| Req::Stream { events: events.clone(), done: true, partial_tail: false, cuts: if k % 2 == 0 { vec![333, 666] } else { vec![] }, drop_at };
                    let reqs = if which == 0 { vec![mk(&ev0, Some(k)), mk(&ev1, None)] } else { vec![mk(&ev0, None), mk(&ev1, Some(k))] };
                    let p = ProviderSpec { stateless: b % 3 == 0, choice: Choice::Auto, closed_port: false, forever: false, reqs };
                    cases.push(Case { faults: vec![], side_faults: vec![], engine: false, parallel: false, break_summaries: false, acts: vec![Act::Post { input: InputSpec::Prompt, provider: Some(p) }] });
                }
            }
        }
        cases.append(&mut random_cases);
    }
    // The failing-input search (`--oracle-only 1`: ./check runs it after a broken obligation / disagreement, thorough
    // generator) is BOUNDED: it stops after SEARCH_STOP_AFTER oracle violations (one is enough for the verdict) and it
    // starts no new case after SEARCH_BUDGET of wall time - a search is not a verdict: the tree is red either way, the
    // budget only decides whether the red verdict carries a concrete input.  (The ordinary quick / thorough runs are not
    // bounded.)  Within a case the waits shrink once a run was seen to hang or to lose its closing frame.
    const SEARCH_BUDGET: Duration = Duration::from_secs(180);
    const SEARCH_STOP_AFTER: usize = 3;
    let t_search = Instant::now();
    let total_cases = cases.len();
    let mut w = CaseWriter::new(&a.out, "Model.RunLifecycle", "check_case", "model_obs", 60);
    let mut distinct = Distinct::default();
    for (i, c) in cases.iter().enumerate() {
        if a.oracle_only() && (res.oracle_violations.len() >= SEARCH_STOP_AFTER || t_search.elapsed() > SEARCH_BUDGET) {
            res.notes.push(format!("search stopped after {i} of {total_cases} cases ({} oracle violations, {:.0} s; bounds: {SEARCH_STOP_AFTER} violations / {SEARCH_BUDGET:?})", res.oracle_violations.len(), t_search.elapsed().as_secs_f64()));
            break;
        }
        let sc = Scratch::new("c07");
        let got = std::panic::catch_unwind(std::panic::AssertUnwindSafe(|| rt.block_on(exec_case(c, sc.path()))));
        res.evaluations += 1;
        for l in label(c) {
            res.bump(&l);
        }
        let cj = serde_json::to_value(c).unwrap();
        let ex = match got {
            Err(_) => {
                res.impl_panics += 1;
                res.oracle_violations.push(OracleViolation { case_id: i as i64, what: "the run panicked".into(), class: "panic".into(), replay: cj });
                continue;
            }
            Ok(Err(e)) => {
                res.bump(if e.starts_with("failing side writes:") { "skipped(side-write plan not met)" } else { "skipped(harness-io)" });
                if res.notes.len() < 20 {
                    res.notes.push(format!("case {i} not run: {e}"));
                }
                continue;
            }
            Ok(Ok(ex)) => ex,
        };
        res.oracle_checks += 1;
        let mut bad = false;
        if let Some(h) = &ex.hang {
            // "whatever the provider or the tools do": a run that never reaches its end frame (task died or hangs)
            bad = true;
            res.oracle_violations.push(OracleViolation { case_id: i as i64, what: h.clone(), class: "run-never-ended".into(), replay: cj.clone() });
        } else if let Some(p) = ex.panics.first() {
            bad = true;
            res.impl_panics += 1;
            res.oracle_violations.push(OracleViolation { case_id: i as i64, what: format!("a task panicked while the case ran: {p}"), class: "panic".into(), replay: cj.clone() });
        }
        // a provider that never stops: the run ends by itself within REQUEST_BOUND requests (count, not clock)
        for (k, a_) in c.acts.iter().enumerate() {
            let (Act::Post { provider: Some(p), .. } | Act::Input { provider: Some(p), .. }) = a_ else { continue };
            let Some(n) = ex.asked.get(k).copied().flatten() else { continue };
            if p.forever && n > REQUEST_BOUND {
                bad = true;
                let sid = ex.ids.get(k).and_then(|i| i.sid.clone()).unwrap_or_default();
                let ended: Vec<String> = ex.log.iter().filter(|l| l.ty == "session_ended" && l.stream == sid).map(|l| l.s("reason")).collect();
                let gave_up = if n > FOREVER_CAP { format!("it stopped only when the provider gave up after {FOREVER_CAP} answers") } else { "it stopped late".to_string() };
                res.oracle_violations.push(OracleViolation {
                    case_id: i as i64,
                    what: format!("the provider answers every request with the same tool round (tool_choice {:?}, stateless_history {}); the run asked {n} times - {gave_up} (end frames: {ended:?}); the tool budget of 32 calls allows at most {REQUEST_BOUND} requests: against a provider that never stops this run never ends", p.choice, p.stateless),
                    class: "provider-requests-unbounded".into(),
                    // the one activity is enough to replay it
                    replay: serde_json::to_value(Case { acts: vec![a_.clone()], ..c.clone() }).unwrap_or(cj.clone()),
                });
                break;
            }
        }
        // concurrent inputs to one session: exactly one of them starts the session's run
        for id in &ex.ids {
            if let Some((round, (sid, k))) = id.race.iter().enumerate().find(|(_, (_, k))| *k != 1) {
                bad = true;
                res.oracle_violations.push(OracleViolation { case_id: i as i64, what: format!("round {round}: {k} of the concurrent inputs to session {sid} were accepted (exactly one may start the run)"), class: "one-run-per-session".into(), replay: cj.clone() });
                break;
            }
        }
        // a post whose client hung up while the handler was suspended: whatever it logged, a message has its run
        let mut orphan_ids: Vec<String> = vec![];
        for (k, (a_, id)) in c.acts.iter().zip(&ex.ids).enumerate() {
            if let Act::PostDrop { hold } = a_ {
                res.bump(if id.dropped { "post-client-hangs-up=dropped-while-suspended" } else { "post-client-hangs-up=completed-in-one-poll" });
                if !id.dropped {
                    continue;
                }
                let spawned = |mid: &str| ex.log.iter().any(|l| l.ty == "continuity_run_spawned" && l.s("message_id") == mid);
                let left: Vec<String> = orphan_frames(&ex.log, k).iter().filter(|l| !spawned(&l.id)).map(|l| l.id.clone()).collect();
                if let Some(m) = left.first() {
                    bad = true;
                    res.oracle_violations.push(OracleViolation {
                        case_id: i as i64,
                        what: format!("POST /threads/{{id}}/messages, the request future dropped at its first suspension point (session map lock contended: {hold}): message {m} is on the thread with 0 run_spawned frames - no run was announced or started for it"),
                        class: "message-without-run(request-dropped)".into(),
                        replay: cj.clone(),
                    });
                }
                orphan_ids.extend(left);
            }
        }
        let viol: Vec<(String, String)> = oracle(&ex.log, &c.faults).into_iter().filter(|(what, class)| !(class == "spawn-count" && orphan_ids.iter().any(|m| what.contains(m.as_str())))).collect();
        if let Some((what, class)) = viol.first() {
            bad = true;
            res.oracle_violations.push(OracleViolation { case_id: i as i64, what: format!("{what} (+{} more)", viol.len() - 1), class: class.clone(), replay: cj.clone() });
        }
        // every accepted post must be on the thread
        for (a_, id) in c.acts.iter().zip(&ex.ids) {
            if let (Act::Post { .. }, 202, Some(mid)) = (a_, id.status, &id.mid) {
                if !ex.log.iter().any(|l| l.ty == "continuity_message_appended" && l.id == *mid && l.stream == ex.thread) {
                    bad = true;
                    res.oracle_violations.push(OracleViolation { case_id: i as i64, what: format!("accepted message {mid} is not on the thread"), class: "spawn-count".into(), replay: cj.clone() });
                }
            }
        }
        for l in &ex.log {
            if l.is_session() {
                res.bump(&format!("frame={}", l.ty));
                if l.ty == "session_ended" {
                    res.bump(&format!("reason={}", l.s("reason")));
                }
            } else if l.is_cont() {
                res.bump(&format!("frame={}", l.ty));
            }
        }
        if !a.oracle_only() && !bad {
            if let Some(t) = case_term(c, &ex, &cal) {
                let id = w.push(t);
                if res.case_index.len() < 4000 {
                    res.case_index.insert(id.to_string(), cj.clone());
                }
            } else {
                res.bump("not-compared(activity refused)");
            }
        }
        let nontrivial = !c.side_faults.is_empty() || c.acts.iter().any(|x| matches!(x, Act::Post { provider: Some(_), .. } | Act::Input { provider: Some(_), .. } | Act::Post { input: InputSpec::ToolEnv { .. }, .. } | Act::Input { input: InputSpec::ToolEnv { .. }, .. } | Act::InputRace { .. } | Act::PostDrop { .. }));
        if nontrivial {
            distinct.add(&cj.to_string());
        }
        if res.samples.len() < 3 && nontrivial && i >= 2 {
            res.samples.push(cj);
        }
    }
    w.flush();
    rip_kernel::verif::set_hook(None);
    rip_kernel::verif::set_fail_hook(None);
    res.distinct_nontrivial = distinct.count();
    res.case_files = w.files.iter().map(|p| p.display().to_string()).collect();
    res.write(&a.out);
    println!("c07: {} cases, {} distinct non-trivial, {} oracle violations, {} panics", res.evaluations, res.distinct_nontrivial, res.oracle_violations.len(), res.impl_panics);
}
