//! C06 — session streams under every configuration that changes WHICH frames a run emits.
//!
//! A provider-backed prompt run (`run_openresponses_agent_loop` / `stream_openresponses_request` in
//! crates/ripd/src/session.rs) numbers its frames itself: a dozen "emit, bump the counter" pairs, most of them behind a
//! configuration switch or a provider outcome.  `Conf` is the product of those switches; `switches_in_source` re-reads
//! them from the source the harness was built against, so a switch the table below does not know is reported.
use rv::provider::{sse_event, Scripted, ScriptedProvider, SSE_DONE};
use serde_json::{json, Value};
use std::collections::BTreeSet;
use std::path::Path;

#[derive(Clone, Copy, Debug, PartialEq, Eq)]
pub struct Conf {
    /// request capture: 0 = off, 1 = RIP_OPENRESPONSES_DUMP_REQUEST=1, 2 = "TRUE" + RIP_OPENRESPONSES_DUMP_REQUEST_MAX_BYTES=16
    /// (one more frame, `openresponses_request`, in front of every provider request)
    pub capture: u8,
    /// OpenResponsesConfig::stateless_history (request kinds, SSE validation mode, follow-up shape)
    pub stateless: bool,
    /// what the provider asks for: 0 = no tool call, 1 = one read-only tool (`ls`: no workspace lock), 2 = one workspace
    /// tool (`write`: workspace lock, continuity side effects), 3 = two calls in one round (`ls`, `write`) and a third
    /// (`ls`) in a second round
    pub tools: u8,
    /// OpenResponsesConfig::tool_choice: 0 = auto, 1 = none (every call is refused: tool_started + tool_failed numbered by
    /// `rejected_tool_invocation_events`), 2 = malformed (`invalid_request`: one provider_event frame, no request)
    pub choice: u8,
    /// how the LAST provider round ends: 0 = [DONE], 1 = no [DONE] (pipe.finish()), 2 = HTTP 500, 3 = connection dropped
    /// mid-stream, 4 = connection closed before the first body byte, 5 = nobody listens (transport error at send)
    pub outcome: u8,
    /// OpenResponsesConfig::followup_user_message
    pub followup: bool,
    /// OpenResponsesConfig::parallel_tool_calls
    pub parallel: bool,
    /// the run is started by POST /threads/{id}/messages (SessionContext::continuity_run = Some: compiled context,
    /// `initial_items` request, continuity appends next to the session frames) instead of POST /sessions/{id}/input
    pub via_thread: bool,
}

impl Conf {
    pub fn bits(self) -> u64 {
        (self.capture as u64)
            | (self.stateless as u64) << 2
            | (self.tools as u64) << 3
            | (self.choice as u64) << 5
            | (self.outcome as u64) << 7
            | (self.followup as u64) << 10
            | (self.parallel as u64) << 11
            | (self.via_thread as u64) << 12
    }
    pub fn from_bits(b: u64) -> Conf {
        Conf {
            capture: ((b & 3) as u8).min(2),
            stateless: (b >> 2) & 1 == 1,
            tools: ((b >> 3) & 3) as u8,
            choice: (((b >> 5) & 3) as u8).min(2),
            outcome: (((b >> 7) & 7) as u8).min(5),
            followup: (b >> 10) & 1 == 1,
            parallel: (b >> 11) & 1 == 1,
            via_thread: (b >> 12) & 1 == 1,
        }
    }
    pub fn label(self) -> String {
        format!(
            "capture{}{}{}-tools{}-choice{}-outcome{}{}{}",
            self.capture,
            if self.stateless { "-stateless" } else { "-stateful" },
            if self.via_thread { "-thread" } else { "" },
            self.tools,
            self.choice,
            self.outcome,
            if self.followup { "-followup" } else { "" },
            if self.parallel { "-parallel" } else { "" }
        )
    }
    /// the process environment of the run (read by `request_dump_config_from_env` at every provider request)
    pub fn apply_env(c: Option<Conf>) {
        let cap = c.map(|c| c.capture).unwrap_or(0);
        match cap {
            0 => {
                std::env::remove_var("RIP_OPENRESPONSES_DUMP_REQUEST");
                std::env::remove_var("RIP_OPENRESPONSES_DUMP_REQUEST_MAX_BYTES");
            }
            1 => {
                std::env::set_var("RIP_OPENRESPONSES_DUMP_REQUEST", "1");
                std::env::remove_var("RIP_OPENRESPONSES_DUMP_REQUEST_MAX_BYTES");
            }
            _ => {
                std::env::set_var("RIP_OPENRESPONSES_DUMP_REQUEST", "TRUE");
                std::env::set_var("RIP_OPENRESPONSES_DUMP_REQUEST_MAX_BYTES", "16");
            }
        }
    }
    pub fn tool_choice(self) -> rip_provider_openresponses::ToolChoiceParam {
        use rip_provider_openresponses::ToolChoiceParam;
        match self.choice {
            0 => ToolChoiceParam::auto(),
            1 => ToolChoiceParam::none(),
            _ => ToolChoiceParam::new(json!({"type": "function"})),
        }
    }
}

fn call(oi: u64, n: u64, name: &str, args: Value) -> Value {
    json!({"type": "response.output_item.done", "output_index": oi,
           "item": {"type": "function_call", "id": format!("fc_{n}"), "call_id": format!("call_{n}"), "name": name,
                    "arguments": serde_json::to_string(&args).unwrap(), "status": "completed"}})
}
fn body_of(events: &[Value], done: bool) -> String {
    let mut s = String::new();
    for e in events {
        s.push_str(&sse_event(e["type"].as_str().unwrap_or("message"), e));
    }
    if done {
        s.push_str(SSE_DONE);
    }
    s
}
fn delta(i: u64) -> Value {
    json!({"type": "response.output_text.delta", "sequence_number": i + 1, "item_id": "m1", "output_index": 0, "content_index": 0, "delta": format!("d{i}")})
}

/// the provider's answers, one per request the run will make
pub fn script(c: Conf) -> Vec<Scripted> {
    let ls = json!({"path": "."});
    let wr = |t: &str| json!({"path": format!("m/{t}.txt"), "content": "x\n", "append": true});
    let mut rounds: Vec<Vec<Value>> = vec![];
    match c.tools {
        0 => {}
        1 => rounds.push(vec![json!({"type": "response.created", "response": {"id": "resp_1"}}), delta(0), call(0, 1, "ls", ls.clone())]),
        2 => rounds.push(vec![json!({"type": "response.created", "response": {"id": "resp_1"}}), call(0, 1, "write", wr("t1"))]),
        _ => {
            rounds.push(vec![json!({"type": "response.created", "response": {"id": "resp_1"}}), call(0, 1, "ls", ls.clone()), delta(0), call(1, 2, "write", wr("t2"))]);
            rounds.push(vec![json!({"type": "response.created", "response": {"id": "resp_2"}}), call(0, 3, "ls", ls.clone())]);
        }
    }
    let mut out: Vec<Scripted> = rounds.iter().map(|r| Scripted::sse_text(&body_of(r, true))).collect();
    let k = out.len() + 1;
    let last = vec![json!({"type": "response.created", "response": {"id": format!("resp_{k}")}}), delta(0), delta(1), json!({"type": "response.completed", "response": {"id": format!("resp_{k}"), "status": "completed"}})];
    out.push(match c.outcome {
        0 | 5 => Scripted::sse_text(&body_of(&last, true)),
        1 => Scripted::sse_text(&body_of(&last, false)),
        2 => Scripted::http_error(500, "{\"error\":\"scripted failure\"}"),
        3 => {
            let b = body_of(&last, false);
            let cut = b.len() / 2;
            let mut s = Scripted::sse(vec![b.as_bytes()[..cut].to_vec(), b.as_bytes()[cut..].to_vec()]);
            s.drop_after_chunks = Some(1);
            s
        }
        _ => {
            let mut s = Scripted::sse(vec![body_of(&last, true).into_bytes()]);
            s.drop_after_chunks = Some(0);
            s
        }
    });
    out
}

/// (provider, endpoint): outcome 5 = an address nobody listens on
pub fn start_provider(c: Conf) -> (Option<ScriptedProvider>, String) {
    if c.outcome == 5 {
        let l = std::net::TcpListener::bind("127.0.0.1:0").expect("bind");
        let addr = l.local_addr().unwrap();
        drop(l);
        return (None, format!("http://{addr}/v1/responses"));
    }
    let p = ScriptedProvider::start(script(c));
    let url = p.url.clone();
    (Some(p), url)
}

/// the configurations of a tier.  thorough: the whole product of the frame-changing switches with the ok outcome plus every
/// outcome x capture x tools; quick: a covering subset (every pair capture x {stateless, tools, choice, outcome, thread}).
pub fn confs(thorough: bool) -> Vec<Conf> {
    let mut v: Vec<Conf> = vec![];
    let mut push = |c: Conf| {
        if !v.contains(&c) {
            v.push(c);
        }
    };
    let base = Conf { capture: 0, stateless: false, tools: 0, choice: 0, outcome: 0, followup: false, parallel: false, via_thread: false };
    for capture in 0..=2u8 {
        for stateless in [false, true] {
            for tools in 0..=3u8 {
                for via_thread in [false, true] {
                    let i = capture as usize + tools as usize + stateless as usize + via_thread as usize;
                    if !thorough && (capture == 2 && tools % 2 == 1 || via_thread != (i % 2 == 0)) {
                        continue;
                    }
                    push(Conf { capture, stateless, tools, via_thread, followup: i % 2 == 1, parallel: i % 3 == 0, ..base });
                }
            }
        }
    }
    // refused calls / malformed tool_choice
    for capture in 0..=1u8 {
        for stateless in [false, true] {
            for (choice, tools) in [(1u8, 1u8), (1, 3), (2, 0)] {
                if !thorough && stateless != ((choice + tools + capture) % 2 == 0) {
                    continue;
                }
                push(Conf { capture, stateless, tools, choice, ..base });
            }
        }
    }
    // every way a provider round can end, with and without capture, in the first round and in a follow-up round
    for outcome in 1..=5u8 {
        for capture in 0..=1u8 {
            for tools in [0u8, 1, 3] {
                if !thorough && (tools == 3 || (tools == 1) != ((outcome + capture) % 2 == 0)) {
                    continue;
                }
                push(Conf { capture, tools, outcome, stateless: (outcome + tools) % 2 == 0, via_thread: thorough && outcome % 2 == 0, ..base });
            }
        }
    }
    v
}

/// The switches a session run's frame sequence depends on, READ FROM THE SOURCE: the environment variables ripd's non-test
/// code reads, and the fields of `OpenResponsesConfig`; each with what the matrix does about it.  A name the table does
/// not know comes back with `None` (reported in the run's notes: a new switch nobody drives yet).
pub fn switches_in_source(repo: &Path) -> Vec<(String, Option<&'static str>)> {
    const TABLE: &[(&str, &str)] = &[
        ("RIP_OPENRESPONSES_DUMP_REQUEST", "driven: capture 0/1/2 (off, `1`, `TRUE`)"),
        ("RIP_OPENRESPONSES_DUMP_REQUEST_MAX_BYTES", "driven: capture 2 sets 16 (truncated body artifact; same frames)"),
        ("RIP_OPENRESPONSES_ENDPOINT", "config field `endpoint` (set directly through ripd::verif::OpenResponsesConfig): provider configured / not configured (loads prompt / checkpoint / tool run without one); outcome 5 points it at a closed port"),
        ("RIP_OPENRESPONSES_API_KEY", "config field `api_key`: request header only, no frame depends on it: not driven"),
        ("RIP_OPENRESPONSES_MODEL", "config field `model`: carried inside request_started / the captured body, same frames: fixed value"),
        ("RIP_OPENRESPONSES_TOOL_CHOICE", "config field `tool_choice`: driven: choice 0/1/2 (auto, none = calls refused, malformed = invalid_request)"),
        ("RIP_OPENRESPONSES_FOLLOWUP_USER_MESSAGE", "config field `followup_user_message`: driven (followup on/off)"),
        ("RIP_OPENRESPONSES_STATELESS_HISTORY", "config field `stateless_history`: driven (stateless on/off)"),
        ("RIP_OPENRESPONSES_PARALLEL_TOOL_CALLS", "config field `parallel_tool_calls`: driven (request body only)"),
        ("RIP_DATA_DIR", "location of the store: every case has its own scratch store"),
        ("RIP_WORKSPACE_ROOT", "location of the workspace: every case has its own scratch workspace"),
        ("RIP_SERVER_ADDR", "listen address of the ripd binary: the router is driven in-process"),
        ("RIP_TASKS_ALLOW_PTY", "task streams only (pty execution mode): NOT driven - the sandbox has no usable pty"),
        ("RIP_CONFIG", "config file location: removed from the environment; the config is handed to build_app"),
        ("RIP_CONFIG_HOME", "config file location: removed from the environment; the config is handed to build_app"),
        ("endpoint", "see RIP_OPENRESPONSES_ENDPOINT"),
        ("api_key", "see RIP_OPENRESPONSES_API_KEY"),
        ("model", "see RIP_OPENRESPONSES_MODEL"),
        ("headers", "extra request headers: no frame depends on them: not driven"),
        ("tool_choice", "see RIP_OPENRESPONSES_TOOL_CHOICE"),
        ("followup_user_message", "see RIP_OPENRESPONSES_FOLLOWUP_USER_MESSAGE"),
        ("stateless_history", "see RIP_OPENRESPONSES_STATELESS_HISTORY"),
        ("parallel_tool_calls", "see RIP_OPENRESPONSES_PARALLEL_TOOL_CALLS"),
    ];
    let mut names: BTreeSet<String> = BTreeSet::new();
    let src = repo.join("crates/ripd/src");
    let mut files = vec![];
    fn walk(d: &Path, out: &mut Vec<std::path::PathBuf>) {
        if let Ok(rd) = std::fs::read_dir(d) {
            for e in rd.flatten() {
                let p = e.path();
                if p.is_dir() {
                    walk(&p, out);
                } else if p.extension().map(|x| x == "rs").unwrap_or(false) {
                    out.push(p);
                }
            }
        }
    }
    walk(&src, &mut files);
    for f in files {
        let name = f.file_name().and_then(|x| x.to_str()).unwrap_or("");
        if name.ends_with("_tests.rs") || name == "tests.rs" {
            continue;
        }
        let Ok(text) = std::fs::read_to_string(&f) else { continue };
        // the in-file test module is at the end of a file
        let text = match text.find("#[cfg(test)]\nmod tests") {
            Some(i) => &text[..i],
            None => &text[..],
        };
        let mut rest = text;
        while let Some(i) = rest.find("env::var") {
            let tail = &rest[i..];
            if let Some(q) = tail.find('"') {
                if q < 24 {
                    if let Some(e) = tail[q + 1..].find('"') {
                        let v = &tail[q + 1..q + 1 + e];
                        if v.starts_with("RIP_") {
                            names.insert(v.to_string());
                        }
                    }
                }
            }
            rest = &rest[i + 8..];
        }
        if name == "provider_openresponses.rs" {
            if let Some(i) = text.find("pub struct OpenResponsesConfig") {
                if let Some(end) = text[i..].find('}') {
                    for line in text[i..i + end].lines().skip(1) {
                        if let Some(field) = line.trim().strip_prefix("pub ") {
                            if let Some((n, _)) = field.split_once(':') {
                                names.insert(n.trim().to_string());
                            }
                        }
                    }
                }
            }
        }
    }
    names.into_iter().map(|n| {
        let how = TABLE.iter().find(|(k, _)| *k == n).map(|(_, h)| *h);
        (n, how)
    }).collect()
}
