//! C12 — Workspace::apply_patch / the apply_patch tool vs coq/Model/Patch.v, plus the independent
//! oracle: on Err every file keeps its bytes and no new file remains; on Ok the workspace equals an
//! independent interpreter of the ops, changed_files = sorted dedup of the named paths, line-ending
//! style and trailing newline of uniformly-terminated files are preserved.
#[path = "../ws_common.rs"]
mod ws_common;
use rip_workspace::{Patch, PatchOp, Workspace};
use rv::*;
use serde_json::json;
use std::collections::{BTreeMap, BTreeSet};
use ws_common::*;

#[derive(Clone, Debug)]
struct Case {
    init: Listing,
    patch: String,
    tag: String,
    /// what the document says, as the generator wrote it (payload of every operation; None when the
    /// text was mutated or written by hand): the parser must return exactly this
    intended: Option<Vec<PatchOp>>,
}

// ------------------------------------------------------------------ independent interpreter
#[derive(Clone, Default)]
struct Sim {
    files: BTreeMap<Comps, Vec<u8>>,
    dirs: BTreeSet<Comps>,
}
impl Sim {
    fn from_listing(l: &Listing) -> Sim {
        let mut s = Sim::default();
        for (c, n) in l {
            match n {
                Node::Dir => {
                    s.dirs.insert(c.clone());
                }
                Node::File(b) => {
                    s.files.insert(c.clone(), b.clone());
                }
            }
        }
        s
    }
    fn ancestors_ok(&self, c: &Comps) -> bool {
        (1..c.len()).all(|i| !self.files.contains_key(&c[..i].to_vec()))
    }
    fn mk_ancestors(&mut self, c: &Comps) {
        for i in 1..c.len() {
            self.dirs.insert(c[..i].to_vec());
        }
    }
}
/// plain relative path -> components; None for anything the format cannot name a file with
fn norm(raw: &str) -> Option<Comps> {
    if raw.is_empty() || raw.starts_with('/') || raw.contains('\0') || raw.ends_with('/') {
        return None;
    }
    let segs: Vec<&str> = raw.split('/').collect();
    if segs.iter().any(|s| *s == "..") || *segs.last().unwrap() == "." {
        return None;
    }
    let c: Comps = segs.iter().filter(|s| !s.is_empty() && **s != ".").map(|s| s.as_bytes().to_vec()).collect();
    if c.is_empty() || c.iter().any(|x| x.len() > 255) {
        None
    } else {
        Some(c)
    }
}
fn spec_hunks(text: &str, hunks: &[(Vec<String>, Vec<String>)]) -> Option<String> {
    spec_hunks_lines(text, hunks).map(|(_, out)| out)
}
/// the resulting line list and its rendering
fn spec_hunks_lines(text: &str, hunks: &[(Vec<String>, Vec<String>)]) -> Option<(Vec<String>, String)> {
    let eol = if text.contains("\r\n") { "\r\n" } else { "\n" };
    let trailing = text.ends_with('\n');
    let mut lines: Vec<String> = text.split('\n').map(|l| l.strip_suffix('\r').unwrap_or(l).to_string()).collect();
    if trailing {
        lines.pop();
    }
    let mut cursor = 0usize;
    for (before, after) in hunks {
        if before.is_empty() {
            lines.extend(after.iter().cloned());
            cursor = lines.len();
            continue;
        }
        let mut found = None;
        let mut i = cursor;
        while i + before.len() <= lines.len() {
            if lines[i..i + before.len()] == before[..] {
                found = Some(i);
                break;
            }
            i += 1;
        }
        let pos = found?;
        let mut nl = lines[..pos].to_vec();
        nl.extend(after.iter().cloned());
        nl.extend_from_slice(&lines[pos + before.len()..]);
        lines = nl;
        cursor = pos + after.len();
    }
    if lines.is_empty() {
        return Some((lines, String::new()));
    }
    let mut out = lines.join(eol);
    if trailing {
        out.push_str(eol);
    }
    Some((lines, out))
}
fn p2s(p: &std::path::Path) -> String {
    p.to_string_lossy().to_string()
}
/// Err(()) = the spec says this op cannot be performed
fn spec_op(s: &mut Sim, op: &PatchOp) -> Result<(), ()> {
    match op {
        PatchOp::AddFile { path, content } => {
            let c = norm(&p2s(path)).ok_or(())?;
            if s.files.contains_key(&c) || s.dirs.contains(&c) || !s.ancestors_ok(&c) {
                return Err(());
            }
            s.mk_ancestors(&c);
            s.files.insert(c, content.as_bytes().to_vec());
            Ok(())
        }
        PatchOp::DeleteFile { path } => {
            let c = norm(&p2s(path)).ok_or(())?;
            s.files.remove(&c).map(|_| ()).ok_or(())
        }
        PatchOp::UpdateFile { path, moved_to, hunks } => {
            let c = norm(&p2s(path)).ok_or(())?;
            let b = s.files.get(&c).cloned().ok_or(())?;
            let text = String::from_utf8(b).map_err(|_| ())?;
            let hs: Vec<(Vec<String>, Vec<String>)> = hunks.iter().map(|h| (h.before.clone(), h.after.clone())).collect();
            let out = spec_hunks(&text, &hs).ok_or(())?;
            s.files.insert(c.clone(), out.clone().into_bytes());
            if let Some(m) = moved_to {
                let t = norm(&p2s(m)).ok_or(())?;
                if s.files.contains_key(&t) || s.dirs.contains(&t) || !s.ancestors_ok(&t) {
                    return Err(());
                }
                s.mk_ancestors(&t);
                s.files.remove(&c);
                s.files.insert(t, out.into_bytes());
            }
            Ok(())
        }
    }
}
fn named_paths(ops: &[PatchOp]) -> Vec<String> {
    let mut v = vec![];
    for op in ops {
        match op {
            PatchOp::AddFile { path, .. } | PatchOp::DeleteFile { path } => v.push(p2s(path).replace('\\', "/")),
            PatchOp::UpdateFile { path, moved_to, .. } => {
                v.push(p2s(path).replace('\\', "/"));
                if let Some(m) = moved_to {
                    v.push(p2s(m).replace('\\', "/"));
                }
            }
        }
    }
    v.sort();
    v.dedup();
    v
}
#[derive(PartialEq, Clone, Copy)]
enum Style {
    Lf,
    Crlf,
    Other,
}
fn style(t: &[u8]) -> Style {
    let has_cr = t.contains(&13);
    if !has_cr {
        return Style::Lf;
    }
    let mut ok = true;
    for i in 0..t.len() {
        if t[i] == 13 && t.get(i + 1) != Some(&10) {
            ok = false;
        }
        if t[i] == 10 && (i == 0 || t[i - 1] != 13) {
            ok = false;
        }
    }
    if ok {
        Style::Crlf
    } else {
        Style::Other
    }
}

// ------------------------------------------------------------------ running the implementation
struct Obs {
    code: u64,
    changed: Vec<String>,
    before: Listing,
    after: Listing,
    viol: Option<(String, String)>,
}

fn run_tool(rt: &tokio::runtime::Runtime, root: &std::path::Path, patch: &str) -> (i32, Option<Vec<String>>) {
    let registry = std::sync::Arc::new(rip_tools::ToolRegistry::default());
    let cfg = rip_tools::BuiltinToolConfig { workspace_root: root.to_path_buf(), ..Default::default() };
    rip_tools::register_builtin_tools(&registry, cfg);
    let h = registry.get("apply_patch").expect("apply_patch tool");
    let out = rt.block_on((h)(rip_tools::ToolInvocation { name: "apply_patch".into(), args: json!({ "patch": patch }), timeout_ms: None }));
    let ch = out.artifacts.as_ref().and_then(|a| a.get("changed_files")).and_then(|c| c.as_array()).map(|a| a.iter().map(|x| x.as_str().unwrap_or("").to_string()).collect());
    (out.exit_code, ch)
}

fn run_impl(rt: &tokio::runtime::Runtime, c: &Case) -> Obs {
    let sc = Scratch::new("c12");
    let root = sc.path().join("ws");
    std::fs::create_dir_all(&root).unwrap();
    populate(&root, &c.init);
    let ws = Workspace::new(&root).unwrap();
    let before = list_tree(&root);
    let r = ws.apply_patch(&c.patch);
    let after = list_tree(&root);
    let mut viol: Option<(String, String)> = None;
    let (code, changed) = match &r {
        Ok(res) => (0, res.changed_files.clone()),
        Err(e) => (1 + kind_code(e.kind()), vec![]),
    };
    // the tool on an identical copy must do the same
    let root2 = sc.path().join("ws2");
    std::fs::create_dir_all(&root2).unwrap();
    populate(&root2, &c.init);
    let (exit, tch) = run_tool(rt, &root2, &c.patch);
    let after2 = list_tree(&root2);
    if after2 != after {
        viol = Some(("apply_patch tool and Workspace::apply_patch left different workspaces".into(), "tool_differs".into()));
    }
    let want_exit = match &r {
        Ok(_) => 0,
        Err(e) if e.kind() == std::io::ErrorKind::InvalidData => 2,
        Err(_) => 1,
    };
    if exit != want_exit || (r.is_ok() && tch.as_ref() != Some(&changed)) {
        viol = Some((format!("apply_patch tool exit {exit} / changed {tch:?} vs library {want_exit} / {changed:?}"), "tool_differs".into()));
    }
    // ---- independent oracle
    let fb = files_only(&before);
    let fa = files_only(&after);
    match &r {
        Err(_) => {
            if fb != fa {
                let mut what = String::from("failed apply_patch changed files:");
                let mut class = "not_atomic".to_string();
                for (p, b) in &fb {
                    match fa.get(p) {
                        None => {
                            if after.get(p) == Some(&Node::Dir) {
                                class = "atomicity_file_replaced_by_dir".into();
                                what += &format!(" {} was a file and is now a directory;", show_comps(p));
                            } else {
                                what += &format!(" {} lost;", show_comps(p));
                            }
                        }
                        Some(b2) if b2 != b => what += &format!(" {} bytes differ;", show_comps(p)),
                        _ => {}
                    }
                }
                for p in fa.keys() {
                    if !fb.contains_key(p) {
                        what += &format!(" new file {} remains;", show_comps(p));
                    }
                }
                viol = Some((what, class));
            }
        }
        Ok(res) => match Patch::parse(&c.patch) {
            Err(_) => viol = Some(("apply_patch succeeded on a patch Patch::parse rejects".into(), "ok_unparsable".into())),
            Ok(p) => {
                let mut sim = Sim::from_listing(&before);
                let mut spec_ok = true;
                for op in p.ops() {
                    if spec_op(&mut sim, op).is_err() {
                        spec_ok = false;
                        break;
                    }
                }
                if !spec_ok {
                    viol = Some(("apply_patch succeeded although an operation is not performable (spec interpreter)".into(), "ok_but_spec_fails".into()));
                } else if sim.files != fa {
                    viol = Some(("workspace after a successful apply differs from performing the ops in order".into(), "wrong_result".into()));
                } else if res.changed_files != named_paths(p.ops()) {
                    viol = Some((format!("changed_files {:?} != named paths {:?}", res.changed_files, named_paths(p.ops())), "wrong_changed_files".into()));
                } else {
                    // line endings / trailing newline of updated files (only updates that are not moved and touched once)
                    for op in p.ops() {
                        if let PatchOp::UpdateFile { path, moved_to: None, hunks } = op {
                            let Some(k) = norm(&p2s(path)) else { continue };
                            let times = p.ops().iter().filter(|o| match o {
                                PatchOp::AddFile { path: q, .. } | PatchOp::DeleteFile { path: q } | PatchOp::UpdateFile { path: q, .. } => norm(&p2s(q)).as_ref() == Some(&k),
                            }).count();
                            let moved_onto = p.ops().iter().any(|o| matches!(o, PatchOp::UpdateFile { moved_to: Some(m), .. } if norm(&p2s(m)).as_ref() == Some(&k)));
                            if times != 1 || moved_onto {
                                continue;
                            }
                            let (Some(b0), Some(b1)) = (fb.get(&k), fa.get(&k)) else { continue };
                            let clean_hunks = hunks.iter().all(|h| h.after.iter().all(|l| !l.contains('\r')));
                            let st = style(b0);
                            if clean_hunks && st != Style::Other && !b1.is_empty() {
                                let had_nl = b0.ends_with(b"\n");
                                if (st == Style::Lf && b1.contains(&13)) || (st == Style::Crlf && b0.contains(&10) && style(b1) != Style::Crlf && b1.contains(&10)) {
                                    viol = Some((format!("line-ending style of {} changed", show_comps(&k)), "line_ending_changed".into()));
                                }
                                // without a final newline the rendering of a line list whose last line is
                                // empty necessarily ends in a newline (c12_no_final_newline_not_always_kept_refuted):
                                // only a non-empty last line can witness a changed flag
                                let hs: Vec<(Vec<String>, Vec<String>)> = hunks.iter().map(|h| (h.before.clone(), h.after.clone())).collect();
                                let last_nonempty = std::str::from_utf8(b0).ok().and_then(|t| spec_hunks_lines(t, &hs)).map(|(l, _)| l.last().map(|x| !x.is_empty()).unwrap_or(false)).unwrap_or(false);
                                let now_nl = b1.ends_with(b"\n");
                                if !b0.is_empty() && ((had_nl && !now_nl) || (!had_nl && now_nl && last_nonempty)) {
                                    viol = Some((format!("trailing newline of {} changed", show_comps(&k)), "trailing_newline_changed".into()));
                                }
                            }
                        }
                    }
                }
            }
        },
    }
    // ---- the parser must return what the document says (independent of the implementation's own parse)
    if viol.is_none() {
        if let Some(want) = &c.intended {
            match Patch::parse(&c.patch) {
                Err(e) => viol = Some((format!("a well-formed generated document was rejected: {e}"), "parse_rejects_wellformed".into())),
                Ok(p) => {
                    if p.ops().len() != want.len() || !p.ops().iter().zip(want.iter()).all(|(a, b)| same_payload(a, b)) {
                        let i = p.ops().iter().zip(want.iter()).position(|(a, b)| !same_payload(a, b)).unwrap_or(want.len().min(p.ops().len()));
                        viol = Some((format!("the parser returned other operations than the document states (operation {i}: got {:?}, the text says {:?})", p.ops().get(i), want.get(i)), "parse_differs_from_document".into()));
                    }
                }
            }
        }
    }
    Obs { code, changed, before, after, viol }
}

// ------------------------------------------------------------------ generators
const WORDS: [&str; 24] = ["alpha", "beta", "gamma", "", "x", "  indented", "+plus", "-minus", "*** stars", "é€", "@@ at", "tab\there", "same", "same", "same ", "same\t", "trail", "trail ", "trail  \t", " ", "\t", "x ", "é€\u{a0}", "alpha\u{2003}"];
const PATHS: [&str; 12] = ["a.txt", "b.txt", "c.md", "d/x.txt", "d/y.txt", "d/e/z.txt", "sp ace.txt", "ü.txt", "back\\slash.txt", "n/o/p/q.txt", ".rip/note", "a.txt.bak"];

fn gen_text(r: &mut Rng) -> Vec<u8> {
    match r.below(14) {
        0 => return vec![],
        1 => return vec![0xff, 0xfe, b'\n'],
        2 => return b"\n".to_vec(),
        3 => return b"\r\n".to_vec(),
        4 => return b"one\rtwo\r".to_vec(),
        _ => {}
    }
    let n = r.range(1, 6);
    let eol_mode = r.below(6); // 0-2 LF, 3-4 CRLF, 5 mixed
    let mut s = String::new();
    for i in 0..n {
        s.push_str(*r.pick(&WORDS[..]));
        let last = i + 1 == n;
        if last && r.chance(1, 3) {
            if r.chance(1, 6) {
                s.push('\r');
            }
            break;
        }
        match eol_mode {
            0..=2 => s.push('\n'),
            3 | 4 => s.push_str("\r\n"),
            _ => s.push_str(if r.chance(1, 2) { "\n" } else { "\r\n" }),
        }
    }
    s.into_bytes()
}
fn gen_init(r: &mut Rng) -> Listing {
    let mut l = Listing::new();
    let n = r.range(0, 6);
    for _ in 0..n {
        let p = *r.pick(&PATHS[..]);
        let c = norm(p).unwrap();
        // keep the tree consistent
        if (1..c.len()).any(|i| matches!(l.get(&c[..i].to_vec()), Some(Node::File(_)))) || l.get(&c) == Some(&Node::Dir) {
            continue;
        }
        for i in 1..c.len() {
            l.insert(c[..i].to_vec(), Node::Dir);
        }
        l.insert(c, Node::File(gen_text(r)));
    }
    if r.chance(1, 4) {
        let c = norm(*r.pick(&["emptydir", "d/sub", "a.txt.d"])).unwrap();
        if (1..=c.len()).all(|i| !matches!(l.get(&c[..i].to_vec()), Some(Node::File(_)))) {
            for i in 1..=c.len() {
                l.insert(c[..i].to_vec(), Node::Dir);
            }
        }
    }
    l
}
fn text_lines(t: &str) -> Vec<String> {
    let mut v: Vec<String> = t.split('\n').map(|l| l.strip_suffix('\r').unwrap_or(l).to_string()).collect();
    if t.ends_with('\n') {
        v.pop();
    }
    v
}
fn path_variant(r: &mut Rng, p: &str) -> String {
    match r.below(24) {
        0 => format!("./{p}"),
        1 => format!("{p}/"),
        2 => p.replacen('/', "//", 1),
        3 => p.replacen('/', "/./", 1),
        4 => format!("{p}/."),
        5 => format!(" {p}\u{a0}"),
        6 => format!("\u{2003}{p}\t"),
        7 => match r.below(3) {
            0 => format!("{p}\0"),
            1 => format!("nul\0dir/{p}"),
            _ => format!("{p}/./"),
        },
        _ => p.to_string(),
    }
}
/// lines of one op derived from the simulated state so that it applies
fn gen_op(r: &mut Rng, sim: &mut Sim) -> (Vec<String>, PatchOp) {
    let existing: Vec<Comps> = sim.files.keys().filter(|c| c.first().map(|x| x.as_slice()) != Some(b".rip")).cloned().collect();
    let pick_existing = |r: &mut Rng| -> Option<String> { if existing.is_empty() { None } else { Some(show_comps(r.pick(&existing))) } };
    let mut out = vec![];
    let kind = r.below(10);
    if kind < 3 || existing.is_empty() {
        // add
        let p = match r.below(8) {
            0 => pick_existing(r).unwrap_or("a.txt".into()),                         // exists -> fails
            1 => pick_existing(r).map(|p| format!("{p}/under")).unwrap_or("q".into()), // parent is a file
            2 => "d".to_string(),
            _ => r.pick(&PATHS[..]).to_string(),
        };
        out.push(format!("*** Add File: {}", path_variant(r, &p)));
        let n = r.range(0, 3);
        let mut content = String::new();
        for _ in 0..n {
            let w = *r.pick(&WORDS[..]);
            out.push(format!("+{w}"));
            content.push_str(w);
            content.push('\n');
        }
        if content == "\n" {
            content.clear();
        }
        let op = PatchOp::AddFile { path: p.into(), content };
        let _ = spec_op(sim, &op);
        return (out, op);
    } else if kind < 5 {
        let p = if r.chance(1, 6) { "missing.txt".to_string() } else { pick_existing(r).unwrap() };
        out.push(format!("*** Delete File: {}", path_variant(r, &p)));
        let op = PatchOp::DeleteFile { path: p.into() };
        let _ = spec_op(sim, &op);
        return (out, op);
    } else {
        let p = if r.chance(1, 10) { "missing.txt".to_string() } else { pick_existing(r).unwrap() };
        out.push(format!("*** Update File: {}", path_variant(r, &p)));
        let mv = if r.chance(1, 4) {
            let q = match r.below(5) {
                0 => pick_existing(r).unwrap(),
                1 => p.clone(),
                _ => r.pick(&PATHS[..]).to_string(),
            };
            out.push(format!("*** Move to: {}", path_variant(r, &q)));
            Some(q)
        } else {
            None
        };
        let cur = norm(&p).and_then(|c| sim.files.get(&c).cloned()).unwrap_or_default();
        let text = String::from_utf8_lossy(&cur).to_string();
        let lines = text_lines(&text);
        let nh = r.range(1, 3);
        let mut pos = 0usize;
        let mut hunks = vec![];
        for _ in 0..nh {
            if r.chance(1, 3) {
                out.push(if r.chance(1, 2) { "@@".into() } else { "@@ fn main()".into() });
            } else if !hunks.is_empty() {
                out.push("@@".into());
            }
            let mut before = vec![];
            let mut after = vec![];
            let prev_after: Vec<String> = hunks.last().map(|h: &rip_workspace::PatchHunk| h.after.clone()).unwrap_or_default();
            if !prev_after.is_empty() && r.chance(1, 5) {
                // context taken from the lines the previous hunk inserted: they lie before the cursor, so the
                // search must not find them there (it may find the same text further down)
                let k = r.range(1, prev_after.len().min(2) as u64) as usize;
                for l in &prev_after[prev_after.len() - k..] {
                    out.push(format!(" {l}"));
                    before.push(l.clone());
                    after.push(l.clone());
                }
                let w = r.pick(&WORDS[..]).to_string();
                out.push(format!("+{w}"));
                after.push(w);
            } else if lines.is_empty() || r.chance(1, 7) {
                // pure append hunk
                for _ in 0..r.range(1, 2) {
                    let w = r.pick(&WORDS[..]).to_string();
                    out.push(format!("+{w}"));
                    after.push(w);
                }
            } else {
                let start = if pos < lines.len() { r.range(pos as u64, (lines.len() - 1) as u64) as usize } else { lines.len() - 1 };
                let len = r.range(1, 3).min((lines.len() - start) as u64) as usize;
                for l in &lines[start..start + len] {
                    match r.below(4) {
                        0 => {
                            out.push(format!("-{l}"));
                            before.push(l.clone());
                        }
                        1 => {
                            out.push(format!("-{l}"));
                            before.push(l.clone());
                            let w = r.pick(&WORDS[..]).to_string();
                            out.push(format!("+{w}"));
                            after.push(w);
                        }
                        _ => {
                            out.push(format!(" {l}"));
                            before.push(l.clone());
                            after.push(l.clone());
                        }
                    }
                }
                if r.chance(1, 3) {
                    let w = r.pick(&WORDS[..]).to_string();
                    out.push(format!("+{w}"));
                    after.push(w);
                }
                pos = start + len;
            }
            hunks.push(rip_workspace::PatchHunk { before, after });
        }
        let op = PatchOp::UpdateFile { path: p.into(), moved_to: mv.map(|m| m.into()), hunks };
        let _ = spec_op(sim, &op);
        (out, op)
    }
}
fn mutate(r: &mut Rng, lines: &mut Vec<String>) -> &'static str {
    if lines.len() < 3 {
        return "none";
    }
    let i = r.range(1, (lines.len() - 1) as u64) as usize;
    match r.below(16) {
        0 => {
            lines.remove(i);
            "drop-line"
        }
        1 => {
            let l = lines[i].clone();
            lines.insert(i, l);
            "dup-line"
        }
        2 => {
            let j = r.range(1, (lines.len() - 1) as u64) as usize;
            lines.swap(i, j);
            "swap-lines"
        }
        3 => {
            lines[i].push('!');
            "edit-line"
        }
        4 => {
            lines.insert(i, String::new());
            "empty-line"
        }
        5 => {
            lines.insert(i, "*** End of File".into());
            "eof-marker"
        }
        6 => {
            lines.pop();
            "no-footer"
        }
        7 => {
            lines.insert(i, "*** End Patch".into());
            "early-footer"
        }
        8 => {
            lines.insert(i, format!("*** Delete File: {}", r.pick(&["../x", "/abs", "a/../b", "", "  ", ".", "d/..", "nul\0x"])));
            "bad-path"
        }
        9 => {
            lines[0] = "*** begin patch".into();
            "bad-header"
        }
        10 => {
            lines.insert(i, "?what".into());
            "bad-prefix"
        }
        11 => {
            lines.insert(i, format!("*** Update File: {}", r.pick(&PATHS[..])));
            "update-no-hunks"
        }
        12 => {
            lines.insert(i, format!("*** Delete File: {}", r.pick(&["missing.txt", "d", "emptydir", ".rip"])));
            "fail-op"
        }
        13 => {
            let long = "L".repeat(*r.pick(&[255usize, 256, 300]));
            lines.insert(i, format!("*** Add File: d/{long}"));
            lines.insert(i + 1, "+x".into());
            "long-name"
        }
        14 => {
            lines.insert(i, "*** Frobnicate: x".into());
            "unknown-header"
        }
        _ => {
            lines[i] = lines[i].replace(' ', "\t");
            "tabs"
        }
    }
}
fn gen_case(r: &mut Rng) -> Case {
    let init = gen_init(r);
    let mode = r.below(20);
    if mode == 0 {
        // malformed stream
        let vocab = ["*** Begin Patch", "*** End Patch", "*** Add File: a.txt", "*** Update File: a.txt", "*** Delete File: b.txt", "*** Move to: c.txt", "@@", "+x", "-x", " x", "", "*** End of File", "junk", "*** "];
        let n = r.range(0, 8);
        let mut ls: Vec<String> = (0..n).map(|_| r.pick(&vocab[..]).to_string()).collect();
        if r.chance(2, 3) {
            ls.insert(0, "*** Begin Patch".into());
        }
        return Case { init, patch: ls.join("\n"), tag: "malformed".into(), intended: None };
    }
    let mut sim = Sim::from_listing(&init);
    let mut lines = vec!["*** Begin Patch".to_string()];
    let mut tag = String::from("valid");
    let mut intended: Option<Vec<PatchOp>> = Some(vec![]);
    if mode <= 3 {
        // file replaced by a directory inside one patch (delete or move away, then add below it)
        let files: Vec<Comps> = sim.files.keys().cloned().collect();
        if !files.is_empty() {
            let f = show_comps(r.pick(&files));
            if r.chance(2, 3) {
                lines.push(format!("*** Delete File: {f}"));
                let _ = spec_op(&mut sim, &PatchOp::DeleteFile { path: f.clone().into() });
            } else {
                lines.push(format!("*** Update File: {f}"));
                lines.push("*** Move to: moved/away.txt".into());
                lines.push("@@".into());
                lines.push("+tail".into());
            }
            let sub = if r.chance(1, 2) { format!("{f}/inner.txt") } else { format!("{f}/deep/er/inner.txt") };
            lines.push(format!("*** Add File: {sub}"));
            lines.push("+inner".into());
            tag = "file-to-dir".into();
            intended = None;
        }
    }
    let n = if (4..=7).contains(&mode) { r.range(3, 7) } else { r.range(1, 4) };
    for _ in 0..n {
        let (ls, op) = gen_op(r, &mut sim);
        lines.extend(ls);
        if let Some(v) = intended.as_mut() {
            v.push(op);
        }
    }
    if (4..=7).contains(&mode) {
        intended = None;
        // deep rollback: several operations that apply (same paths re-used), then one that cannot
        tag = "deep-rollback".into();
        match r.below(5) {
            0 => lines.push("*** Delete File: missing.txt".into()),
            1 => {
                lines.push("*** Update File: missing.txt".into());
                lines.push("@@".into());
                lines.push("+x".into());
            }
            2 => {
                let files: Vec<Comps> = sim.files.keys().cloned().collect();
                if !files.is_empty() {
                    let f = show_comps(r.pick(&files));
                    lines.push(format!("*** Update File: {f}"));
                    lines.push("@@".into());
                    lines.push("-this line is nowhere".into());
                    lines.push("+x".into());
                } else {
                    lines.push("*** Delete File: missing.txt".into());
                }
            }
            3 => {
                let files: Vec<Comps> = sim.files.keys().cloned().collect();
                if files.len() >= 2 {
                    let f = show_comps(r.pick(&files));
                    let g = show_comps(r.pick(&files));
                    lines.push(format!("*** Update File: {f}"));
                    lines.push(format!("*** Move to: {g}"));
                    lines.push("@@".into());
                    lines.push("+tail".into());
                } else {
                    lines.push("*** Add File: .rip".into());
                    lines.push("+x".into());
                }
            }
            _ => {
                lines.push(format!("*** Add File: d/{}", "N".repeat(256)));
                lines.push("+x".into());
            }
        }
    }
    lines.push("*** End Patch".into());
    if r.chance(1, 2) {
        let m = mutate(r, &mut lines);
        tag = format!("{tag}+{m}");
        intended = None;
    }
    let eol = if r.chance(1, 8) { "\r\n" } else { "\n" };
    let mut patch = lines.join(eol);
    if r.chance(1, 2) {
        patch.push_str(eol);
    }
    if r.chance(1, 20) {
        patch.push_str("trailing garbage after the footer\n");
        intended = None;
    }
    // str::lines drops a `\r` before the line break: a payload line ending in `\r` is not what the text says
    let ends_cr = |l: &String| l.ends_with('\r');
    if let Some(v) = &intended {
        let bad = v.iter().any(|op| match op {
            PatchOp::AddFile { content, .. } => content.split('\n').any(|l| l.ends_with('\r')),
            PatchOp::UpdateFile { hunks, .. } => hunks.iter().any(|h| h.before.iter().any(ends_cr) || h.after.iter().any(ends_cr)),
            _ => false,
        });
        if bad {
            intended = None;
        }
    }
    Case { init, patch, tag, intended }
}

fn intended_json(ops: &[PatchOp]) -> serde_json::Value {
    serde_json::Value::Array(
        ops.iter()
            .map(|op| match op {
                PatchOp::AddFile { content, .. } => json!({"add": content}),
                PatchOp::DeleteFile { .. } => json!({"delete": true}),
                PatchOp::UpdateFile { moved_to, hunks, .. } => json!({"update": hunks.iter().map(|h| json!({"before": h.before, "after": h.after})).collect::<Vec<_>>(), "moved": moved_to.is_some()}),
            })
            .collect(),
    )
}
fn intended_from_json(v: &serde_json::Value) -> Option<Vec<PatchOp>> {
    let strs = |x: &serde_json::Value| -> Vec<String> { x.as_array().map(|a| a.iter().map(|s| s.as_str().unwrap_or("").to_string()).collect()).unwrap_or_default() };
    let arr = v.as_array()?;
    Some(
        arr.iter()
            .map(|o| {
                if let Some(c) = o.get("add") {
                    PatchOp::AddFile { path: "x".into(), content: c.as_str().unwrap_or("").to_string() }
                } else if let Some(hs) = o.get("update") {
                    PatchOp::UpdateFile {
                        path: "x".into(),
                        moved_to: if o["moved"].as_bool().unwrap_or(false) { Some("y".into()) } else { None },
                        hunks: hs.as_array().map(|a| a.iter().map(|h| rip_workspace::PatchHunk { before: strs(&h["before"]), after: strs(&h["after"]) }).collect()).unwrap_or_default(),
                    }
                } else {
                    PatchOp::DeleteFile { path: "x".into() }
                }
            })
            .collect(),
    )
}
/// same kind and same payload (add content / move flag / hunks), paths not compared (spelling variants)
fn same_payload(a: &PatchOp, b: &PatchOp) -> bool {
    match (a, b) {
        (PatchOp::AddFile { content: c1, .. }, PatchOp::AddFile { content: c2, .. }) => c1 == c2,
        (PatchOp::DeleteFile { .. }, PatchOp::DeleteFile { .. }) => true,
        (PatchOp::UpdateFile { moved_to: m1, hunks: h1, .. }, PatchOp::UpdateFile { moved_to: m2, hunks: h2, .. }) => m1.is_some() == m2.is_some() && h1 == h2,
        _ => false,
    }
}
fn case_json(c: &Case) -> serde_json::Value {
    match &c.intended {
        Some(ops) => json!({"init": listing_json(&c.init), "patch": c.patch, "tag": c.tag, "intended": intended_json(ops)}),
        None => json!({"init": listing_json(&c.init), "patch": c.patch, "tag": c.tag}),
    }
}
fn case_from_json(v: &serde_json::Value) -> Case {
    Case {
        init: listing_from_json(&v["init"]),
        patch: v["patch"].as_str().unwrap_or("").to_string(),
        tag: v["tag"].as_str().unwrap_or("corpus").to_string(),
        intended: v.get("intended").and_then(intended_from_json),
    }
}
fn corpus(dir: &std::path::Path) -> Vec<Case> {
    let mut v = vec![];
    let mut names: Vec<_> = std::fs::read_dir(dir).map(|rd| rd.flatten().map(|e| e.path()).collect()).unwrap_or_default();
    names.sort();
    for p in names {
        if p.extension().map(|e| e == "json").unwrap_or(false) {
            if let Ok(t) = std::fs::read_to_string(&p) {
                if let Ok(j) = serde_json::from_str::<serde_json::Value>(&t) {
                    let c = j.get("case").cloned().unwrap_or(j);
                    v.push(case_from_json(&c));
                }
            }
        }
    }
    v
}
fn coq_path(p: &std::path::Path) -> String {
    use std::os::unix::ffi::OsStrExt;
    ws_common::coq_bytes(p.as_os_str().as_bytes())
}
fn coq_lines(ls: &[String]) -> String {
    coq_list(ls, |l| ws_common::coq_bytes(l.as_bytes()))
}
/// what Patch::parse returned, as a term of `option (list op)`
fn coq_ops(patch: &str) -> String {
    match Patch::parse(patch) {
        Err(_) => "None".into(),
        Ok(p) => {
            let ops: Vec<String> = p
                .ops()
                .iter()
                .map(|op| match op {
                    PatchOp::AddFile { path, content } => format!("Add {} {}", coq_path(path), ws_common::coq_bytes(content.as_bytes())),
                    PatchOp::DeleteFile { path } => format!("Del {}", coq_path(path)),
                    PatchOp::UpdateFile { path, moved_to, hunks } => format!(
                        "Upd {} {} [{}]",
                        coq_path(path),
                        match moved_to {
                            Some(m) => format!("(Some {})", coq_path(m)),
                            None => "None".into(),
                        },
                        hunks.iter().map(|h| format!("{{| h_before := {}; h_after := {} |}}", coq_lines(&h.before), coq_lines(&h.after))).collect::<Vec<_>>().join("; ")
                    ),
                })
                .collect();
            format!("(Some [{}])", ops.join("; "))
        }
    }
}
fn coq_case(c: &Case, o: &Obs, fixed: bool) -> String {
    format!(
        "{{| c_fixed := {}; c_fs := {}; c_patch := {}; c_ops := {}; c_code := {}; c_changed := {}; c_after := {} |}}",
        coq_bool(fixed),
        coq_fs(&o.before),
        ws_common::coq_bytes(c.patch.as_bytes()),
        coq_ops(&c.patch),
        o.code,
        coq_list(&o.changed, |s| ws_common::coq_bytes(s.as_bytes())),
        coq_fs(&o.after)
    )
}

fn main() {
    let a = parse_args();
    let fixed = a.extra.get("fixed").map(|v| v != "0").unwrap_or(true);
    let verif_root = a.extra.get("verif").cloned().unwrap_or_else(|| env!("CARGO_MANIFEST_DIR").to_string() + "/..");
    let mut res = RunResult::new("C12", &a);
    res.rule = "cases = (workspace tree, patch text): patches derived from the simulated workspace so that hunks apply (add/update/move/delete, 1-5 ops, same path re-used, file replaced by a directory), a deep-rollback family (3-7 applying operations followed by one that cannot), then one text-level mutation in half of them (16 kinds), path spellings (./, //, /./, trailing / and /., unicode blanks, NUL), CRLF/LF/mixed/no-final-newline/empty/non-UTF-8 files, lines ending in blanks / tabs / unicode blanks and lines differing only in trailing blanks, plus a malformed stream; non-trivial = at least one op parsed and the workspace non-empty".into();
    let n = if a.thorough() { 12000 } else { 900 };
    let rt = tokio::runtime::Builder::new_current_thread().enable_all().build().unwrap();
    let mut r = Rng::new(a.seed);
    let mut w = CaseWriter::new(&a.out, "Model.Patch", "check_case", "model_obs", 60);
    let mut distinct = Distinct::default();
    let mut all: Vec<Case> = if let Some(rp) = &a.replay {
        let j: serde_json::Value = serde_json::from_str(&std::fs::read_to_string(rp).unwrap()).unwrap();
        vec![case_from_json(j.get("case").unwrap_or(&j))]
    } else {
        corpus(&std::path::Path::new(&verif_root).join("corpus/C12"))
    };
    if a.replay.is_none() {
        for _ in 0..n {
            all.push(gen_case(&mut r));
        }
    }
    for (i, c) in all.iter().enumerate() {
        let got = std::panic::catch_unwind(std::panic::AssertUnwindSafe(|| run_impl(&rt, c)));
        res.evaluations += 1;
        res.oracle_checks += 1;
        res.bump(&format!("tag={}", c.tag.split('+').next().unwrap_or("")));
        if let Some(m) = c.tag.split('+').nth(1) {
            res.bump(&format!("mutation={m}"));
        }
        match got {
            Err(_) => {
                res.impl_panics += 1;
                res.oracle_violations.push(OracleViolation { case_id: i as i64, what: "apply_patch panicked".into(), class: "panic".into(), replay: case_json(c) });
            }
            Ok(o) => {
                res.bump(&format!("outcome={}", match o.code { 0 => "ok", 2 => "err-notfound", 3 => "err-exists", 4 => "err-invalid-data", _ => "err-os" }));
                if let Some((what, class)) = &o.viol {
                    res.oracle_violations.push(OracleViolation { case_id: i as i64, what: what.clone(), class: class.clone(), replay: case_json(c) });
                }
                if !a.oracle_only() {
                    let id = w.push(coq_case(c, &o, fixed));
                    if res.case_index.len() < 3000 {
                        res.case_index.insert(id.to_string(), case_json(c));
                    }
                }
                if let Ok(pp) = Patch::parse(&c.patch) {
                    res.bump(&format!("ops={}", pp.ops().len().min(8)));
                    if o.code != 0 {
                        // how much had been mutated before the failure is what the rollback must undo
                        let mut sim = Sim::from_listing(&o.before);
                        let done = pp.ops().iter().take_while(|op| spec_op(&mut sim, op).is_ok()).count();
                        res.bump(&format!("ops_applied_before_failure={}", done.min(6)));
                        if done >= 1 {
                            res.bump(&format!("rollback_of_applied_ops_error_kind={}", match o.code { 2 => "notfound", 3 => "exists", 4 => "invalid-data", 5 => "invalid-input", 6 => "is-a-directory", 7 => "not-a-directory", 8 => "invalid-filename", _ => "other" }));
                        }
                    }
                }
                let nontrivial = !o.before.is_empty() && Patch::parse(&c.patch).map(|p| !p.ops().is_empty()).unwrap_or(false);
                if nontrivial {
                    distinct.add(&format!("{:?}", c));
                    if res.samples.len() < 3 && i % 7 == 3 {
                        res.samples.push(case_json(c));
                    }
                }
            }
        }
    }
    w.flush();
    res.distinct_nontrivial = distinct.count();
    res.case_files = w.files.iter().map(|p| p.display().to_string()).collect();
    res.write(&a.out);
    println!("c12: {} cases, {} distinct non-trivial, {} oracle violations, {} panics", res.evaluations, res.distinct_nontrivial, res.oracle_violations.len(), res.impl_panics);
}
