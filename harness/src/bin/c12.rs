//! C12 — Workspace::apply_patch / the apply_patch tool vs coq/Model/Patch.v, plus the independent
//! oracle: on Err every file keeps its bytes and no new file remains; on Ok the workspace equals an
//! independent interpreter of the ops, changed_files = sorted dedup of the named paths, line-ending
//! style and trailing newline of uniformly-terminated files are preserved.
#[path = "../ws_common.rs"]
mod ws_common;
use rip_workspace::{Patch, PatchOp, Workspace};
use rv::*;
use serde_json::json;
use std::collections::{BTreeMap, BTreeSet};
use ws_common::*;

#[derive(Clone, Debug)]
struct Case {
    init: Listing,
    patch: String,
    tag: String,
    /// what the document says, as the generator wrote it (payload of every operation; None when the
    /// text was mutated or written by hand): the parser must return exactly this
    intended: Option<Vec<PatchOp>>,
    /// `intended` carries the paths as the document spells them (trimmed); false for older corpus
    /// entries that recorded the payload only.  When true the oracle interprets `intended` and never
    /// looks at what the implementation's parser returned.
    intended_paths: bool,
}

// ------------------------------------------------------------------ independent interpreter
/// Where the bytes of a file come from: a file of the initial workspace that has only been updated /
/// moved since (no add, no delete).  Line-ending style and trailing newline of such a file are the
/// origin's, however many sections touched it and whatever its name is now.
#[derive(Clone, Debug)]
struct Lineage {
    origin: Comps,
    updated: bool,
    /// no inserted line carries a `\r`
    clean: bool,
    /// an intermediate text had no line terminator at all (the style is re-detected from nothing)
    exempt: bool,
    /// a text without final newline whose last remaining line is empty renders with a final newline
    nl_exempt: bool,
}
#[derive(Clone, Default)]
struct Sim {
    files: BTreeMap<Comps, Vec<u8>>,
    dirs: BTreeSet<Comps>,
    lineage: BTreeMap<Comps, Lineage>,
}
impl Sim {
    fn from_listing(l: &Listing) -> Sim {
        let mut s = Sim::default();
        for (c, n) in l {
            match n {
                Node::Dir => {
                    s.dirs.insert(c.clone());
                }
                Node::File(b) => {
                    s.files.insert(c.clone(), b.clone());
                    s.lineage.insert(c.clone(), Lineage { origin: c.clone(), updated: false, clean: true, exempt: false, nl_exempt: false });
                }
            }
        }
        s
    }
    fn ancestors_ok(&self, c: &Comps) -> bool {
        (1..c.len()).all(|i| !self.files.contains_key(&c[..i].to_vec()))
    }
    fn mk_ancestors(&mut self, c: &Comps) {
        for i in 1..c.len() {
            self.dirs.insert(c[..i].to_vec());
        }
    }
}
/// plain relative path -> components; None for anything the format cannot name a file with
fn norm(raw: &str) -> Option<Comps> {
    if raw.is_empty() || raw.starts_with('/') || raw.contains('\0') || raw.ends_with('/') {
        return None;
    }
    let segs: Vec<&str> = raw.split('/').collect();
    if segs.iter().any(|s| *s == "..") || *segs.last().unwrap() == "." {
        return None;
    }
    let c: Comps = segs.iter().filter(|s| !s.is_empty() && **s != ".").map(|s| s.as_bytes().to_vec()).collect();
    if c.is_empty() || c.iter().any(|x| x.len() > 255) {
        None
    } else {
        Some(c)
    }
}
fn spec_hunks(text: &str, hunks: &[(Vec<String>, Vec<String>)]) -> Option<String> {
    spec_hunks_lines(text, hunks).map(|(_, out)| out)
}
/// the resulting line list and its rendering
fn spec_hunks_lines(text: &str, hunks: &[(Vec<String>, Vec<String>)]) -> Option<(Vec<String>, String)> {
    let eol = if text.contains("\r\n") { "\r\n" } else { "\n" };
    let trailing = text.ends_with('\n');
    let mut lines: Vec<String> = text.split('\n').map(|l| l.strip_suffix('\r').unwrap_or(l).to_string()).collect();
    if trailing {
        lines.pop();
    }
    let mut cursor = 0usize;
    for (before, after) in hunks {
        if before.is_empty() {
            lines.extend(after.iter().cloned());
            cursor = lines.len();
            continue;
        }
        let mut found = None;
        let mut i = cursor;
        while i + before.len() <= lines.len() {
            if lines[i..i + before.len()] == before[..] {
                found = Some(i);
                break;
            }
            i += 1;
        }
        let pos = found?;
        let mut nl = lines[..pos].to_vec();
        nl.extend(after.iter().cloned());
        nl.extend_from_slice(&lines[pos + before.len()..]);
        lines = nl;
        cursor = pos + after.len();
    }
    if lines.is_empty() {
        return Some((lines, String::new()));
    }
    let mut out = lines.join(eol);
    if trailing {
        out.push_str(eol);
    }
    Some((lines, out))
}
fn p2s(p: &std::path::Path) -> String {
    p.to_string_lossy().to_string()
}
/// Err(()) = the spec says this op cannot be performed
fn spec_op(s: &mut Sim, op: &PatchOp) -> Result<(), ()> {
    match op {
        PatchOp::AddFile { path, content } => {
            let c = norm(&p2s(path)).ok_or(())?;
            if s.files.contains_key(&c) || s.dirs.contains(&c) || !s.ancestors_ok(&c) {
                return Err(());
            }
            s.mk_ancestors(&c);
            s.lineage.remove(&c);
            s.files.insert(c, content.as_bytes().to_vec());
            Ok(())
        }
        PatchOp::DeleteFile { path } => {
            let c = norm(&p2s(path)).ok_or(())?;
            s.lineage.remove(&c);
            s.files.remove(&c).map(|_| ()).ok_or(())
        }
        PatchOp::UpdateFile { path, moved_to, hunks } => {
            let c = norm(&p2s(path)).ok_or(())?;
            let b = s.files.get(&c).cloned().ok_or(())?;
            let text = String::from_utf8(b).map_err(|_| ())?;
            let hs: Vec<(Vec<String>, Vec<String>)> = hunks.iter().map(|h| (h.before.clone(), h.after.clone())).collect();
            let (out_lines, out) = spec_hunks_lines(&text, &hs).ok_or(())?;
            if let Some(l) = s.lineage.get_mut(&c) {
                if l.updated && !text.contains('\n') {
                    l.exempt = true;
                }
                l.updated = true;
                if hunks.iter().any(|h| h.after.iter().any(|x| x.contains('\r'))) {
                    l.clean = false;
                }
                if !text.ends_with('\n') && out_lines.last().map(|x| x.is_empty()).unwrap_or(true) {
                    l.nl_exempt = true;
                }
            }
            s.files.insert(c.clone(), out.clone().into_bytes());
            if let Some(m) = moved_to {
                let t = norm(&p2s(m)).ok_or(())?;
                if s.files.contains_key(&t) || s.dirs.contains(&t) || !s.ancestors_ok(&t) {
                    return Err(());
                }
                s.mk_ancestors(&t);
                s.files.remove(&c);
                s.files.insert(t.clone(), out.into_bytes());
                if let Some(l) = s.lineage.remove(&c) {
                    s.lineage.insert(t, l);
                }
            }
            Ok(())
        }
    }
}
fn named_paths(ops: &[PatchOp]) -> Vec<String> {
    let mut v = vec![];
    for op in ops {
        match op {
            PatchOp::AddFile { path, .. } | PatchOp::DeleteFile { path } => v.push(p2s(path).replace('\\', "/")),
            PatchOp::UpdateFile { path, moved_to, .. } => {
                v.push(p2s(path).replace('\\', "/"));
                if let Some(m) = moved_to {
                    v.push(p2s(m).replace('\\', "/"));
                }
            }
        }
    }
    v.sort();
    v.dedup();
    v
}
#[derive(PartialEq, Clone, Copy)]
enum Style {
    Lf,
    Crlf,
    Other,
}
fn style(t: &[u8]) -> Style {
    let has_cr = t.contains(&13);
    if !has_cr {
        return Style::Lf;
    }
    let mut ok = true;
    for i in 0..t.len() {
        if t[i] == 13 && t.get(i + 1) != Some(&10) {
            ok = false;
        }
        if t[i] == 10 && (i == 0 || t[i - 1] != 13) {
            ok = false;
        }
    }
    if ok {
        Style::Crlf
    } else {
        Style::Other
    }
}

fn dirs_only(l: &Listing) -> BTreeSet<Comps> {
    l.iter().filter(|(_, n)| **n == Node::Dir).map(|(c, _)| c.clone()).collect()
}
// ------------------------------------------------------------------ the oracle
/// The property, checked on what the implementation did, without the model and — whenever the
/// generator recorded the operations it wrote (`intended_paths`) — without the implementation's
/// parser: the expectation is computed by `spec_op` (this file) from the recorded operations.
///   outcome Ok  : every operation is performable in order, the files equal the in-order result, the
///                 report equals the named paths, line-ending style / trailing newline of every file
///                 that descends from an initial file through updates and moves only are the origin's;
///   outcome Err : every file has its old bytes and no new file remains; and the in-order interpreter
///                 refuses some operation too (success iff every operation is performable:
///                 c12_success_complete / c12_fails_iff_some_op_fails).
fn oracle(c: &Case, before: &Listing, after: &Listing, outcome: &Result<Vec<String>, ()>) -> Option<(String, String)> {
    let fb = files_only(before);
    let fa = files_only(after);
    let parsed = Patch::parse(&c.patch);
    let ops: Option<Vec<PatchOp>> = match (&c.intended, c.intended_paths) {
        (Some(v), true) => Some(v.clone()),
        _ => parsed.as_ref().ok().map(|p| p.ops().to_vec()),
    };
    // what performing the operations in order gives: Ok(final state) or the index of the first refused one
    let spec: Option<Result<Sim, usize>> = ops.as_ref().map(|ops| {
        let mut sim = Sim::from_listing(before);
        for (i, op) in ops.iter().enumerate() {
            if spec_op(&mut sim, op).is_err() {
                return Err(i);
            }
        }
        Ok(sim)
    });
    let mut viol: Option<(String, String)> = None;
    match outcome {
        Err(()) => {
            if fb != fa {
                let mut what = String::from("failed apply_patch changed files:");
                let mut class = "not_atomic".to_string();
                for (p, b) in &fb {
                    match fa.get(p) {
                        None => {
                            if after.get(p) == Some(&Node::Dir) {
                                class = "atomicity_file_replaced_by_dir".into();
                                what += &format!(" {} was a file and is now a directory;", show_comps(p));
                            } else {
                                what += &format!(" {} lost;", show_comps(p));
                            }
                        }
                        Some(b2) if b2 != b => what += &format!(" {} bytes differ;", show_comps(p)),
                        _ => {}
                    }
                }
                for p in fa.keys() {
                    if !fb.contains_key(p) {
                        what += &format!(" new file {} remains;", show_comps(p));
                    }
                }
                viol = Some((what, class));
            } else if let Some(Ok(_)) = &spec {
                let n = ops.as_ref().map(|o| o.len()).unwrap_or(0);
                viol = Some((format!("apply_patch refused a patch whose {n} operations are all performable in order (the in-order interpreter succeeds; a later section did not see what the earlier ones had left)"), "refused_performable_patch".into()));
            }
        }
        Ok(changed) => match (&ops, &spec) {
            (None, _) | (_, None) => viol = Some(("apply_patch succeeded on a patch Patch::parse rejects".into(), "ok_unparsable".into())),
            (Some(_), Some(Err(i))) => {
                viol = Some((format!("apply_patch succeeded although operation {i} is not performable after the ones before it (spec interpreter)"), "ok_but_spec_fails".into()));
            }
            (Some(ops), Some(Ok(sim))) => {
                if sim.files != fa {
                    let mut what = String::from("workspace after a successful apply differs from performing the ops in order:");
                    for (p, b) in &sim.files {
                        match fa.get(p) {
                            None => what += &format!(" {} missing;", show_comps(p)),
                            Some(b2) if b2 != b => what += &format!(" {} holds {:?}, in-order result {:?};", show_comps(p), String::from_utf8_lossy(b2), String::from_utf8_lossy(b)),
                            _ => {}
                        }
                    }
                    for p in fa.keys() {
                        if !sim.files.contains_key(p) {
                            what += &format!(" {} should not exist;", show_comps(p));
                        }
                    }
                    what.truncate(600);
                    viol = Some((what, "wrong_result".into()));
                } else if sim.dirs != dirs_only(after) {
                    let got = dirs_only(after);
                    let extra: Vec<String> = got.difference(&sim.dirs).map(show_comps).collect();
                    let missing: Vec<String> = sim.dirs.difference(&got).map(show_comps).collect();
                    viol = Some((format!("directories after a successful apply differ from performing the ops in order (extra {extra:?}, missing {missing:?})"), "wrong_dirs".into()));
                } else if *changed != named_paths(ops) {
                    viol = Some((format!("changed_files {:?} != named paths {:?}", changed, named_paths(ops)), "wrong_changed_files".into()));
                } else {
                    // line endings / trailing newline: every file that descends from an initial file through
                    // updates and moves only, whatever the number of sections and its final name
                    for (k, l) in &sim.lineage {
                        if !l.updated || !l.clean || l.exempt {
                            continue;
                        }
                        let (Some(b0), Some(b1)) = (fb.get(&l.origin), fa.get(k)) else { continue };
                        let st = style(b0);
                        if st == Style::Other || b1.is_empty() {
                            continue;
                        }
                        let via = if *k == l.origin { String::new() } else { format!(" (was {})", show_comps(&l.origin)) };
                        if (st == Style::Lf && b1.contains(&13)) || (st == Style::Crlf && b0.contains(&10) && style(b1) != Style::Crlf && b1.contains(&10)) {
                            viol = Some((format!("line-ending style of {}{via} changed", show_comps(k)), "line_ending_changed".into()));
                        }
                        // without a final newline the rendering of a line list whose last line is empty
                        // necessarily ends in a newline (c12_no_final_newline_not_always_kept_refuted):
                        // only a non-empty last line can witness a changed flag
                        let had_nl = b0.ends_with(b"\n");
                        let now_nl = b1.ends_with(b"\n");
                        if !b0.is_empty() && ((had_nl && !now_nl) || (!had_nl && now_nl && !l.nl_exempt)) {
                            viol = Some((format!("trailing newline of {}{via} changed", show_comps(k)), "trailing_newline_changed".into()));
                        }
                    }
                }
            }
        },
    }
    // ---- the parser must return what the document says (independent of the implementation's own parse)
    if viol.is_none() {
        if let Some(want) = &c.intended {
            let same = |a: &PatchOp, b: &PatchOp| same_payload(a, b) && (!c.intended_paths || same_paths(a, b));
            match &parsed {
                Err(e) => viol = Some((format!("a well-formed generated document was rejected: {e}"), "parse_rejects_wellformed".into())),
                Ok(p) => {
                    if p.ops().len() != want.len() || !p.ops().iter().zip(want.iter()).all(|(a, b)| same(a, b)) {
                        let i = p.ops().iter().zip(want.iter()).position(|(a, b)| !same(a, b)).unwrap_or(want.len().min(p.ops().len()));
                        viol = Some((format!("the parser returned other operations than the document states (operation {i}: got {:?}, the text says {:?})", p.ops().get(i), want.get(i)), "parse_differs_from_document".into()));
                    }
                }
            }
        }
    }
    viol
}

// ------------------------------------------------------------------ running the implementation
struct Obs {
    code: u64,
    changed: Vec<String>,
    before: Listing,
    after: Listing,
    viol: Option<(String, String)>,
}

fn run_tool(rt: &tokio::runtime::Runtime, root: &std::path::Path, patch: &str) -> (i32, Option<Vec<String>>) {
    let registry = std::sync::Arc::new(rip_tools::ToolRegistry::default());
    let cfg = rip_tools::BuiltinToolConfig { workspace_root: root.to_path_buf(), ..Default::default() };
    rip_tools::register_builtin_tools(&registry, cfg);
    let h = registry.get("apply_patch").expect("apply_patch tool");
    let out = rt.block_on((h)(rip_tools::ToolInvocation { name: "apply_patch".into(), args: json!({ "patch": patch }), timeout_ms: None }));
    let ch = out.artifacts.as_ref().and_then(|a| a.get("changed_files")).and_then(|c| c.as_array()).map(|a| a.iter().map(|x| x.as_str().unwrap_or("").to_string()).collect());
    (out.exit_code, ch)
}

fn run_impl(rt: &tokio::runtime::Runtime, c: &Case) -> Obs {
    let sc = Scratch::new("c12");
    let root = sc.path().join("ws");
    std::fs::create_dir_all(&root).unwrap();
    populate(&root, &c.init);
    let ws = Workspace::new(&root).unwrap();
    let before = list_tree(&root);
    let r = ws.apply_patch(&c.patch);
    let after = list_tree(&root);
    let mut viol: Option<(String, String)> = None;
    let (code, changed) = match &r {
        Ok(res) => (0, res.changed_files.clone()),
        Err(e) => (1 + kind_code(e.kind()), vec![]),
    };
    // the tool on an identical copy must do the same
    let root2 = sc.path().join("ws2");
    std::fs::create_dir_all(&root2).unwrap();
    populate(&root2, &c.init);
    let (exit, tch) = run_tool(rt, &root2, &c.patch);
    let after2 = list_tree(&root2);
    if after2 != after {
        viol = Some(("apply_patch tool and Workspace::apply_patch left different workspaces".into(), "tool_differs".into()));
    }
    let want_exit = match &r {
        Ok(_) => 0,
        Err(e) if e.kind() == std::io::ErrorKind::InvalidData => 2,
        Err(_) => 1,
    };
    if exit != want_exit || (r.is_ok() && tch.as_ref() != Some(&changed)) {
        viol = Some((format!("apply_patch tool exit {exit} / changed {tch:?} vs library {want_exit} / {changed:?}"), "tool_differs".into()));
    }
    // ---- independent oracle (never overrides an earlier finding of the tool comparison)
    let outcome: Result<Vec<String>, ()> = match &r {
        Ok(res) => Ok(res.changed_files.clone()),
        Err(_) => Err(()),
    };
    if let Some(v) = oracle(c, &before, &after, &outcome) {
        viol = Some(v);
    }
    Obs { code, changed, before, after, viol }
}

// ------------------------------------------------------------------ generators
const WORDS: [&str; 24] = ["alpha", "beta", "gamma", "", "x", "  indented", "+plus", "-minus", "*** stars", "é€", "@@ at", "tab\there", "same", "same", "same ", "same\t", "trail", "trail ", "trail  \t", " ", "\t", "x ", "é€\u{a0}", "alpha\u{2003}"];
const PATHS: [&str; 12] = ["a.txt", "b.txt", "c.md", "d/x.txt", "d/y.txt", "d/e/z.txt", "sp ace.txt", "ü.txt", "back\\slash.txt", "n/o/p/q.txt", ".rip/note", "a.txt.bak"];

fn gen_text(r: &mut Rng) -> Vec<u8> {
    match r.below(14) {
        0 => return vec![],
        1 => return vec![0xff, 0xfe, b'\n'],
        2 => return b"\n".to_vec(),
        3 => return b"\r\n".to_vec(),
        4 => return b"one\rtwo\r".to_vec(),
        _ => {}
    }
    // one text in five is long and drawn from two or three lines only (closing braces, blank lines): contexts then
    // begin with repeated lines and partly match just in front of their true position - the inputs on which a
    // search that skips ahead after a partial match differs from the line-by-line search
    let low = r.chance(1, 5);
    const FEW: [&str; 3] = ["}", "", "x"];
    let few = if r.chance(1, 2) { 2 } else { 3 };
    let n = if low { r.range(4, 14) } else { r.range(1, 6) };
    let eol_mode = r.below(6); // 0-2 LF, 3-4 CRLF, 5 mixed
    let mut s = String::new();
    for i in 0..n {
        s.push_str(if low { *r.pick(&FEW[..few]) } else { *r.pick(&WORDS[..]) });
        let last = i + 1 == n;
        if last && r.chance(1, 3) {
            if r.chance(1, 6) {
                s.push('\r');
            }
            break;
        }
        match eol_mode {
            0..=2 => s.push('\n'),
            3 | 4 => s.push_str("\r\n"),
            _ => s.push_str(if r.chance(1, 2) { "\n" } else { "\r\n" }),
        }
    }
    s.into_bytes()
}
fn gen_init(r: &mut Rng) -> Listing {
    let mut l = Listing::new();
    let n = r.range(0, 6);
    for _ in 0..n {
        let p = *r.pick(&PATHS[..]);
        let c = norm(p).unwrap();
        // keep the tree consistent
        if (1..c.len()).any(|i| matches!(l.get(&c[..i].to_vec()), Some(Node::File(_)))) || l.get(&c) == Some(&Node::Dir) {
            continue;
        }
        for i in 1..c.len() {
            l.insert(c[..i].to_vec(), Node::Dir);
        }
        l.insert(c, Node::File(gen_text(r)));
    }
    if r.chance(1, 4) {
        let c = norm(*r.pick(&["emptydir", "d/sub", "a.txt.d"])).unwrap();
        if (1..=c.len()).all(|i| !matches!(l.get(&c[..i].to_vec()), Some(Node::File(_)))) {
            for i in 1..=c.len() {
                l.insert(c[..i].to_vec(), Node::Dir);
            }
        }
    }
    l
}
fn text_lines(t: &str) -> Vec<String> {
    let mut v: Vec<String> = t.split('\n').map(|l| l.strip_suffix('\r').unwrap_or(l).to_string()).collect();
    if t.ends_with('\n') {
        v.pop();
    }
    v
}
fn path_variant(r: &mut Rng, p: &str) -> String {
    match r.below(24) {
        0 => format!("./{p}"),
        1 => format!("{p}/"),
        2 => p.replacen('/', "//", 1),
        3 => p.replacen('/', "/./", 1),
        4 => format!("{p}/."),
        5 => format!(" {p}\u{a0}"),
        6 => format!("\u{2003}{p}\t"),
        7 => match r.below(3) {
            0 => format!("{p}\0"),
            1 => format!("nul\0dir/{p}"),
            _ => format!("{p}/./"),
        },
        _ => p.to_string(),
    }
}
/// the path as the parser must return it: the document's spelling without the surrounding blanks
fn doc_path(spelled: &str) -> std::path::PathBuf {
    spelled.trim().into()
}
/// 1-2 hunks (document lines pushed to `out`) derived from `lines` so that they apply to that text
fn gen_hunks(r: &mut Rng, lines: &[String], out: &mut Vec<String>) -> Vec<rip_workspace::PatchHunk> {
    let nh = r.range(1, 3);
    let mut pos = 0usize;
    let mut hunks: Vec<rip_workspace::PatchHunk> = vec![];
    for _ in 0..nh {
        if r.chance(1, 3) {
            out.push(if r.chance(1, 2) { "@@".into() } else { "@@ fn main()".into() });
        } else if !hunks.is_empty() {
            out.push("@@".into());
        }
        let mut before = vec![];
        let mut after = vec![];
        let prev_after: Vec<String> = hunks.last().map(|h: &rip_workspace::PatchHunk| h.after.clone()).unwrap_or_default();
        if !prev_after.is_empty() && r.chance(1, 5) {
            // context taken from the lines the previous hunk inserted: they lie before the cursor, so the
            // search must not find them there (it may find the same text further down)
            let k = r.range(1, prev_after.len().min(2) as u64) as usize;
            for l in &prev_after[prev_after.len() - k..] {
                out.push(format!(" {l}"));
                before.push(l.clone());
                after.push(l.clone());
            }
            let w = r.pick(&WORDS[..]).to_string();
            out.push(format!("+{w}"));
            after.push(w);
        } else if lines.is_empty() || r.chance(1, 7) {
            // pure append hunk
            for _ in 0..r.range(1, 2) {
                let w = r.pick(&WORDS[..]).to_string();
                out.push(format!("+{w}"));
                after.push(w);
            }
        } else {
            let start = if pos < lines.len() { r.range(pos as u64, (lines.len() - 1) as u64) as usize } else { lines.len() - 1 };
            let len = r.range(1, 3).min((lines.len() - start) as u64) as usize;
            for l in &lines[start..start + len] {
                match r.below(4) {
                    0 => {
                        out.push(format!("-{l}"));
                        before.push(l.clone());
                    }
                    1 => {
                        out.push(format!("-{l}"));
                        before.push(l.clone());
                        let w = r.pick(&WORDS[..]).to_string();
                        out.push(format!("+{w}"));
                        after.push(w);
                    }
                    _ => {
                        out.push(format!(" {l}"));
                        before.push(l.clone());
                        after.push(l.clone());
                    }
                }
            }
            if r.chance(1, 3) {
                let w = r.pick(&WORDS[..]).to_string();
                out.push(format!("+{w}"));
                after.push(w);
            }
            pos = start + len;
        }
        hunks.push(rip_workspace::PatchHunk { before, after });
    }
    hunks
}
/// hunks written for `text` that do apply to it (in-order, cursor-forward): the free generator above also
/// produces context behind the cursor on purpose; here it is asked again until the hunks apply
fn gen_hunks_applying(r: &mut Rng, text: &str, out: &mut Vec<String>) -> Vec<rip_workspace::PatchHunk> {
    let lines = text_lines(text);
    for _ in 0..8 {
        let mut tmp = vec![];
        let hs = gen_hunks(r, &lines, &mut tmp);
        let pairs: Vec<(Vec<String>, Vec<String>)> = hs.iter().map(|h| (h.before.clone(), h.after.clone())).collect();
        if spec_hunks(text, &pairs).is_some() {
            out.extend(tmp);
            return hs;
        }
    }
    let w = r.pick(&WORDS[..]).to_string();
    out.push(format!("+{w}"));
    vec![rip_workspace::PatchHunk { before: vec![], after: vec![w] }]
}
/// lines of one op derived from the simulated state so that it applies; the returned operation carries
/// the paths as the document spells them
fn gen_op(r: &mut Rng, sim: &mut Sim) -> (Vec<String>, PatchOp) {
    let existing: Vec<Comps> = sim.files.keys().filter(|c| c.first().map(|x| x.as_slice()) != Some(b".rip")).cloned().collect();
    let pick_existing = |r: &mut Rng| -> Option<String> { if existing.is_empty() { None } else { Some(show_comps(r.pick(&existing))) } };
    let mut out = vec![];
    let kind = r.below(10);
    if kind < 3 || existing.is_empty() {
        // add
        let p = match r.below(8) {
            0 => pick_existing(r).unwrap_or("a.txt".into()),                         // exists -> fails
            1 => pick_existing(r).map(|p| format!("{p}/under")).unwrap_or("q".into()), // parent is a file
            2 => "d".to_string(),
            _ => r.pick(&PATHS[..]).to_string(),
        };
        let pv = path_variant(r, &p);
        out.push(format!("*** Add File: {pv}"));
        let n = r.range(0, 3);
        let mut content = String::new();
        for _ in 0..n {
            let w = *r.pick(&WORDS[..]);
            out.push(format!("+{w}"));
            content.push_str(w);
            content.push('\n');
        }
        if content == "\n" {
            content.clear();
        }
        let op = PatchOp::AddFile { path: doc_path(&pv), content };
        let _ = spec_op(sim, &op);
        return (out, op);
    } else if kind < 5 {
        let p = if r.chance(1, 6) { "missing.txt".to_string() } else { pick_existing(r).unwrap() };
        let pv = path_variant(r, &p);
        out.push(format!("*** Delete File: {pv}"));
        let op = PatchOp::DeleteFile { path: doc_path(&pv) };
        let _ = spec_op(sim, &op);
        return (out, op);
    } else {
        let p = if r.chance(1, 10) { "missing.txt".to_string() } else { pick_existing(r).unwrap() };
        let pv = path_variant(r, &p);
        out.push(format!("*** Update File: {pv}"));
        let mv = if r.chance(1, 4) {
            let q = match r.below(5) {
                0 => pick_existing(r).unwrap(),
                1 => p.clone(),
                _ => r.pick(&PATHS[..]).to_string(),
            };
            let qv = path_variant(r, &q);
            out.push(format!("*** Move to: {qv}"));
            Some(doc_path(&qv))
        } else {
            None
        };
        let cur = norm(&p).and_then(|c| sim.files.get(&c).cloned()).unwrap_or_default();
        let text = String::from_utf8_lossy(&cur).to_string();
        let lines = text_lines(&text);
        let hunks = if r.chance(1, 2) { gen_hunks_applying(r, &text, &mut out) } else { gen_hunks(r, &lines, &mut out) };
        let op = PatchOp::UpdateFile { path: doc_path(&pv), moved_to: mv, hunks };
        let _ = spec_op(sim, &op);
        (out, op)
    }
}

// ---- the same-path family: several sections of ONE patch on the same few paths — moved away and
// back, re-created after a delete or a move, chains P->Q->P, updates on both names of a moved file.
// Every section is derived from the simulated workspace at that point of the patch (so performing the
// operations in order succeeds), or — `stale` — from a text the path held EARLIER in the same patch
// (so in-order application must refuse it unless the context happens to be there too).
#[derive(Clone, Copy, Debug)]
enum Step {
    Upd(usize, Option<usize>),
    Add(usize),
    Del(usize),
}
const CHAIN_TEMPLATES: [&[Step]; 14] = [
    &[Step::Upd(0, Some(1)), Step::Add(0), Step::Upd(0, None)],
    &[Step::Upd(0, Some(1)), Step::Upd(2, Some(0)), Step::Upd(0, None)],
    &[Step::Upd(0, Some(1)), Step::Upd(1, Some(0)), Step::Upd(0, None)],
    &[Step::Upd(0, Some(1)), Step::Upd(1, None), Step::Add(0), Step::Upd(0, None), Step::Upd(1, None)],
    &[Step::Del(0), Step::Add(0), Step::Upd(0, None)],
    &[Step::Upd(0, None), Step::Del(0), Step::Add(0), Step::Upd(0, None)],
    &[Step::Upd(0, Some(1)), Step::Upd(1, Some(2)), Step::Upd(2, Some(0)), Step::Upd(0, None)],
    &[Step::Add(0), Step::Upd(0, Some(1)), Step::Add(0), Step::Upd(0, None), Step::Upd(1, None)],
    &[Step::Upd(0, None), Step::Upd(0, Some(1)), Step::Add(0), Step::Del(0), Step::Add(0), Step::Upd(0, None)],
    &[Step::Upd(0, Some(1)), Step::Add(0), Step::Upd(0, Some(2)), Step::Add(0), Step::Upd(0, None)],
    &[Step::Upd(0, Some(1)), Step::Del(1), Step::Add(0), Step::Upd(0, Some(1)), Step::Upd(1, None)],
    &[Step::Upd(0, None), Step::Upd(0, None), Step::Upd(0, Some(1)), Step::Upd(1, None), Step::Upd(1, Some(0)), Step::Upd(0, None)],
    &[Step::Upd(0, Some(1)), Step::Add(0), Step::Del(0), Step::Upd(1, Some(0)), Step::Upd(0, None)],
    &[Step::Upd(0, Some(1)), Step::Upd(2, Some(0)), Step::Upd(0, Some(2)), Step::Upd(1, Some(0)), Step::Upd(0, None), Step::Upd(2, None)],
];
/// harmless spellings of one path: all of them name the same file
fn spell(r: &mut Rng, p: &str) -> String {
    match r.below(12) {
        0 => format!("./{p}"),
        1 => p.replacen('/', "//", 1),
        2 => p.replacen('/', "/./", 1),
        3 => format!(" {p}\u{a0}"),
        4 => format!("\u{2003}{p}\t"),
        _ => p.to_string(),
    }
}
fn utf8_text(r: &mut Rng, min_lines: usize) -> Vec<u8> {
    for _ in 0..40 {
        let t = gen_text(r);
        if let Ok(s) = std::str::from_utf8(&t) {
            if text_lines(s).len() >= min_lines && !t.is_empty() {
                return t;
            }
        }
    }
    b"alpha\nbeta\ngamma\n".to_vec()
}
fn gen_chain_case(r: &mut Rng) -> Case {
    let mut init = gen_init(r);
    // three distinct plain paths
    let cands: Vec<&str> = PATHS.iter().filter(|p| **p != ".rip/note").cloned().collect();
    let mut names: Vec<String> = vec![];
    while names.len() < 3 {
        let p = r.pick(&cands[..]).to_string();
        if !names.contains(&p) {
            names.push(p);
        }
    }
    let template: Option<&[Step]> = if r.chance(3, 5) { Some(*r.pick(&CHAIN_TEMPLATES[..])) } else { None };
    // which of the three must be there at the start: the first section on a path decides (source of an
    // update / delete: present; added or moved onto: absent); the random walk starts from P present, Q absent
    let mut need: [Option<bool>; 3] = [None, None, None];
    match template {
        Some(t) => {
            for st in t {
                match *st {
                    Step::Upd(i, m) => {
                        need[i].get_or_insert(true);
                        if let Some(j) = m {
                            need[j].get_or_insert(false);
                        }
                    }
                    Step::Add(i) => {
                        need[i].get_or_insert(false);
                    }
                    Step::Del(i) => {
                        need[i].get_or_insert(true);
                    }
                }
            }
        }
        None => {
            need[0] = Some(true);
            need[1] = Some(false);
        }
    }
    for (i, nm) in names.iter().enumerate() {
        let c = norm(nm).unwrap();
        // one time in thirty the workspace is left as it came (a section that cannot be performed: atomicity)
        if r.chance(1, 30) {
            continue;
        }
        match need[i] {
            Some(true) => {
                for k in 1..c.len() {
                    init.insert(c[..k].to_vec(), Node::Dir);
                }
                init.insert(c, Node::File(utf8_text(r, 2)));
            }
            Some(false) => {
                init.remove(&c);
            }
            None => {}
        }
    }
    let mut sim = Sim::from_listing(&init);
    let comps: Vec<Comps> = names.iter().map(|n| norm(n).unwrap()).collect();
    // every text each path has held so far in this patch (initial one included; the text written just
    // before a move away included)
    let mut history: Vec<Vec<String>> = comps.iter().map(|c| sim.files.get(c).and_then(|b| String::from_utf8(b.clone()).ok()).into_iter().collect()).collect();
    let mut lines = vec!["*** Begin Patch".to_string()];
    let mut intended: Vec<PatchOp> = vec![];
    let mut stale_used = false;
    let walk_len = r.range(3, 8) as usize;
    let mut k = 0usize;
    loop {
        let step = match template {
            Some(t) => {
                if k >= t.len() {
                    break;
                }
                t[k]
            }
            None => {
                if k >= walk_len {
                    break;
                }
                let i = r.below(3) as usize;
                let present: Vec<usize> = (0..3).filter(|j| sim.files.contains_key(&comps[*j])).collect();
                let absent: Vec<usize> = (0..3).filter(|j| !sim.files.contains_key(&comps[*j])).collect();
                if sim.files.contains_key(&comps[i]) {
                    match r.below(20) {
                        0..=7 => Step::Upd(i, None),
                        8..=14 if !absent.is_empty() => Step::Upd(i, Some(*r.pick(&absent[..]))),
                        8..=14 => Step::Upd(i, None),
                        _ => Step::Del(i),
                    }
                } else if !present.is_empty() && r.chance(2, 5) {
                    Step::Upd(*r.pick(&present[..]), Some(i))
                } else {
                    Step::Add(i)
                }
            }
        };
        k += 1;
        // now and then an unrelated section in between
        if r.chance(1, 14) {
            let (ls, op) = gen_op(r, &mut sim);
            lines.extend(ls);
            intended.push(op);
        }
        match step {
            Step::Add(i) => {
                let pv = spell(r, &names[i]);
                lines.push(format!("*** Add File: {pv}"));
                // the new content: fresh, or a variation of a text the path held before (then a hunk written
                // for the one may also match the other)
                let mut content_lines: Vec<String> = if !history[i].is_empty() && r.chance(1, 2) {
                    let mut v = text_lines(r.pick(&history[i][..]).as_str());
                    if !v.is_empty() {
                        let j = r.below(v.len() as u64) as usize;
                        match r.below(3) {
                            0 => v[j] = r.pick(&WORDS[..]).to_string(),
                            1 => v.insert(j, r.pick(&WORDS[..]).to_string()),
                            _ => {
                                v.remove(j);
                            }
                        }
                    }
                    v
                } else {
                    (0..r.range(1, 4)).map(|_| r.pick(&WORDS[..]).to_string()).collect()
                };
                content_lines.retain(|l| !l.ends_with('\r') && !l.contains('\n'));
                let mut content = String::new();
                for w in &content_lines {
                    lines.push(format!("+{w}"));
                    content.push_str(w);
                    content.push('\n');
                }
                if content == "\n" {
                    content.clear();
                }
                let op = PatchOp::AddFile { path: doc_path(&pv), content };
                let _ = spec_op(&mut sim, &op);
                intended.push(op);
            }
            Step::Del(i) => {
                let pv = spell(r, &names[i]);
                lines.push(format!("*** Delete File: {pv}"));
                let op = PatchOp::DeleteFile { path: doc_path(&pv) };
                let _ = spec_op(&mut sim, &op);
                intended.push(op);
            }
            Step::Upd(i, mv) => {
                let pv = spell(r, &names[i]);
                lines.push(format!("*** Update File: {pv}"));
                let moved_to = mv.map(|j| {
                    let qv = spell(r, &names[j]);
                    lines.push(format!("*** Move to: {qv}"));
                    doc_path(&qv)
                });
                let cur: Option<String> = sim.files.get(&comps[i]).map(|b| String::from_utf8_lossy(b).to_string());
                // the text the hunks are written for: what the path holds now; one time in five something it held earlier
                let older: Vec<&String> = history[i].iter().filter(|t| Some(*t) != cur.as_ref()).collect();
                let base = if !older.is_empty() && r.chance(1, 5) {
                    stale_used = true;
                    (*r.pick(&older[..])).clone()
                } else {
                    cur.clone().unwrap_or_default()
                };
                let hunks = if r.chance(11, 12) { gen_hunks_applying(r, &base, &mut lines) } else { gen_hunks(r, &text_lines(&base), &mut lines) };
                if let Some(t) = &cur {
                    let hs: Vec<(Vec<String>, Vec<String>)> = hunks.iter().map(|h| (h.before.clone(), h.after.clone())).collect();
                    if let Some(out) = spec_hunks(t, &hs) {
                        history[i].push(out);
                    }
                }
                let op = PatchOp::UpdateFile { path: doc_path(&pv), moved_to, hunks };
                let _ = spec_op(&mut sim, &op);
                intended.push(op);
            }
        }
        for (j, c) in comps.iter().enumerate() {
            if let Some(t) = sim.files.get(c).and_then(|b| String::from_utf8(b.clone()).ok()) {
                if history[j].last() != Some(&t) {
                    history[j].push(t);
                }
            }
        }
    }
    let mut tag = String::from(if template.is_some() { "same-path-chain" } else { "same-path-walk" });
    if stale_used {
        tag.push_str("-stale");
    }
    // one time in five a section that cannot be performed at the end: everything above is rolled back
    if r.chance(1, 5) {
        lines.push("*** Delete File: missing.txt".into());
        intended.push(PatchOp::DeleteFile { path: "missing.txt".into() });
        tag.push_str("-fail");
    }
    lines.push("*** End Patch".into());
    let eol = if r.chance(1, 8) { "\r\n" } else { "\n" };
    let mut patch = lines.join(eol);
    if r.chance(1, 2) {
        patch.push_str(eol);
    }
    Case { init, patch, tag, intended: clean_intended(Some(intended)), intended_paths: true }
}
/// str::lines drops a `\r` before the line break: a payload line ending in `\r` is not what the text says
fn clean_intended(intended: Option<Vec<PatchOp>>) -> Option<Vec<PatchOp>> {
    let ends_cr = |l: &String| l.ends_with('\r');
    let v = intended?;
    let bad = v.iter().any(|op| match op {
        PatchOp::AddFile { content, .. } => content.split('\n').any(|l| l.ends_with('\r')),
        PatchOp::UpdateFile { hunks, .. } => hunks.iter().any(|h| h.before.iter().any(ends_cr) || h.after.iter().any(ends_cr)),
        _ => false,
    });
    if bad {
        None
    } else {
        Some(v)
    }
}
fn mutate(r: &mut Rng, lines: &mut Vec<String>) -> &'static str {
    if lines.len() < 3 {
        return "none";
    }
    let i = r.range(1, (lines.len() - 1) as u64) as usize;
    match r.below(16) {
        0 => {
            lines.remove(i);
            "drop-line"
        }
        1 => {
            let l = lines[i].clone();
            lines.insert(i, l);
            "dup-line"
        }
        2 => {
            let j = r.range(1, (lines.len() - 1) as u64) as usize;
            lines.swap(i, j);
            "swap-lines"
        }
        3 => {
            lines[i].push('!');
            "edit-line"
        }
        4 => {
            lines.insert(i, String::new());
            "empty-line"
        }
        5 => {
            lines.insert(i, "*** End of File".into());
            "eof-marker"
        }
        6 => {
            lines.pop();
            "no-footer"
        }
        7 => {
            lines.insert(i, "*** End Patch".into());
            "early-footer"
        }
        8 => {
            lines.insert(i, format!("*** Delete File: {}", r.pick(&["../x", "/abs", "a/../b", "", "  ", ".", "d/..", "nul\0x"])));
            "bad-path"
        }
        9 => {
            lines[0] = "*** begin patch".into();
            "bad-header"
        }
        10 => {
            lines.insert(i, "?what".into());
            "bad-prefix"
        }
        11 => {
            lines.insert(i, format!("*** Update File: {}", r.pick(&PATHS[..])));
            "update-no-hunks"
        }
        12 => {
            lines.insert(i, format!("*** Delete File: {}", r.pick(&["missing.txt", "d", "emptydir", ".rip"])));
            "fail-op"
        }
        13 => {
            let long = "L".repeat(*r.pick(&[255usize, 256, 300]));
            lines.insert(i, format!("*** Add File: d/{long}"));
            lines.insert(i + 1, "+x".into());
            "long-name"
        }
        14 => {
            lines.insert(i, "*** Frobnicate: x".into());
            "unknown-header"
        }
        _ => {
            lines[i] = lines[i].replace(' ', "\t");
            "tabs"
        }
    }
}
/// Hunk contexts that partly match just in front of their true position: the file holds m+1 copies of a line `a`
/// then `b`; the hunk's context is m copies of `a` then `b`.  The line-by-line search finds it one line after the
/// first partial match; a search that skips ahead by the number of lines that did match steps over it and either
/// refuses the patch or edits a later occurrence of the same context (placed there in half of the cases).
fn gen_near_match_case(r: &mut Rng) -> Case {
    let a = r.pick(&["}", "", "x", "    }", "end"]).to_string();
    let b = r.pick(&["fn f() {", "b", "y"]).to_string();
    let m = r.range(1, 5) as usize;
    let extra = r.range(1, 3) as usize; // copies of `a` in front of the true position
    let mut lines: Vec<String> = (0..r.range(0, 3)).map(|i| format!("pre{i}")).collect();
    for _ in 0..m + extra {
        lines.push(a.clone());
    }
    lines.push(b.clone());
    for i in 0..r.range(0, 3) {
        lines.push(format!("mid{i}"));
    }
    if r.chance(1, 2) {
        for _ in 0..m {
            lines.push(a.clone());
        }
        lines.push(b.clone());
        lines.push("post".into());
    }
    let eol = if r.chance(1, 4) { "\r\n" } else { "\n" };
    let mut text = lines.join(eol);
    if r.chance(4, 5) {
        text.push_str(eol);
    }
    let mut before: Vec<String> = vec![a.clone(); m];
    before.push(b.clone());
    let mut after: Vec<String> = vec![a.clone(); m];
    after.push(format!("{b} // edited"));
    let mut init = Listing::new();
    init.insert(norm("a.txt").unwrap(), Node::File(text.into_bytes()));
    if r.chance(1, 2) {
        init.insert(norm("b.txt").unwrap(), Node::File(b"keep\n".to_vec()));
    }
    let mut doc = vec!["*** Begin Patch".to_string(), "*** Update File: a.txt".to_string(), "@@".to_string()];
    for l in &before[..m] {
        doc.push(format!(" {l}"));
    }
    doc.push(format!("-{b}"));
    doc.push(format!("+{b} // edited"));
    doc.push("*** End Patch".into());
    let op = PatchOp::UpdateFile { path: "a.txt".into(), moved_to: None, hunks: vec![rip_workspace::PatchHunk { before, after }] };
    Case { init, patch: doc.join("\n"), tag: format!("near-match-m{m}-x{extra}"), intended: Some(vec![op]), intended_paths: true }
}
fn gen_case(r: &mut Rng) -> Case {
    // a quarter of the cases: the same-path family
    if r.chance(1, 4) {
        return gen_chain_case(r);
    }
    if r.chance(1, 12) {
        return gen_near_match_case(r);
    }
    let init = gen_init(r);
    let mode = r.below(20);
    if mode == 0 {
        // malformed stream
        let vocab = ["*** Begin Patch", "*** End Patch", "*** Add File: a.txt", "*** Update File: a.txt", "*** Delete File: b.txt", "*** Move to: c.txt", "@@", "+x", "-x", " x", "", "*** End of File", "junk", "*** "];
        let n = r.range(0, 8);
        let mut ls: Vec<String> = (0..n).map(|_| r.pick(&vocab[..]).to_string()).collect();
        if r.chance(2, 3) {
            ls.insert(0, "*** Begin Patch".into());
        }
        return Case { init, patch: ls.join("\n"), tag: "malformed".into(), intended: None, intended_paths: false };
    }
    let mut sim = Sim::from_listing(&init);
    let mut lines = vec!["*** Begin Patch".to_string()];
    let mut tag = String::from("valid");
    let mut intended: Option<Vec<PatchOp>> = Some(vec![]);
    let tail_hunk = || vec![rip_workspace::PatchHunk { before: vec![], after: vec!["tail".to_string()] }];
    if mode <= 3 {
        // file replaced by a directory inside one patch (delete or move away, then add below it)
        let files: Vec<Comps> = sim.files.keys().cloned().collect();
        if !files.is_empty() {
            let f = show_comps(r.pick(&files));
            let v = intended.as_mut().unwrap();
            if r.chance(2, 3) {
                lines.push(format!("*** Delete File: {f}"));
                let op = PatchOp::DeleteFile { path: f.clone().into() };
                let _ = spec_op(&mut sim, &op);
                v.push(op);
            } else {
                lines.push(format!("*** Update File: {f}"));
                lines.push("*** Move to: moved/away.txt".into());
                lines.push("@@".into());
                lines.push("+tail".into());
                let op = PatchOp::UpdateFile { path: f.clone().into(), moved_to: Some("moved/away.txt".into()), hunks: tail_hunk() };
                let _ = spec_op(&mut sim, &op);
                v.push(op);
            }
            let sub = if r.chance(1, 2) { format!("{f}/inner.txt") } else { format!("{f}/deep/er/inner.txt") };
            lines.push(format!("*** Add File: {sub}"));
            lines.push("+inner".into());
            let op = PatchOp::AddFile { path: sub.into(), content: "inner\n".into() };
            let _ = spec_op(&mut sim, &op);
            v.push(op);
            tag = "file-to-dir".into();
        }
    }
    let n = if (4..=7).contains(&mode) { r.range(3, 7) } else { r.range(1, 4) };
    for _ in 0..n {
        let (ls, op) = gen_op(r, &mut sim);
        lines.extend(ls);
        if let Some(v) = intended.as_mut() {
            v.push(op);
        }
    }
    if (4..=7).contains(&mode) {
        // deep rollback: several operations that apply (same paths re-used), then one that cannot
        tag = "deep-rollback".into();
        let v = intended.as_mut().unwrap();
        let x_hunk = |before: Vec<String>| vec![rip_workspace::PatchHunk { before, after: vec!["x".to_string()] }];
        match r.below(5) {
            0 => {
                lines.push("*** Delete File: missing.txt".into());
                v.push(PatchOp::DeleteFile { path: "missing.txt".into() });
            }
            1 => {
                lines.push("*** Update File: missing.txt".into());
                lines.push("@@".into());
                lines.push("+x".into());
                v.push(PatchOp::UpdateFile { path: "missing.txt".into(), moved_to: None, hunks: x_hunk(vec![]) });
            }
            2 => {
                let files: Vec<Comps> = sim.files.keys().cloned().collect();
                if !files.is_empty() {
                    let f = show_comps(r.pick(&files));
                    lines.push(format!("*** Update File: {f}"));
                    lines.push("@@".into());
                    lines.push("-this line is nowhere".into());
                    lines.push("+x".into());
                    v.push(PatchOp::UpdateFile { path: f.into(), moved_to: None, hunks: x_hunk(vec!["this line is nowhere".to_string()]) });
                } else {
                    lines.push("*** Delete File: missing.txt".into());
                    v.push(PatchOp::DeleteFile { path: "missing.txt".into() });
                }
            }
            3 => {
                let files: Vec<Comps> = sim.files.keys().cloned().collect();
                if files.len() >= 2 {
                    let f = show_comps(r.pick(&files));
                    let g = show_comps(r.pick(&files));
                    lines.push(format!("*** Update File: {f}"));
                    lines.push(format!("*** Move to: {g}"));
                    lines.push("@@".into());
                    lines.push("+tail".into());
                    v.push(PatchOp::UpdateFile { path: f.into(), moved_to: Some(g.into()), hunks: tail_hunk() });
                } else {
                    lines.push("*** Add File: .rip".into());
                    lines.push("+x".into());
                    v.push(PatchOp::AddFile { path: ".rip".into(), content: "x\n".into() });
                }
            }
            _ => {
                let p = format!("d/{}", "N".repeat(256));
                lines.push(format!("*** Add File: {p}"));
                lines.push("+x".into());
                v.push(PatchOp::AddFile { path: p.into(), content: "x\n".into() });
            }
        }
    }
    lines.push("*** End Patch".into());
    if r.chance(1, 2) {
        let m = mutate(r, &mut lines);
        tag = format!("{tag}+{m}");
        if m != "none" {
            intended = None;
        }
    }
    let eol = if r.chance(1, 8) { "\r\n" } else { "\n" };
    let mut patch = lines.join(eol);
    if r.chance(1, 2) {
        patch.push_str(eol);
    }
    if r.chance(1, 20) {
        patch.push_str("trailing garbage after the footer\n");
        intended = None;
    }
    let intended = clean_intended(intended);
    Case { init, patch, tag, intended_paths: intended.is_some(), intended }
}

// ------------------------------------------------------------------ shrinking a failing case
/// a plain document stating exactly these operations
fn render_ops(ops: &[PatchOp]) -> String {
    let mut l = vec!["*** Begin Patch".to_string()];
    for op in ops {
        match op {
            PatchOp::AddFile { path, content } => {
                l.push(format!("*** Add File: {}", p2s(path)));
                for x in content.split_terminator('\n') {
                    l.push(format!("+{x}"));
                }
            }
            PatchOp::DeleteFile { path } => l.push(format!("*** Delete File: {}", p2s(path))),
            PatchOp::UpdateFile { path, moved_to, hunks } => {
                l.push(format!("*** Update File: {}", p2s(path)));
                if let Some(m) = moved_to {
                    l.push(format!("*** Move to: {}", p2s(m)));
                }
                for h in hunks {
                    l.push("@@".into());
                    for x in &h.before {
                        l.push(format!("-{x}"));
                    }
                    for x in &h.after {
                        l.push(format!("+{x}"));
                    }
                }
            }
        }
    }
    l.push("*** End Patch".into());
    l.join("\n")
}
/// delta debugging over the operations (re-rendered as a plain document), the hunks of each update and the
/// files of the workspace; a candidate counts when the oracle reports the same class on it
fn shrink_case(rt: &tokio::runtime::Runtime, c: &Case, class: &str) -> Option<(Case, String)> {
    let ops: Vec<PatchOp> = match (&c.intended, c.intended_paths) {
        (Some(v), true) => v.clone(),
        _ => Patch::parse(&c.patch).ok()?.ops().to_vec(),
    };
    let mk = |init: &Listing, ops: &[PatchOp]| Case { init: init.clone(), patch: render_ops(ops), tag: format!("{} (shrunk)", c.tag), intended: Some(ops.to_vec()), intended_paths: true };
    let fails = |cand: &Case| -> Option<String> {
        let o = std::panic::catch_unwind(std::panic::AssertUnwindSafe(|| run_impl(rt, cand))).ok()?;
        match o.viol {
            Some((what, cl)) if cl == class => Some(what),
            _ => None,
        }
    };
    fails(&mk(&c.init, &ops))?;
    let mut ops = shrink_vec(ops, |cand| !cand.is_empty() && fails(&mk(&c.init, cand)).is_some());
    // fewer hunks per update
    for i in 0..ops.len() {
        if let PatchOp::UpdateFile { path, moved_to, hunks } = ops[i].clone() {
            let hs = shrink_vec(hunks, |cand| {
                if cand.is_empty() {
                    return false;
                }
                let mut o2 = ops.clone();
                o2[i] = PatchOp::UpdateFile { path: path.clone(), moved_to: moved_to.clone(), hunks: cand.to_vec() };
                fails(&mk(&c.init, &o2)).is_some()
            });
            ops[i] = PatchOp::UpdateFile { path, moved_to, hunks: hs };
        }
    }
    let entries: Vec<(Comps, Node)> = c.init.iter().map(|(k, v)| (k.clone(), v.clone())).collect();
    let entries = shrink_vec(entries, |cand| fails(&mk(&cand.iter().cloned().collect(), &ops)).is_some());
    let small = mk(&entries.into_iter().collect(), &ops);
    let what = fails(&small)?;
    Some((small, what))
}

fn intended_json(ops: &[PatchOp]) -> serde_json::Value {
    serde_json::Value::Array(
        ops.iter()
            .map(|op| match op {
                PatchOp::AddFile { path, content } => json!({"add": content, "path": p2s(path)}),
                PatchOp::DeleteFile { path } => json!({"delete": true, "path": p2s(path)}),
                PatchOp::UpdateFile { path, moved_to, hunks } => {
                    let mut o = json!({"update": hunks.iter().map(|h| json!({"before": h.before, "after": h.after})).collect::<Vec<_>>(), "moved": moved_to.is_some(), "path": p2s(path)});
                    if let Some(m) = moved_to {
                        o["to"] = json!(p2s(m));
                    }
                    o
                }
            })
            .collect(),
    )
}
/// (operations, whether they carry the document's paths)
fn intended_from_json(v: &serde_json::Value) -> Option<(Vec<PatchOp>, bool)> {
    let strs = |x: &serde_json::Value| -> Vec<String> { x.as_array().map(|a| a.iter().map(|s| s.as_str().unwrap_or("").to_string()).collect()).unwrap_or_default() };
    let arr = v.as_array()?;
    let with_paths = arr.iter().all(|o| o.get("path").and_then(|p| p.as_str()).is_some() && (!o["moved"].as_bool().unwrap_or(false) || o.get("to").and_then(|p| p.as_str()).is_some()));
    let path = |o: &serde_json::Value| -> std::path::PathBuf { o.get("path").and_then(|p| p.as_str()).unwrap_or("x").into() };
    Some((
        arr.iter()
            .map(|o| {
                if let Some(c) = o.get("add") {
                    PatchOp::AddFile { path: path(o), content: c.as_str().unwrap_or("").to_string() }
                } else if let Some(hs) = o.get("update") {
                    PatchOp::UpdateFile {
                        path: path(o),
                        moved_to: if o["moved"].as_bool().unwrap_or(false) { Some(o.get("to").and_then(|p| p.as_str()).unwrap_or("y").into()) } else { None },
                        hunks: hs.as_array().map(|a| a.iter().map(|h| rip_workspace::PatchHunk { before: strs(&h["before"]), after: strs(&h["after"]) }).collect()).unwrap_or_default(),
                    }
                } else {
                    PatchOp::DeleteFile { path: path(o) }
                }
            })
            .collect(),
        with_paths,
    ))
}
/// same kind and same payload (add content / move flag / hunks), paths not compared (spelling variants)
fn same_payload(a: &PatchOp, b: &PatchOp) -> bool {
    match (a, b) {
        (PatchOp::AddFile { content: c1, .. }, PatchOp::AddFile { content: c2, .. }) => c1 == c2,
        (PatchOp::DeleteFile { .. }, PatchOp::DeleteFile { .. }) => true,
        (PatchOp::UpdateFile { moved_to: m1, hunks: h1, .. }, PatchOp::UpdateFile { moved_to: m2, hunks: h2, .. }) => m1.is_some() == m2.is_some() && h1 == h2,
        _ => false,
    }
}
/// the paths, byte for byte as the document spells them (after trimming)
fn same_paths(a: &PatchOp, b: &PatchOp) -> bool {
    match (a, b) {
        (PatchOp::AddFile { path: p, .. }, PatchOp::AddFile { path: q, .. }) | (PatchOp::DeleteFile { path: p }, PatchOp::DeleteFile { path: q }) => p.as_os_str() == q.as_os_str(),
        (PatchOp::UpdateFile { path: p, moved_to: m, .. }, PatchOp::UpdateFile { path: q, moved_to: n, .. }) => p.as_os_str() == q.as_os_str() && m.as_ref().map(|x| x.as_os_str()) == n.as_ref().map(|x| x.as_os_str()),
        _ => false,
    }
}
fn payload_only(mut v: serde_json::Value) -> serde_json::Value {
    if let Some(a) = v.as_array_mut() {
        for o in a {
            if let Some(m) = o.as_object_mut() {
                m.remove("path");
                m.remove("to");
            }
        }
    }
    v
}
fn case_json(c: &Case) -> serde_json::Value {
    match &c.intended {
        Some(ops) if c.intended_paths => json!({"init": listing_json(&c.init), "patch": c.patch, "tag": c.tag, "intended": intended_json(ops)}),
        Some(ops) => json!({"init": listing_json(&c.init), "patch": c.patch, "tag": c.tag, "intended": payload_only(intended_json(ops))}),
        None => json!({"init": listing_json(&c.init), "patch": c.patch, "tag": c.tag}),
    }
}
fn case_from_json(v: &serde_json::Value) -> Case {
    let intended = v.get("intended").and_then(intended_from_json);
    Case {
        init: listing_from_json(&v["init"]),
        patch: v["patch"].as_str().unwrap_or("").to_string(),
        tag: v["tag"].as_str().unwrap_or("corpus").to_string(),
        intended_paths: intended.as_ref().map(|x| x.1).unwrap_or(false),
        intended: intended.map(|x| x.0),
    }
}
fn corpus(dir: &std::path::Path) -> Vec<Case> {
    let mut v = vec![];
    let mut names: Vec<_> = std::fs::read_dir(dir).map(|rd| rd.flatten().map(|e| e.path()).collect()).unwrap_or_default();
    names.sort();
    for p in names {
        if p.extension().map(|e| e == "json").unwrap_or(false) {
            if let Ok(t) = std::fs::read_to_string(&p) {
                if let Ok(j) = serde_json::from_str::<serde_json::Value>(&t) {
                    let c = j.get("case").cloned().unwrap_or(j);
                    v.push(case_from_json(&c));
                }
            }
        }
    }
    v
}
fn coq_path(p: &std::path::Path) -> String {
    use std::os::unix::ffi::OsStrExt;
    ws_common::coq_bytes(p.as_os_str().as_bytes())
}
fn coq_lines(ls: &[String]) -> String {
    coq_list(ls, |l| ws_common::coq_bytes(l.as_bytes()))
}
/// what Patch::parse returned, as a term of `option (list op)`
fn coq_ops(patch: &str) -> String {
    match Patch::parse(patch) {
        Err(_) => "None".into(),
        Ok(p) => {
            let ops: Vec<String> = p
                .ops()
                .iter()
                .map(|op| match op {
                    PatchOp::AddFile { path, content } => format!("Add {} {}", coq_path(path), ws_common::coq_bytes(content.as_bytes())),
                    PatchOp::DeleteFile { path } => format!("Del {}", coq_path(path)),
                    PatchOp::UpdateFile { path, moved_to, hunks } => format!(
                        "Upd {} {} [{}]",
                        coq_path(path),
                        match moved_to {
                            Some(m) => format!("(Some {})", coq_path(m)),
                            None => "None".into(),
                        },
                        hunks.iter().map(|h| format!("{{| h_before := {}; h_after := {} |}}", coq_lines(&h.before), coq_lines(&h.after))).collect::<Vec<_>>().join("; ")
                    ),
                })
                .collect();
            format!("(Some [{}])", ops.join("; "))
        }
    }
}
fn coq_case(c: &Case, o: &Obs, fixed: bool) -> String {
    format!(
        "{{| c_fixed := {}; c_fs := {}; c_patch := {}; c_ops := {}; c_code := {}; c_changed := {}; c_after := {} |}}",
        coq_bool(fixed),
        coq_fs(&o.before),
        ws_common::coq_bytes(c.patch.as_bytes()),
        coq_ops(&c.patch),
        o.code,
        coq_list(&o.changed, |s| ws_common::coq_bytes(s.as_bytes())),
        coq_fs(&o.after)
    )
}

fn main() {
    let a = parse_args();
    let fixed = a.extra.get("fixed").map(|v| v != "0").unwrap_or(true);
    let verif_root = a.extra.get("verif").cloned().unwrap_or_else(|| env!("CARGO_MANIFEST_DIR").to_string() + "/..");
    let mut res = RunResult::new("C12", &a);
    res.rule = "cases = (workspace tree, patch text). Three quarters: patches derived from the simulated workspace so that hunks apply (add/update/move/delete, 1-5 ops, same path re-used, file replaced by a directory), a deep-rollback family (3-7 applying operations followed by one that cannot), then one text-level mutation in half of them (16 kinds), path spellings (./, //, /./, trailing / and /., unicode blanks, NUL), CRLF/LF/mixed/no-final-newline/empty/non-UTF-8 files, lines ending in blanks / tabs / unicode blanks and lines differing only in trailing blanks, plus a malformed stream. One quarter: the same-path family - 3 to 8 sections of one patch on three paths P,Q,R (14 templates: update+move away then re-add then update; move away and another file moved in; P->Q->P; P->Q->R->P; delete/re-add/update; update on both names of a moved file; move away twice; ... and a state-aware random walk), every section written for the simulated workspace at that point, one update in five written for a text the path held EARLIER in the patch (must be refused unless the context is there too), re-added content half of the time a variation of an earlier text, harmless spellings of the same path, one in five with a failing last section (rollback of the whole chain). The generator records the operations it wrote (document paths included); the oracle interprets those. non-trivial = at least one op parsed and the workspace non-empty".into();
    let n = if a.thorough() { 12000 } else { 900 };
    let rt = tokio::runtime::Builder::new_current_thread().enable_all().build().unwrap();
    let mut r = Rng::new(a.seed);
    let mut w = CaseWriter::new(&a.out, "Model.Patch", "check_case", "model_obs", 60);
    let mut distinct = Distinct::default();
    let mut all: Vec<Case> = if let Some(rp) = &a.replay {
        let j: serde_json::Value = serde_json::from_str(&std::fs::read_to_string(rp).unwrap()).unwrap();
        vec![case_from_json(j.get("case").unwrap_or(&j))]
    } else {
        corpus(&std::path::Path::new(&verif_root).join("corpus/C12"))
    };
    if a.replay.is_none() {
        for _ in 0..n {
            all.push(gen_case(&mut r));
        }
    }
    let mut shrunk_classes: BTreeSet<String> = BTreeSet::new();
    for (i, c) in all.iter().enumerate() {
        let got = std::panic::catch_unwind(std::panic::AssertUnwindSafe(|| run_impl(&rt, c)));
        res.evaluations += 1;
        res.oracle_checks += 1;
        res.bump(&format!("tag={}", c.tag.split('+').next().unwrap_or("")));
        if let Some(m) = c.tag.split('+').nth(1) {
            res.bump(&format!("mutation={m}"));
        }
        match got {
            Err(_) => {
                res.impl_panics += 1;
                res.oracle_violations.push(OracleViolation { case_id: i as i64, what: "apply_patch panicked".into(), class: "panic".into(), replay: case_json(c) });
            }
            Ok(o) => {
                res.bump(&format!("outcome={}", match o.code { 0 => "ok", 2 => "err-notfound", 3 => "err-exists", 4 => "err-invalid-data", _ => "err-os" }));
                res.bump(&format!("family_outcome={}:{}", c.tag.split('+').next().unwrap_or(""), if c.tag.contains('+') && !c.tag.ends_with("+none") { "mutated" } else if o.code == 0 { "ok" } else { "refused" }));
                if let Some((what, class)) = &o.viol {
                    // the first case of every class is reported shrunk (operations, hunks, workspace files)
                    let shrunk = if shrunk_classes.insert(class.clone()) && shrunk_classes.len() <= 6 { shrink_case(&rt, c, class) } else { None };
                    match shrunk {
                        Some((small, w)) => res.oracle_violations.push(OracleViolation { case_id: i as i64, what: w, class: class.clone(), replay: case_json(&small) }),
                        None => res.oracle_violations.push(OracleViolation { case_id: i as i64, what: what.clone(), class: class.clone(), replay: case_json(c) }),
                    }
                }
                if !a.oracle_only() {
                    let id = w.push(coq_case(c, &o, fixed));
                    if res.case_index.len() < 3000 {
                        res.case_index.insert(id.to_string(), case_json(c));
                    }
                }
                if let Ok(pp) = Patch::parse(&c.patch) {
                    res.bump(&format!("ops={}", pp.ops().len().min(8)));
                    if o.code != 0 {
                        // how much had been mutated before the failure is what the rollback must undo
                        let mut sim = Sim::from_listing(&o.before);
                        let done = pp.ops().iter().take_while(|op| spec_op(&mut sim, op).is_ok()).count();
                        res.bump(&format!("ops_applied_before_failure={}", done.min(6)));
                        if done >= 1 {
                            res.bump(&format!("rollback_of_applied_ops_error_kind={}", match o.code { 2 => "notfound", 3 => "exists", 4 => "invalid-data", 5 => "invalid-input", 6 => "is-a-directory", 7 => "not-a-directory", 8 => "invalid-filename", _ => "other" }));
                        }
                    }
                }
                let nontrivial = !o.before.is_empty() && Patch::parse(&c.patch).map(|p| !p.ops().is_empty()).unwrap_or(false);
                if nontrivial {
                    distinct.add(&format!("{:?}", c));
                    if res.samples.len() < 3 && i % 7 == 3 {
                        res.samples.push(case_json(c));
                    }
                }
            }
        }
    }
    w.flush();
    res.distinct_nontrivial = distinct.count();
    res.case_files = w.files.iter().map(|p| p.display().to_string()).collect();
    res.write(&a.out);
    println!("c12: {} cases, {} distinct non-trivial, {} oracle violations, {} panics", res.evaluations, res.distinct_nontrivial, res.oracle_violations.len(), res.impl_panics);
}
