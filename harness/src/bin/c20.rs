//! C20 — rip-tui FrameStore / TuiState vs coq/Model/Tui.v, plus the independent oracle
//! (no panic, bounds, lookup soundness, determinism).
use rip_kernel::{Event, EventKind, ProviderEventStatus, ToolTaskExecutionMode, ToolTaskStatus, ToolTaskStream};
use rip_tui::{ToolStatus, TuiState};
use rv::*;
use serde_json::json;

#[derive(Clone, Debug)]
enum K {
    SessionStarted(String),
    OutputDelta(String),
    SessionEnded,
    ToolStarted(u64),
    ToolStdout(u64, String),
    ToolStderr(u64, String),
    ToolEnded(u64),
    ToolFailed(u64),
    TaskSpawned(u64),
    TaskStatus(u64, u64),
    TaskDelta(u64, u64, String),
    CheckpointFailed,
    /// (invalid_json, which error list, which response-error list) — see `err_list`
    ProviderEvent(bool, u64, u64),
    Other(u64),
}
#[derive(Clone, Debug)]
struct Ev {
    seq: u64,
    ts: u64,
    k: K,
    ident: u64,
}
#[derive(Clone, Debug)]
struct Case {
    max_frames: u64,
    max_out: u64,
    af: bool,
    evs: Vec<Ev>,
    probes: Vec<u64>,
}

fn tid(i: u64) -> String {
    format!("t{i:04}")
}
fn task_status(s: u64) -> ToolTaskStatus {
    match s {
        0 => ToolTaskStatus::Queued,
        1 => ToolTaskStatus::Running,
        2 => ToolTaskStatus::Exited,
        3 => ToolTaskStatus::Cancelled,
        _ => ToolTaskStatus::Failed,
    }
}
fn to_event(e: &Ev) -> Event {
    let kind = match &e.k {
        K::SessionStarted(s) => EventKind::SessionStarted { input: s.clone() },
        K::OutputDelta(s) => EventKind::OutputTextDelta { delta: s.clone() },
        K::SessionEnded => EventKind::SessionEnded { reason: "done".into() },
        K::ToolStarted(i) => EventKind::ToolStarted { tool_id: tid(*i), name: "bash".into(), args: json!({}), timeout_ms: None },
        K::ToolStdout(i, c) => EventKind::ToolStdout { tool_id: tid(*i), chunk: c.clone() },
        K::ToolStderr(i, c) => EventKind::ToolStderr { tool_id: tid(*i), chunk: c.clone() },
        K::ToolEnded(i) => EventKind::ToolEnded { tool_id: tid(*i), exit_code: 0, duration_ms: 1, artifacts: None },
        K::ToolFailed(i) => EventKind::ToolFailed { tool_id: tid(*i), error: "boom".into() },
        K::TaskSpawned(i) => EventKind::ToolTaskSpawned {
            task_id: tid(*i),
            tool_name: "bash".into(),
            args: json!({}),
            cwd: None,
            title: None,
            execution_mode: ToolTaskExecutionMode::Pipes,
            origin_session_id: None,
            artifacts: None,
        },
        K::TaskStatus(i, s) => EventKind::ToolTaskStatus {
            task_id: tid(*i),
            status: task_status(*s),
            exit_code: None,
            started_at_ms: None,
            ended_at_ms: None,
            artifacts: None,
            error: None,
        },
        K::TaskDelta(i, st, c) => EventKind::ToolTaskOutputDelta {
            task_id: tid(*i),
            stream: match st {
                0 => ToolTaskStream::Stdout,
                1 => ToolTaskStream::Stderr,
                _ => ToolTaskStream::Pty,
            },
            chunk: c.clone(),
            artifacts: None,
        },
        K::CheckpointFailed => EventKind::CheckpointFailed { action: rip_kernel::CheckpointAction::Create, error: "e".into() },
        K::ProviderEvent(a, b, c) => EventKind::ProviderEvent {
            provider: "openresponses".into(),
            status: if *a { ProviderEventStatus::InvalidJson } else { ProviderEventStatus::Event },
            event_name: None,
            data: None,
            raw: None,
            errors: err_list(*b, "x"),
            response_errors: err_list(*c, "y"),
        },
        K::Other(v) => other_kind(*v),
    };
    Event { id: format!("{}", e.ident), session_id: format!("s{}", e.ident % 3), timestamp_ms: e.ts, seq: e.seq, kind }
}

fn other_kind(v: u64) -> EventKind {
    let t = |n: u64| -> String { ["", "a", "héllo wörld €", "😀😀😀😀😀😀😀😀😀😀😀😀😀😀😀😀😀😀😀😀😀😀😀😀😀😀😀😀😀😀😀😀😀😀😀😀😀😀😀😀😀😀", "line1\nline2\ttab", "\u{0}\u{1b}[31m"][(n % 6) as usize].to_string() };
    match v % 26 {
        0 => EventKind::ToolTaskCancelRequested { task_id: tid(1), reason: t(v / 26) },
        1 => EventKind::CheckpointRewound { checkpoint_id: t(v / 26), label: t(v / 26 + 1), files: vec![t(2), t(3)] },
        2 => EventKind::ContinuityMessageAppended { actor_id: "a".into(), origin: "o".into(), content: t(v / 26) },
        3 => EventKind::OpenResponsesResponseFirstByte { request_index: u64::MAX },
        4 => EventKind::ContinuityCreated { workspace: t(v / 26), title: Some(t(v / 26 + 2)) },
        5 => EventKind::ContinuityRunSpawned { run_session_id: t(3), message_id: t(2), actor_id: None, origin: Some(t(1)) },
        6 => EventKind::ContinuityContextSelectionDecided { run_session_id: t(1), message_id: t(2), compiler_id: t(3), compiler_strategy: t(v / 26), limits: json!({"a": [1, 2, {"b": null}]}), compaction_checkpoint: None, compaction_checkpoints: vec![], resets: vec![], reason: Some(json!("x")), actor_id: t(1), origin: t(1) },
        7 => EventKind::ContinuityContextCompiled { run_session_id: t(1), bundle_artifact_id: "a".repeat(64), compiler_id: t(2), compiler_strategy: t(3), from_seq: u64::MAX, from_message_id: None, actor_id: t(1), origin: t(1) },
        8 => EventKind::ContinuityProviderCursorUpdated { provider: t(2), endpoint: None, model: Some(t(3)), cursor: Some(json!({"k": t(3)})), action: t(1), reason: None, run_session_id: None, actor_id: t(1), origin: t(1) },
        9 => EventKind::ContinuityCompactionCheckpointCreated { checkpoint_id: t(1), cut_rule_id: t(2), summary_kind: t(3), summary_artifact_id: "b".repeat(64), from_seq: 0, from_message_id: None, to_seq: u64::MAX, to_message_id: Some(t(3)), actor_id: t(1), origin: t(1) },
        10 => EventKind::ContinuityCompactionAutoScheduleDecided { decision_id: t(1), policy_id: t(2), decision: t(3), execute: true, stride_messages: 0, max_new_checkpoints: u32::MAX, block_on_inflight: false, message_count: u64::MAX, cut_rule_id: t(1), planned: vec![rip_kernel::CompactionPlannedCutPoint { target_message_ordinal: 1, to_seq: 2, to_message_id: t(3) }], job_id: None, job_kind: None, reason: None, actor_id: t(1), origin: t(1) },
        11 => EventKind::ContinuityJobSpawned { job_id: tid(v / 26 % 3), job_kind: t(2), details: None, actor_id: t(1), origin: t(1) },
        12 => EventKind::ContinuityJobEnded { job_id: tid(v / 26 % 3), job_kind: t(2), status: t(3), result: None, error: Some(t(3)), actor_id: t(1), origin: t(1) },
        13 => EventKind::ContinuityRunEnded { run_session_id: t(1), message_id: t(2), reason: t(3), actor_id: None, origin: None },
        14 => EventKind::ContinuityToolSideEffects { run_session_id: t(1), tool_id: t(2), tool_name: t(3), affected_paths: Some(vec![t(3), t(2)]), checkpoint_id: None, actor_id: t(1), origin: t(1) },
        15 => EventKind::ContinuityBranched { parent_thread_id: t(3), parent_seq: u64::MAX, parent_message_id: None, actor_id: t(1), origin: t(1) },
        16 => EventKind::ContinuityHandoffCreated { from_thread_id: t(3), from_seq: 0, from_message_id: None, summary_artifact_id: None, summary_markdown: Some(t(3)), actor_id: t(1), origin: t(1) },
        17 => EventKind::OpenResponsesRequest { endpoint: t(3), model: None, request_index: 0, kind: t(1), body_artifact_id: "c".repeat(64), body_bytes: u64::MAX, total_bytes: 0, truncated: true },
        18 => EventKind::OpenResponsesRequestStarted { endpoint: t(3), model: Some(t(2)), request_index: 1, kind: t(1) },
        19 => EventKind::OpenResponsesResponseHeaders { request_index: 0, status: 599, request_id: Some(t(3)), content_type: None },
        20 => EventKind::CheckpointCreated { checkpoint_id: t(1), label: t(3), created_at_ms: u64::MAX, files: vec![t(3)], auto: true, tool_name: Some(t(2)) },
        21 => EventKind::ToolTaskCancelled { task_id: tid(2), reason: t(3), wall_time_ms: Some(u64::MAX) },
        22 => EventKind::ToolTaskStdinWritten { task_id: tid(0), chunk_b64: t(3) },
        23 => EventKind::ToolTaskResized { task_id: tid(0), rows: u16::MAX, cols: 0 },
        24 => EventKind::ToolTaskSignalled { task_id: tid(0), signal: t(3) },
        _ => EventKind::ToolEnded { tool_id: tid(7), exit_code: i32::MIN, duration_ms: u64::MAX, artifacts: Some(json!({"stdout": {"artifact_id": "d".repeat(64)}, "x": ["e".repeat(64), 3, null]})) },
    }
}

fn coq_k(k: &K) -> String {
    match k {
        K::SessionStarted(s) => format!("KSessionStarted {}", coq_str(s)),
        K::OutputDelta(s) => format!("KOutputDelta {}", coq_str(s)),
        K::SessionEnded => "KSessionEnded".into(),
        K::ToolStarted(i) => format!("KToolStarted {i}"),
        K::ToolStdout(i, c) => format!("KToolStdout {i} {}", coq_str(c)),
        K::ToolStderr(i, c) => format!("KToolStderr {i} {}", coq_str(c)),
        K::ToolEnded(i) => format!("KToolEnded {i}"),
        K::ToolFailed(i) => format!("KToolFailed {i}"),
        K::TaskSpawned(i) => format!("KTaskSpawned {i}"),
        K::TaskStatus(i, s) => format!("KTaskStatus {i} {s}"),
        K::TaskDelta(i, st, c) => format!("KTaskDelta {i} {st} {}", coq_str(c)),
        K::CheckpointFailed => "KCheckpointFailed".into(),
        K::ProviderEvent(a, b, c) => format!("KProviderEvent {} {} {}", coq_bool(*a), coq_bool(*b > 0), coq_bool(*c > 0)),
        K::Other(_) => "KOther".into(),
    }
}
fn coq_case(c: &Case, expect: &[u64]) -> String {
    let evs = coq_list(&c.evs, |e| format!("{{| eseq := {}; ets := {}; ekd := {}; eident := {} |}}", e.seq, e.ts, coq_k(&e.k), e.ident));
    format!(
        "{{| c_max_frames := {}; c_max_out := {}; c_af := {}; c_evs := {}; c_probes := {}; c_expect := {} |}}",
        coq_nat(c.max_frames),
        c.max_out,
        coq_bool(c.af),
        evs,
        coq_list_n(&c.probes),
        coq_list_n(expect)
    )
}

fn ident_of(e: &Event) -> u64 {
    e.id.parse().unwrap()
}

struct Obs {
    enc: Vec<u64>,
    oracle_fail: Option<(String, String)>, // (what, class)
}

fn run_impl(c: &Case) -> Obs {
    let mut st = TuiState::new(c.max_frames as usize, c.max_out as usize);
    st.auto_follow = c.af;
    for e in &c.evs {
        st.update(to_event(e));
    }
    let mut out = vec![];
    let mut fail: Option<(String, String)> = None;
    let fs = &st.frames;
    out.push(fs.len() as u64);
    enc_opt(&mut out, fs.first_seq());
    enc_opt(&mut out, fs.last_seq());
    let ids: Vec<u64> = fs.iter().map(ident_of).collect();
    enc_list(&mut out, &ids);
    enc_opt(&mut out, st.selected_seq);
    enc_opt(&mut out, st.selected_event().map(ident_of));
    enc_str(&mut out, &st.output_text);
    enc_bool(&mut out, st.output_truncated);
    out.push(st.tools.len() as u64);
    for (id, t) in &st.tools {
        out.push(id[1..].parse().unwrap());
        out.push(match t.status {
            ToolStatus::Running => 0,
            ToolStatus::Ended { .. } => 1,
            ToolStatus::Failed { .. } => 2,
        });
        enc_str(&mut out, &t.stdout_preview);
        enc_str(&mut out, &t.stderr_preview);
        if t.stdout_preview.len() > 8192 || t.stderr_preview.len() > 8192 {
            fail = Some((format!("tool preview exceeds 8192 bytes for {id}"), "preview_unbounded".into()));
        }
    }
    out.push(st.tasks.len() as u64);
    for (id, t) in &st.tasks {
        out.push(id[1..].parse().unwrap());
        out.push(match t.status {
            ToolTaskStatus::Queued => 0,
            ToolTaskStatus::Running => 1,
            ToolTaskStatus::Exited => 2,
            ToolTaskStatus::Cancelled => 3,
            ToolTaskStatus::Failed => 4,
        });
        enc_str(&mut out, &t.stdout_preview);
        enc_str(&mut out, &t.stderr_preview);
        enc_str(&mut out, &t.pty_preview);
        if t.stdout_preview.len() > 8192 || t.stderr_preview.len() > 8192 || t.pty_preview.len() > 8192 {
            fail = Some((format!("task preview exceeds 8192 bytes for {id}"), "preview_unbounded".into()));
        }
    }
    enc_opt(&mut out, st.start_ms);
    enc_opt(&mut out, st.first_output_ms);
    enc_opt(&mut out, st.end_ms);
    enc_opt(&mut out, st.last_error_seq);
    enc_opt(&mut out, st.last_event_ms);
    for q in &c.probes {
        let g = fs.get_by_seq(*q);
        enc_opt(&mut out, g.map(ident_of));
        enc_opt(&mut out, fs.index_of_seq(*q).map(|i| i as u64));
        if let Some(e) = g {
            if e.seq != *q {
                fail = Some((format!("get_by_seq({q}) returned the frame with seq {}", e.seq), "lookup_returns_other_frame".into()));
            }
        }
    }
    // independent oracle: bounds
    if fs.len() > (c.max_frames as usize).max(1) {
        fail = Some((format!("{} frames held with max_frames {}", fs.len(), c.max_frames), "frames_unbounded".into()));
    }
    if st.output_text.len() > (c.max_out as usize).max(1) {
        fail = Some((format!("output_text holds {} bytes with max_output_bytes {}", st.output_text.len(), c.max_out), "output_unbounded".into()));
    }
    if let (Some(sel), Some(e)) = (st.selected_seq, st.selected_event()) {
        if e.seq != sel {
            fail = Some((format!("selected_event() shows seq {} while selected_seq is {sel}", e.seq), "lookup_returns_other_frame".into()));
        }
    }
    Obs { enc: out, oracle_fail: fail }
}

/// Totality + determinism of the renderers (layout is not modelled): every overlay, both views,
/// both modes, degenerate terminal sizes.  Returns a digest of everything rendered.
fn render_all(c: &Case) -> String {
    use ratatui::{backend::TestBackend, Terminal};
    use rip_tui::{render, Overlay, RenderMode};
    let mut st = TuiState::new(c.max_frames as usize, c.max_out as usize);
    st.auto_follow = c.af;
    for e in &c.evs {
        st.update(to_event(e));
    }
    st.set_now_ms(u64::MAX);
    let overlays = vec![
        Overlay::None,
        Overlay::Activity,
        Overlay::ToolDetail { tool_id: tid(0) },
        Overlay::ToolDetail { tool_id: "nope".into() },
        Overlay::TaskList,
        Overlay::TaskDetail { task_id: tid(1) },
        Overlay::TaskDetail { task_id: "nope".into() },
        Overlay::ErrorDetail { seq: st.last_error_seq.unwrap_or(3) },
        Overlay::ErrorDetail { seq: u64::MAX },
        Overlay::StallDetail,
    ];
    let mut digest = Distinct::default();
    let mut acc = String::new();
    for (w, h) in [(20u16, 8u16), (60, 20), (120, 40), (200, 60)] {
        for ov in &overlays {
            for raw in [false, true] {
                for mode in [RenderMode::Json, RenderMode::Decoded] {
                    st.overlay = ov.clone();
                    if (st.output_view == rip_tui::OutputViewMode::Raw) != raw {
                        st.toggle_output_view();
                    }
                    let mut terminal = Terminal::new(TestBackend::new(w, h)).expect("terminal");
                    terminal.draw(|f| render(f, &st, mode, "input €")).expect("draw");
                    let buf = terminal.backend().buffer().clone();
                    let mut s = String::new();
                    for cell in buf.content() {
                        s.push_str(cell.symbol());
                    }
                    digest.add(&s);
                    acc.push_str(&format!("{}:", s.len()));
                }
            }
        }
    }
    st.open_selected_detail();
    format!("{acc}{}", digest.count())
}

/// The error lists a provider frame carries: several DISTINCT messages per frame and across frames (a renderer that
/// collects them in an unordered container shows them in a different order from run to run).
fn err_list(which: u64, tag: &str) -> Vec<String> {
    match which {
        0 => vec![],
        1 => vec![tag.to_string()],
        2 => vec![format!("{tag}: missing field `type`"), format!("{tag}: invalid value"), tag.to_string()],
        3 => vec![format!("{tag}-3a"), format!("{tag}-3b"), format!("{tag}-3c"), format!("{tag}-3d"), format!("{tag} é")],
        _ => (0..8).map(|i| format!("{tag}{i}")).collect(),
    }
}

// ---------------------------------------------------------------- headless renderers (rip-cli)
fn rip_bin() -> std::path::PathBuf {
    let exe = std::env::current_exe().unwrap();
    exe.parent().unwrap().parent().unwrap().parent().unwrap().join("target-cli/debug/rip")
}
fn coq_hk(k: &K) -> String {
    match k {
        K::OutputDelta(s) => format!("HDelta {}", coq_str(s)),
        K::ToolStdout(_, c) => format!("HToolStdout {}", coq_str(c)),
        K::ToolStderr(_, c) => format!("HToolStderr {}", coq_str(c)),
        K::ToolFailed(_) => format!("HToolFailed {}", coq_str("boom")),
        K::ProviderEvent(a, b, c) => format!(
            "HProvider {} {} {} {}",
            coq_bool(*a),
            format!("[{}]", err_list(*b, "x").iter().map(|e| coq_str(e)).collect::<Vec<_>>().join("; ")),
            format!("[{}]", err_list(*c, "y").iter().map(|e| coq_str(e)).collect::<Vec<_>>().join("; ")),
            "None"
        ),
        K::SessionEnded => "HEnded".into(),
        _ => "HOther".into(),
    }
}
/// Runs the real `rip` binary's three headless renderers over the frames; returns per view (stopped_at, bytes).
fn run_headless(c: &Case) -> Result<Vec<(String, Vec<u8>)>, String> {
    use std::io::Write;
    use std::process::{Command, Stdio};
    let mut child = Command::new(rip_bin())
        .env("RIP_VERIF_RENDER", "1")
        .stdin(Stdio::piped())
        .stdout(Stdio::piped())
        .stderr(Stdio::piped())
        .spawn()
        .map_err(|e| format!("spawn rip: {e}"))?;
    {
        let mut stdin = child.stdin.take().unwrap();
        for e in &c.evs {
            let line = serde_json::to_string(&to_event(e)).unwrap();
            stdin.write_all(line.as_bytes()).unwrap();
            stdin.write_all(b"\n").unwrap();
        }
    }
    let out = child.wait_with_output().map_err(|e| format!("wait: {e}"))?;
    if !out.status.success() {
        return Err(format!("rip exited with {:?}: {}", out.status.code(), String::from_utf8_lossy(&out.stderr).chars().take(400).collect::<String>()));
    }
    // parse "=== view <V> stopped_at <..> bytes <n>\n<n bytes>\n"
    let b = out.stdout;
    let mut pos = 0;
    let mut views = vec![];
    while pos < b.len() {
        let nl = b[pos..].iter().position(|x| *x == b'\n').ok_or("no header newline")? + pos;
        let head = String::from_utf8_lossy(&b[pos..nl]).to_string();
        if !head.starts_with("=== view ") {
            return Err(format!("bad header {head:?}"));
        }
        let n: usize = head.rsplit(' ').next().unwrap().parse().map_err(|_| "bad length")?;
        let body = b[nl + 1..nl + 1 + n].to_vec();
        views.push((head, body));
        pos = nl + 1 + n + 1;
    }
    Ok(views)
}

fn gen_text(r: &mut Rng, big: bool) -> String {
    const ALPH: [&str; 12] = ["a", "b", " ", "\n", "é", "€", "😀", "\u{a0}", "\u{2003}", "\u{200b}", "x", "\u{10ffff}"];
    let n = if big { r.range(2000, 9000) } else { *r.pick(&[0, 0, 1, 1, 2, 3, 5, 9, 17]) };
    let mut s = String::new();
    if big {
        let unit = *r.pick(&["a", "é", "€", "😀"]);
        let odd = r.chance(1, 2);
        if odd {
            s.push('z');
        }
        while (s.len() as u64) < n {
            s.push_str(unit);
        }
        return s;
    }
    for _ in 0..n {
        s.push_str(*r.pick(&ALPH[..]));
    }
    s
}
fn gen_ws(r: &mut Rng) -> String {
    const WS: [&str; 7] = [" ", "\t", "\n", "\u{a0}", "\u{2003}", "\u{3000}", "\u{85}"];
    let n = r.range(0, 4);
    (0..n).map(|_| *r.pick(&WS[..])).collect()
}

fn gen_case(r: &mut Rng, long: bool) -> Case {
    let max_frames = *r.pick(&[0u64, 1, 2, 3, 3, 5, 8, 40]);
    let max_out = *r.pick(&[0u64, 1, 2, 3, 5, 7, 16, 33, 64, 1000]);
    let af = r.chance(3, 4);
    let n = if long { r.range(20, 60) } else { r.range(0, 14) };
    let mode = r.below(5); // 0 consecutive, 1 gaps, 2 repeats/arbitrary, 3 huge, 4 decreasing
    let mut seq: u64 = *r.pick(&[0u64, 0, 1, 7, 1000, u64::MAX - 3]);
    let mut evs = vec![];
    let big_budget = if r.chance(1, 6) { 3 } else { 0 };
    let mut bigs = 0;
    for i in 0..n {
        let s = match mode {
            0 => seq,
            1 => {
                if r.chance(1, 3) {
                    seq = seq.saturating_add(r.range(1, 5));
                }
                seq
            }
            2 => r.below(6),
            3 => *r.pick(&[0, 1, u64::MAX, u64::MAX - 1, 1 << 63, 5]),
            _ => seq,
        };
        let big = bigs < big_budget && r.chance(1, 3);
        if big {
            bigs += 1;
        }
        let id = r.below(3);
        let k = match r.below(16) {
            0 => K::SessionStarted(if r.chance(1, 3) { gen_ws(r) } else { gen_text(r, false) }),
            1 | 2 | 3 => K::OutputDelta(gen_text(r, false)),
            4 => K::SessionEnded,
            5 => K::ToolStarted(id),
            6 => K::ToolStdout(id, gen_text(r, big)),
            7 => K::ToolStderr(id, gen_text(r, big)),
            8 => K::ToolEnded(id),
            9 => K::ToolFailed(id),
            10 => K::TaskSpawned(id),
            11 => K::TaskStatus(id, r.below(5)),
            12 => K::TaskDelta(id, r.below(3), gen_text(r, big)),
            13 => K::CheckpointFailed,
            14 => K::ProviderEvent(r.chance(1, 4), if r.chance(1, 3) { r.range(1, 4) } else { 0 }, if r.chance(1, 3) { r.range(1, 4) } else { 0 }),
            _ => K::Other(r.below(26 * 6)),
        };
        evs.push(Ev { seq: s, ts: 1000 + i * 3 + r.below(3), k, ident: i });
        seq = if mode == 4 { seq.saturating_sub(1) } else { seq.saturating_add(1) };
    }
    let mut probes: Vec<u64> = vec![0, 1, 2, 3, 4, 5, 6, u64::MAX];
    for e in &evs {
        probes.push(e.seq);
        probes.push(e.seq.wrapping_add(1));
    }
    probes.sort();
    probes.dedup();
    if probes.len() > 24 {
        let keep: Vec<u64> = (0..24).map(|_| *r.pick(&probes)).collect();
        probes = keep;
    }
    Case { max_frames, max_out, af, evs, probes }
}

fn nontrivial(c: &Case) -> bool {
    // non-trivial: some eviction, truncation or non-consecutive seq is exercised
    let evict = c.evs.len() as u64 > c.max_frames.max(1);
    let noncons = c.evs.windows(2).any(|w| w[1].seq != w[0].seq.wrapping_add(1));
    let text: u64 = c.evs.iter().map(|e| match &e.k { K::OutputDelta(s) | K::SessionStarted(s) => s.len() as u64, _ => 0 }).sum();
    evict || noncons || text > c.max_out
}

fn case_json(c: &Case) -> serde_json::Value {
    json!({"max_frames": c.max_frames, "max_out": c.max_out, "auto_follow": c.af,
           "events": c.evs.iter().map(|e| json!({"seq": e.seq, "ts": e.ts, "ident": e.ident, "kind": format!("{:?}", e.k).chars().take(120).collect::<String>()})).collect::<Vec<_>>(),
           "probes": c.probes})
}

fn corpus() -> Vec<Case> {
    // S14 witness and neighbours: always run first
    let e = |seq, ident| Ev { seq, ts: 1, k: K::Other(0), ident };
    vec![
        Case { max_frames: 10, max_out: 100, af: true, evs: vec![e(0, 0), e(5, 1)], probes: vec![0, 1, 4, 5, 6] },
        Case { max_frames: 2, max_out: 100, af: false, evs: vec![e(3, 0), e(3, 1), e(3, 2)], probes: vec![3, 4, 5] },
        Case { max_frames: 2, max_out: 100, af: true, evs: vec![e(u64::MAX, 0), e(u64::MAX, 1), e(0, 2)], probes: vec![0, u64::MAX, u64::MAX - 1] },
        // S18 witness: running tool + error chip on a 20-column canvas cut the chips line inside a glyph
        Case { max_frames: 10, max_out: 100, af: true, evs: vec![Ev { seq: 0, ts: 1, k: K::ToolStarted(0), ident: 0 }, Ev { seq: 1, ts: 2, k: K::CheckpointFailed, ident: 1 }], probes: vec![0, 1] },
    ]
}

fn main() {
    let a = parse_args();
    let mut res = RunResult::new("C20", &a);
    res.rule = "cases = (capacities, frame sequence, probe seqs) from a seeded generator over 5 seq regimes (consecutive, gaps, repeats, extreme, decreasing) and 14 frame kinds incl. multi-byte and >8 KiB chunks; non-trivial = exercises eviction, truncation or non-consecutive seqs; distinct by hash of the canonical case".into();
    let n = match a.tier.as_str() {
        "thorough" => 6000,
        _ => 700,
    };
    let mut r = Rng::new(a.seed);
    let mut w = CaseWriter::new(&a.out, "Model.Tui", "check_case", "model_obs", 100);
    let mut wh = CaseWriter::new(&a.out.join("headless"), "Model.Headless", "check_case", "model_obs", 100).with_base(1_000_000);
    let have_rip = rip_bin().exists();
    if !have_rip {
        res.notes.push(format!("rip binary not found at {} — headless renderers not exercised", rip_bin().display()));
    }
    let mut distinct = Distinct::default();
    let mut all: Vec<Case> = corpus();
    for i in 0..n {
        all.push(gen_case(&mut r, i % 10 == 9));
    }
    for (i, c) in all.iter().enumerate() {
        if i % 4 == 0 || i < 4 {
            let c3 = c.clone();
            res.oracle_checks += 1;
            res.bump("render_passes");
            match std::panic::catch_unwind(move || (render_all(&c3), render_all(&c3))) {
                Err(_) => res.oracle_violations.push(OracleViolation { case_id: i as i64, what: "rip_tui::render panicked".into(), class: "render_panic".into(), replay: case_json(c) }),
                Ok((a1, a2)) => {
                    if a1 != a2 {
                        res.oracle_violations.push(OracleViolation { case_id: i as i64, what: "rip_tui::render gave two different screens for the same state".into(), class: "render_nondeterministic".into(), replay: case_json(c) });
                    }
                }
            }
        }
        if have_rip && (i % 3 == 1 || i < 4) && c.evs.iter().all(|e| match &e.k { K::ToolStdout(_, s) | K::ToolStderr(_, s) | K::TaskDelta(_, _, s) => s.len() < 500, _ => true }) {
            res.oracle_checks += 1;
            res.bump("headless_runs");
            match (run_headless(c), run_headless(c)) {
                (Ok(v1), Ok(v2)) => {
                    if v1 != v2 {
                        res.oracle_violations.push(OracleViolation { case_id: i as i64, what: "headless renderers gave different output for the same frames".into(), class: "headless_nondeterministic".into(), replay: case_json(c) });
                    }
                    if let Some((_, body)) = v1.iter().find(|(h, _)| h.starts_with("=== view Output")) {
                        match String::from_utf8(body.clone()) {
                            Ok(text) if !a.oracle_only() => {
                                let term = format!("{{| c_frames := {}; c_expect := {} |}}", coq_list(&c.evs, |e| coq_hk(&e.k)), coq_str(&text));
                                let id = wh.push(term);
                                if res.case_index.len() < 6000 {
                                    res.case_index.insert(id.to_string(), case_json(c));
                                }
                            }
                            Ok(_) => {}
                            Err(_) => res.oracle_violations.push(OracleViolation { case_id: i as i64, what: "headless Output view wrote invalid UTF-8".into(), class: "headless_invalid_utf8".into(), replay: case_json(c) }),
                        }
                    }
                }
                (Err(e), _) | (_, Err(e)) => res.oracle_violations.push(OracleViolation { case_id: i as i64, what: format!("headless renderer crashed: {e}"), class: "headless_crash".into(), replay: case_json(c) }),
            }
        }
        let c2 = c.clone();
        let got = std::panic::catch_unwind(move || {
            let o1 = run_impl(&c2);
            let o2 = run_impl(&c2);
            (o1, o2)
        });
        res.evaluations += 1;
        res.oracle_checks += 1;
        res.bump(&format!("max_frames={}", c.max_frames));
        res.bump(&format!("events={}", match c.evs.len() { 0 => "0", 1..=5 => "1-5", 6..=14 => "6-14", _ => "15+" }));
        match got {
            Err(_) => {
                res.impl_panics += 1;
                res.oracle_violations.push(OracleViolation { case_id: i as i64, what: "TuiState::update / accessors panicked".into(), class: "panic".into(), replay: case_json(c) });
            }
            Ok((o1, o2)) => {
                if o1.enc != o2.enc {
                    res.oracle_violations.push(OracleViolation { case_id: i as i64, what: "same frames gave two different states".into(), class: "nondeterministic".into(), replay: case_json(c) });
                }
                if let Some((what, class)) = o1.oracle_fail {
                    // shrink the event list while the same class keeps failing
                    let base = c.clone();
                    let cls = class.clone();
                    let evs = shrink_vec(c.evs.clone(), |evs| {
                        let mut cc = base.clone();
                        cc.evs = evs.to_vec();
                        std::panic::catch_unwind(|| run_impl(&cc)).map(|o| o.oracle_fail.map(|f| f.1) == Some(cls.clone())).unwrap_or(false)
                    });
                    let mut cc = c.clone();
                    cc.evs = evs;
                    res.oracle_violations.push(OracleViolation { case_id: i as i64, what, class, replay: case_json(&cc) });
                }
                if !a.oracle_only() {
                    let id = w.push(coq_case(c, &o1.enc));
                    if res.case_index.len() < 4000 {
                        res.case_index.insert(id.to_string(), case_json(c));
                    }
                }
                if nontrivial(c) && distinct.add(&format!("{:?}", c)) {}
            }
        }
        if res.samples.len() < 3 && nontrivial(c) && i >= 3 {
            res.samples.push(case_json(c));
        }
    }
    w.flush();
    wh.flush();
    res.distinct_nontrivial = distinct.count();
    res.case_files = w.files.iter().chain(wh.files.iter()).map(|p| p.display().to_string()).collect();
    res.write(&a.out);
    println!("c20: {} cases, {} distinct non-trivial, {} oracle violations, {} panics", res.evaluations, res.distinct_nontrivial, res.oracle_violations.len(), res.impl_panics);
}
