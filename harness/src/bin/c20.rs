//! C20 — rip-tui FrameStore / TuiState vs coq/Model/Tui.v, plus the independent oracle
//! (no panic, bounds, lookup soundness, determinism).
use rip_kernel::{Event, EventKind, ProviderEventStatus, ToolTaskExecutionMode, ToolTaskStatus, ToolTaskStream};
use rip_tui::{ToolStatus, TuiState};
use rv::*;
use serde_json::json;

#[derive(Clone, Debug)]
enum K {
    SessionStarted(String),
    OutputDelta(String),
    SessionEnded,
    ToolStarted(u64),
    ToolStdout(u64, String),
    ToolStderr(u64, String),
    /// the lists are artifact ids (see `art_json`)
    ToolEnded(u64, Vec<u64>),
    ToolFailed(u64),
    TaskSpawned(u64, Vec<u64>),
    TaskStatus(u64, u64, Vec<u64>),
    TaskDelta(u64, u64, String, Vec<u64>),
    CheckpointFailed,
    /// (invalid_json, which error list, which response-error list, provider is "openresponses") — see `err_list`
    ProviderEvent(bool, u64, u64, bool),
    ContextSelecting,
    ContextCompiled(u64),
    CkptCreated(u64),
    OrRequest(u64),
    OrRequestStarted,
    OrResponseHeaders,
    OrResponseFirstByte,
    JobSpawned(u64),
    JobEnded(u64),
    Other(u64),
}
#[derive(Clone, Debug)]
struct Ev {
    seq: u64,
    ts: u64,
    k: K,
    ident: u64,
}
#[derive(Clone, Debug)]
struct Case {
    max_frames: u64,
    max_out: u64,
    af: bool,
    evs: Vec<Ev>,
    probes: Vec<u64>,
}

fn tid(i: u64) -> String {
    format!("t{i:04}")
}
fn task_status(s: u64) -> ToolTaskStatus {
    match s {
        0 => ToolTaskStatus::Queued,
        1 => ToolTaskStatus::Running,
        2 => ToolTaskStatus::Exited,
        3 => ToolTaskStatus::Cancelled,
        _ => ToolTaskStatus::Failed,
    }
}
fn to_event(e: &Ev) -> Event {
    let kind = match &e.k {
        K::SessionStarted(s) => EventKind::SessionStarted { input: s.clone() },
        K::OutputDelta(s) => EventKind::OutputTextDelta { delta: s.clone() },
        K::SessionEnded => EventKind::SessionEnded { reason: "done".into() },
        K::ToolStarted(i) => EventKind::ToolStarted { tool_id: tid(*i), name: "bash".into(), args: json!({}), timeout_ms: None },
        K::ToolStdout(i, c) => EventKind::ToolStdout { tool_id: tid(*i), chunk: c.clone() },
        K::ToolStderr(i, c) => EventKind::ToolStderr { tool_id: tid(*i), chunk: c.clone() },
        K::ToolEnded(i, a) => EventKind::ToolEnded { tool_id: tid(*i), exit_code: 0, duration_ms: 1, artifacts: art_json(a, e.ident) },
        K::ToolFailed(i) => EventKind::ToolFailed { tool_id: tid(*i), error: "boom".into() },
        K::TaskSpawned(i, a) => EventKind::ToolTaskSpawned {
            task_id: tid(*i),
            tool_name: "bash".into(),
            args: json!({}),
            cwd: None,
            title: None,
            execution_mode: ToolTaskExecutionMode::Pipes,
            origin_session_id: None,
            artifacts: art_json(a, e.ident),
        },
        K::TaskStatus(i, s, a) => EventKind::ToolTaskStatus {
            task_id: tid(*i),
            status: task_status(*s),
            exit_code: None,
            started_at_ms: None,
            ended_at_ms: None,
            artifacts: art_json(a, e.ident),
            error: None,
        },
        K::TaskDelta(i, st, c, a) => EventKind::ToolTaskOutputDelta {
            task_id: tid(*i),
            stream: match st {
                0 => ToolTaskStream::Stdout,
                1 => ToolTaskStream::Stderr,
                _ => ToolTaskStream::Pty,
            },
            chunk: c.clone(),
            artifacts: art_json(a, e.ident),
        },
        K::CheckpointFailed => EventKind::CheckpointFailed { action: rip_kernel::CheckpointAction::Create, error: "e".into() },
        K::ContextSelecting => EventKind::ContinuityContextSelectionDecided { run_session_id: "r".into(), message_id: "m".into(), compiler_id: "c".into(), compiler_strategy: "s".into(), limits: json!({}), compaction_checkpoint: None, compaction_checkpoints: vec![], resets: vec![], reason: None, actor_id: "a".into(), origin: "o".into() },
        K::ContextCompiled(x) => EventKind::ContinuityContextCompiled { run_session_id: "r".into(), bundle_artifact_id: art_id(*x), compiler_id: "c".into(), compiler_strategy: "s".into(), from_seq: 0, from_message_id: None, actor_id: "a".into(), origin: "o".into() },
        K::CkptCreated(x) => EventKind::ContinuityCompactionCheckpointCreated { checkpoint_id: "c".into(), cut_rule_id: "r".into(), summary_kind: "k".into(), summary_artifact_id: art_id(*x), from_seq: 0, from_message_id: None, to_seq: 1, to_message_id: None, actor_id: "a".into(), origin: "o".into() },
        K::OrRequest(x) => EventKind::OpenResponsesRequest { endpoint: "e".into(), model: None, request_index: e.ident, kind: "k".into(), body_artifact_id: art_id(*x), body_bytes: 1, total_bytes: 1, truncated: false },
        K::OrRequestStarted => EventKind::OpenResponsesRequestStarted { endpoint: "e".into(), model: None, request_index: e.ident % 2, kind: "k".into() },
        K::OrResponseHeaders => EventKind::OpenResponsesResponseHeaders { request_index: e.ident % 2, status: 200, request_id: None, content_type: None },
        K::OrResponseFirstByte => EventKind::OpenResponsesResponseFirstByte { request_index: e.ident % 2 },
        K::ProviderEvent(a, b, c, is_or) => EventKind::ProviderEvent {
            provider: if *is_or { "openresponses".into() } else { "other".into() },
            status: if *a { ProviderEventStatus::InvalidJson } else { ProviderEventStatus::Event },
            event_name: None,
            data: None,
            raw: None,
            errors: err_list(*b, "x"),
            response_errors: err_list(*c, "y"),
        },
        K::JobSpawned(i) => EventKind::ContinuityJobSpawned { job_id: tid(*i), job_kind: "compaction_summarizer_v1".into(), details: None, actor_id: "a".into(), origin: "o".into() },
        K::JobEnded(i) => EventKind::ContinuityJobEnded { job_id: tid(*i), job_kind: "k2".into(), status: "completed".into(), result: None, error: if i % 2 == 0 { None } else { Some("e".into()) }, actor_id: "a".into(), origin: "o".into() },
        K::Other(v) => other_kind(*v),
    };
    Event { id: format!("{}", e.ident), session_id: format!("s{}", e.ident % 3), timestamp_ms: e.ts, seq: e.seq, kind }
}

/// An artifact id as the log writes it: 64 hex digits (numeric order = string order, so BTreeSet order is the model's).
fn art_id(n: u64) -> String {
    format!("{n:064x}")
}
fn art_num(s: &str) -> u64 {
    u64::from_str_radix(&s[48..], 16).unwrap()
}
/// An `artifacts` JSON value that carries exactly the ids `a` (anywhere: member values, arrays, nested) between
/// things that are no artifact ids (63 / 65 hex digits, 64 non-hex characters, numbers, null, keys that look like ids).
fn art_json(a: &[u64], salt: u64) -> Option<serde_json::Value> {
    if a.is_empty() && salt % 3 == 0 {
        return None;
    }
    let ids: Vec<String> = a.iter().map(|n| art_id(*n)).collect();
    let decoys = json!(["f".repeat(63), "0".repeat(65), "g".repeat(64), "é".repeat(32), 7, null, true, {art_id(5): 1}]);
    Some(match salt % 4 {
        0 => json!({"ids": ids, "x": decoys}),
        1 => json!([decoys, ids]),
        2 => json!({"stdout": {"artifact_id": ids.first(), "rest": ids.iter().skip(1).collect::<Vec<_>>()}, "n": 3, "d": decoys}),
        _ => json!({"a": {"b": {"c": [[ids]]}}, "s": "plain"}),
    })
}

fn other_kind(v: u64) -> EventKind {
    let t = |n: u64| -> String { ["", "a", "héllo wörld €", "😀😀😀😀😀😀😀😀😀😀😀😀😀😀😀😀😀😀😀😀😀😀😀😀😀😀😀😀😀😀😀😀😀😀😀😀😀😀😀😀😀😀", "line1\nline2\ttab", "\u{0}\u{1b}[31m"][(n % 6) as usize].to_string() };
    match v % 26 {
        0 => EventKind::ToolTaskCancelRequested { task_id: tid(1), reason: t(v / 26) },
        1 => EventKind::CheckpointRewound { checkpoint_id: t(v / 26), label: t(v / 26 + 1), files: vec![t(2), t(3)] },
        2 => EventKind::ContinuityMessageAppended { actor_id: "a".into(), origin: "o".into(), content: t(v / 26) },
        3 => EventKind::ToolTaskResized { task_id: tid(1), rows: 0, cols: u16::MAX },
        4 => EventKind::ContinuityCreated { workspace: t(v / 26), title: Some(t(v / 26 + 2)) },
        5 => EventKind::ContinuityRunSpawned { run_session_id: t(3), message_id: t(2), actor_id: None, origin: Some(t(1)) },
        6 if false => EventKind::ContinuityContextSelectionDecided { run_session_id: t(1), message_id: t(2), compiler_id: t(3), compiler_strategy: t(v / 26), limits: json!({"a": [1, 2, {"b": null}]}), compaction_checkpoint: None, compaction_checkpoints: vec![], resets: vec![], reason: Some(json!("x")), actor_id: t(1), origin: t(1) },
        7 if false => EventKind::ContinuityContextCompiled { run_session_id: t(1), bundle_artifact_id: "a".repeat(64), compiler_id: t(2), compiler_strategy: t(3), from_seq: u64::MAX, from_message_id: None, actor_id: t(1), origin: t(1) },
        8 => EventKind::ContinuityProviderCursorUpdated { provider: t(2), endpoint: None, model: Some(t(3)), cursor: Some(json!({"k": t(3)})), action: t(1), reason: None, run_session_id: None, actor_id: t(1), origin: t(1) },
        9 if false => EventKind::ContinuityCompactionCheckpointCreated { checkpoint_id: t(1), cut_rule_id: t(2), summary_kind: t(3), summary_artifact_id: "b".repeat(64), from_seq: 0, from_message_id: None, to_seq: u64::MAX, to_message_id: Some(t(3)), actor_id: t(1), origin: t(1) },
        10 => EventKind::ContinuityCompactionAutoScheduleDecided { decision_id: t(1), policy_id: t(2), decision: t(3), execute: true, stride_messages: 0, max_new_checkpoints: u32::MAX, block_on_inflight: false, message_count: u64::MAX, cut_rule_id: t(1), planned: vec![rip_kernel::CompactionPlannedCutPoint { target_message_ordinal: 1, to_seq: 2, to_message_id: t(3) }], job_id: None, job_kind: None, reason: None, actor_id: t(1), origin: t(1) },
        11 => EventKind::ToolTaskStdinWritten { task_id: tid(v / 26 % 3), chunk_b64: t(v / 26) },
        12 => EventKind::ToolTaskSignalled { task_id: tid(v / 26 % 3), signal: t(v / 26) },
        13 => EventKind::ContinuityRunEnded { run_session_id: t(1), message_id: t(2), reason: t(3), actor_id: None, origin: None },
        14 => EventKind::ContinuityToolSideEffects { run_session_id: t(1), tool_id: t(2), tool_name: t(3), affected_paths: Some(vec![t(3), t(2)]), checkpoint_id: None, actor_id: t(1), origin: t(1) },
        15 => EventKind::ContinuityBranched { parent_thread_id: t(3), parent_seq: u64::MAX, parent_message_id: None, actor_id: t(1), origin: t(1) },
        16 => EventKind::ContinuityHandoffCreated { from_thread_id: t(3), from_seq: 0, from_message_id: None, summary_artifact_id: None, summary_markdown: Some(t(3)), actor_id: t(1), origin: t(1) },
        17 if false => EventKind::OpenResponsesRequest { endpoint: t(3), model: None, request_index: 0, kind: t(1), body_artifact_id: "c".repeat(64), body_bytes: u64::MAX, total_bytes: 0, truncated: true },
        18 if false => EventKind::OpenResponsesRequestStarted { endpoint: t(3), model: Some(t(2)), request_index: 1, kind: t(1) },
        19 if false => EventKind::OpenResponsesResponseHeaders { request_index: 0, status: 599, request_id: Some(t(3)), content_type: None },
        20 => EventKind::CheckpointCreated { checkpoint_id: t(1), label: t(3), created_at_ms: u64::MAX, files: vec![t(3)], auto: true, tool_name: Some(t(2)) },
        21 => EventKind::ToolTaskCancelled { task_id: tid(2), reason: t(3), wall_time_ms: Some(u64::MAX) },
        22 => EventKind::ToolTaskStdinWritten { task_id: tid(0), chunk_b64: t(3) },
        23 => EventKind::ToolTaskResized { task_id: tid(0), rows: u16::MAX, cols: 0 },
        24 => EventKind::ToolTaskSignalled { task_id: tid(0), signal: t(3) },
        _ => EventKind::ToolEnded { tool_id: tid(9999), exit_code: i32::MIN, duration_ms: u64::MAX, artifacts: Some(json!({"stdout": {"artifact_id": "d".repeat(64)}, "x": ["e".repeat(64), 3, null]})) },
    }
}

fn coq_k(k: &K) -> String {
    match k {
        K::SessionStarted(s) => format!("KSessionStarted {}", coq_str(s)),
        K::OutputDelta(s) => format!("KOutputDelta {}", coq_str(s)),
        K::SessionEnded => "KSessionEnded".into(),
        K::ToolStarted(i) => format!("KToolStarted {i}"),
        K::ToolStdout(i, c) => format!("KToolStdout {i} {}", coq_str(c)),
        K::ToolStderr(i, c) => format!("KToolStderr {i} {}", coq_str(c)),
        K::ToolEnded(i, a) => format!("KToolEnded {i} {}", coq_list_n(a)),
        K::ToolFailed(i) => format!("KToolFailed {i}"),
        K::TaskSpawned(i, a) => format!("KTaskSpawned {i} {}", coq_list_n(a)),
        K::TaskStatus(i, s, a) => format!("KTaskStatus {i} {s} {}", coq_list_n(a)),
        K::TaskDelta(i, st, c, a) => format!("KTaskDelta {i} {st} {} {}", coq_str(c), coq_list_n(a)),
        K::CheckpointFailed => "KCheckpointFailed".into(),
        K::ProviderEvent(a, b, c, o) => format!("KProviderEvent {} {} {} {}", coq_bool(*a), coq_bool(*b > 0), coq_bool(*c > 0), coq_bool(*o)),
        K::ContextSelecting => "KContextSelecting".into(),
        K::ContextCompiled(x) => format!("KContextCompiled {x}"),
        K::CkptCreated(x) => format!("KCkptCreated {x}"),
        K::OrRequest(x) => format!("KOrRequest {x}"),
        K::OrRequestStarted => "KOrRequestStarted".into(),
        K::OrResponseHeaders => "KOrResponseHeaders".into(),
        K::OrResponseFirstByte => "KOrResponseFirstByte".into(),
        K::JobSpawned(i) => format!("KJobSpawned {i}"),
        K::JobEnded(i) => format!("KJobEnded {i}"),
        K::Other(_) => "KOther".into(),
    }
}
fn coq_case(c: &Case, expect: &[u64]) -> String {
    let evs = coq_list(&c.evs, |e| format!("{{| eseq := {}; ets := {}; ekd := {}; eident := {} |}}", e.seq, e.ts, coq_k(&e.k), e.ident));
    format!(
        "{{| c_max_frames := {}; c_max_out := {}; c_af := {}; c_evs := {}; c_probes := {}; c_expect := {} |}}",
        // the model's window size is a unary nat: a window larger than the number of frames of the case is written as
        // that number + 1 (no eviction can happen under either; the implementation runs with the real setting)
        coq_nat(c.max_frames.min(c.evs.len() as u64 + 1)),
        c.max_out,
        coq_bool(c.af),
        evs,
        coq_list_n(&c.probes),
        coq_list_n(expect)
    )
}

fn ident_of(e: &Event) -> u64 {
    e.id.parse().unwrap()
}

struct Obs {
    enc: Vec<u64>,
    oracle_fail: Option<(String, String)>, // (what, class)
}

fn run_impl(c: &Case) -> Obs {
    let mut st = TuiState::new(c.max_frames as usize, c.max_out as usize);
    st.auto_follow = c.af;
    for e in &c.evs {
        st.update(to_event(e));
    }
    let mut out = vec![];
    let mut fail: Option<(String, String)> = None;
    let fs = &st.frames;
    out.push(fs.len() as u64);
    enc_opt(&mut out, fs.first_seq());
    enc_opt(&mut out, fs.last_seq());
    let ids: Vec<u64> = fs.iter().map(ident_of).collect();
    enc_list(&mut out, &ids);
    enc_opt(&mut out, st.selected_seq);
    enc_opt(&mut out, st.selected_event().map(ident_of));
    enc_str(&mut out, &st.output_text);
    enc_bool(&mut out, st.output_truncated);
    out.push(st.tools.len() as u64);
    for (id, t) in &st.tools {
        out.push(id[1..].parse().unwrap());
        out.push(match t.status {
            ToolStatus::Running => 0,
            ToolStatus::Ended { .. } => 1,
            ToolStatus::Failed { .. } => 2,
        });
        enc_str(&mut out, &t.stdout_preview);
        enc_str(&mut out, &t.stderr_preview);
        enc_list(&mut out, &t.artifact_ids.iter().map(|s| art_num(s)).collect::<Vec<_>>());
        if t.stdout_preview.len() > 8192 || t.stderr_preview.len() > 8192 {
            fail = Some((format!("tool preview exceeds 8192 bytes for {id}"), "preview_unbounded".into()));
        }
    }
    out.push(st.tasks.len() as u64);
    for (id, t) in &st.tasks {
        out.push(id[1..].parse().unwrap());
        out.push(match t.status {
            ToolTaskStatus::Queued => 0,
            ToolTaskStatus::Running => 1,
            ToolTaskStatus::Exited => 2,
            ToolTaskStatus::Cancelled => 3,
            ToolTaskStatus::Failed => 4,
        });
        enc_str(&mut out, &t.stdout_preview);
        enc_str(&mut out, &t.stderr_preview);
        enc_str(&mut out, &t.pty_preview);
        enc_list(&mut out, &t.artifact_ids.iter().map(|s| art_num(s)).collect::<Vec<_>>());
        if t.stdout_preview.len() > 8192 || t.stderr_preview.len() > 8192 || t.pty_preview.len() > 8192 {
            fail = Some((format!("task preview exceeds 8192 bytes for {id}"), "preview_unbounded".into()));
        }
    }
    out.push(st.jobs.len() as u64);
    for (id, j) in &st.jobs {
        out.push(id[1..].parse().unwrap());
        out.push(match j.status {
            rip_tui::JobStatus::Running => 0,
            rip_tui::JobStatus::Ended { .. } => 1,
        });
    }
    enc_list(&mut out, &st.artifacts.iter().map(|s| art_num(s)).collect::<Vec<_>>());
    match &st.context {
        None => out.push(0),
        Some(c) => {
            out.push(1);
            out.push(match c.status {
                rip_tui::ContextStatus::Selecting => 0,
                rip_tui::ContextStatus::Compiled => 1,
            });
            enc_opt(&mut out, c.bundle_artifact_id.as_deref().map(art_num));
        }
    }
    enc_opt(&mut out, st.openresponses_request_started_ms);
    enc_opt(&mut out, st.openresponses_response_headers_ms);
    enc_opt(&mut out, st.openresponses_response_first_byte_ms);
    enc_opt(&mut out, st.openresponses_first_provider_event_ms);
    enc_opt(&mut out, st.start_ms);
    enc_opt(&mut out, st.first_output_ms);
    enc_opt(&mut out, st.end_ms);
    enc_opt(&mut out, st.last_error_seq);
    enc_opt(&mut out, st.last_event_ms);
    for q in &c.probes {
        let g = fs.get_by_seq(*q);
        enc_opt(&mut out, g.map(ident_of));
        enc_opt(&mut out, fs.index_of_seq(*q).map(|i| i as u64));
        if let Some(i) = fs.index_of_seq(*q) {
            if fs.iter().nth(i).map(|e| e.seq) != Some(*q) {
                fail = Some((format!("index_of_seq({q}) = {i}, the position of the frame with seq {:?}", fs.iter().nth(i).map(|e| e.seq)), "index_lookup_returns_other_frame".into()));
            }
        }
        if let Some(e) = g {
            if e.seq != *q {
                fail = Some((format!("get_by_seq({q}) returned the frame with seq {}", e.seq), "lookup_returns_other_frame".into()));
            }
        }
    }
    // independent oracle: the id-keyed maps hold at most one entry per distinct id seen, and the previews they
    // hold are bounded by (2 per tool + 3 per task) * 8192 bytes
    {
        use std::collections::BTreeSet;
        let mut tool_ids = BTreeSet::new();
        let mut task_ids = BTreeSet::new();
        let mut job_ids = BTreeSet::new();
        let mut art_ids: BTreeSet<u64> = BTreeSet::new();
        for e in &c.evs {
            match &e.k {
                K::ToolStarted(i) => {
                    tool_ids.insert(*i);
                }
                K::TaskSpawned(i, _) | K::TaskStatus(i, _, _) => {
                    task_ids.insert(*i);
                }
                K::JobSpawned(i) | K::JobEnded(i) => {
                    job_ids.insert(*i);
                }
                _ => {}
            }
            match &e.k {
                K::ToolEnded(_, a) | K::TaskSpawned(_, a) | K::TaskStatus(_, _, a) | K::TaskDelta(_, _, _, a) => art_ids.extend(a.iter().copied()),
                K::ContextCompiled(x) | K::CkptCreated(x) | K::OrRequest(x) => {
                    art_ids.insert(*x);
                }
                _ => {}
            }
        }
        if st.artifacts.len() > art_ids.len() || st.artifacts.iter().any(|s| !art_ids.contains(&art_num(s))) {
            fail = Some((format!("the artifact set holds {} ids, the frames carried {} distinct ones", st.artifacts.len(), art_ids.len()), "artifacts_not_from_frames".into()));
        }
        if st.tools.len() > tool_ids.len() || st.tasks.len() > task_ids.len() || st.jobs.len() > job_ids.len() {
            fail = Some((format!("maps hold {}/{}/{} entries for {}/{}/{} distinct tool/task/job ids", st.tools.len(), st.tasks.len(), st.jobs.len(), tool_ids.len(), task_ids.len(), job_ids.len()), "map_entries_exceed_distinct_ids".into()));
        }
        let held: usize = st.tools.values().map(|t| t.stdout_preview.len() + t.stderr_preview.len()).sum::<usize>() + st.tasks.values().map(|t| t.stdout_preview.len() + t.stderr_preview.len() + t.pty_preview.len()).sum::<usize>();
        if held > 8192 * (2 * tool_ids.len() + 3 * task_ids.len()) {
            fail = Some((format!("previews hold {held} bytes for {} tool and {} task ids", tool_ids.len(), task_ids.len()), "preview_unbounded".into()));
        }
    }
    // independent oracle: bounds
    if fs.len() > (c.max_frames as usize).max(1) {
        fail = Some((format!("{} frames held with max_frames {}", fs.len(), c.max_frames), "frames_unbounded".into()));
    }
    if st.output_text.len() > (c.max_out as usize).max(1) {
        fail = Some((format!("output_text holds {} bytes with max_output_bytes {}", st.output_text.len(), c.max_out), "output_unbounded".into()));
    }
    if let (Some(sel), Some(e)) = (st.selected_seq, st.selected_event()) {
        if e.seq != sel {
            fail = Some((format!("selected_event() shows seq {} while selected_seq is {sel}", e.seq), "lookup_returns_other_frame".into()));
        }
    }
    Obs { enc: out, oracle_fail: fail }
}

fn overlays_for(st: &TuiState) -> Vec<rip_tui::Overlay> {
    use rip_tui::Overlay;
    vec![
        Overlay::None,
        Overlay::Activity,
        Overlay::ToolDetail { tool_id: tid(0) },
        Overlay::ToolDetail { tool_id: "nope".into() },
        Overlay::TaskList,
        Overlay::TaskDetail { task_id: tid(1) },
        Overlay::TaskDetail { task_id: "nope".into() },
        Overlay::ErrorDetail { seq: st.last_error_seq.unwrap_or(3) },
        Overlay::ErrorDetail { seq: u64::MAX },
        Overlay::StallDetail,
    ]
}
fn state_of(c: &Case) -> TuiState {
    let mut st = TuiState::new(c.max_frames as usize, c.max_out as usize);
    st.auto_follow = c.af;
    for e in &c.evs {
        st.update(to_event(e));
    }
    st.set_now_ms(u64::MAX);
    st
}
/// One draw of `rip_tui::render` into a viewport of w x h cells placed at (ox, oy) inside a larger screen.
/// Returns the viewport's cells; Err when a cell outside the viewport was written.
fn draw(st: &TuiState, mode: rip_tui::RenderMode, w: u16, h: u16, ox: u16, oy: u16) -> Result<String, String> {
    use ratatui::{backend::TestBackend, layout::Rect, Terminal, TerminalOptions, Viewport};
    let (sw, sh) = (w + 2 * ox, h + 2 * oy);
    let area = Rect::new(ox, oy, w, h);
    let mut terminal = Terminal::with_options(TestBackend::new(sw, sh), TerminalOptions { viewport: Viewport::Fixed(area) }).expect("terminal");
    let mut seen = Rect::default();
    terminal
        .draw(|f| {
            seen = f.area();
            rip_tui::render(f, st, mode, "input €")
        })
        .expect("draw");
    if seen != area {
        return Err(format!("frame area {seen:?} differs from the viewport {area:?}"));
    }
    let buf = terminal.backend().buffer().clone();
    if buf.area != Rect::new(0, 0, sw, sh) || buf.content().len() != sw as usize * sh as usize {
        return Err(format!("screen buffer area {:?} holds {} cells", buf.area, buf.content().len()));
    }
    let blank = ratatui::buffer::Cell::default();
    let mut s = String::new();
    for y in 0..sh {
        for x in 0..sw {
            let cell = &buf.content()[y as usize * sw as usize + x as usize];
            if x >= ox && x < ox + w && y >= oy && y < oy + h {
                s.push_str(cell.symbol());
                s.push('\u{1f}');
            } else if *cell != blank {
                return Err(format!("cell ({x},{y}) outside the {w}x{h} viewport at ({ox},{oy}) was written: {:?}", cell.symbol()));
            }
        }
    }
    Ok(s)
}
/// Totality + determinism of the renderers (layout is not modelled): every overlay, both views,
/// both modes, degenerate terminal sizes; every cell written lies inside the frame area.
/// Returns a digest of everything rendered.
fn render_all(c: &Case, rot: usize) -> Result<String, String> {
    use rip_tui::RenderMode;
    let mut st = state_of(c);
    let overlays = overlays_for(&st);
    let mut digest = Distinct::default();
    let mut acc = String::new();
    // the small and degenerate sizes on every pass, the three large ones in turn
    let big = [(60u16, 20u16, 3u16, 2u16), (120, 40, 0, 0), (200, 60, 1, 1)][rot % 3];
    for (w, h, ox, oy) in [(20u16, 8u16, 0u16, 0u16), big, (80, 3, 0, 0), (4, 20, 0, 0), (0, 0, 0, 0), (1, 1, 2, 2)] {
        for ov in &overlays {
            for raw in [false, true] {
                for mode in [RenderMode::Json, RenderMode::Decoded] {
                    st.overlay = ov.clone();
                    if (st.output_view == rip_tui::OutputViewMode::Raw) != raw {
                        st.toggle_output_view();
                    }
                    let s = draw(&st, mode, w, h, ox, oy)?;
                    digest.add(&s);
                    acc.push_str(&format!("{}:", s.len()));
                }
            }
        }
    }
    st.open_selected_detail();
    Ok(format!("{acc}{}", digest.count()))
}
/// Every terminal size from 0x0 to 200x60 (step 1 on the quick tier's few sample states): no panic, and nothing
/// outside the frame area.  The overlay, view and mode rotate with the size so each is met at many sizes.
fn render_sizes(c: &Case, step: usize) -> Result<u64, String> {
    use rip_tui::RenderMode;
    let mut st = state_of(c);
    let overlays = overlays_for(&st);
    let mut n = 0u64;
    for w in (0..=200u16).step_by(step) {
        for h in (0..=60u16).step_by(step) {
            let k = (w as usize * 61 + h as usize) / step;
            st.overlay = overlays[k % overlays.len()].clone();
            if (k / overlays.len()) % 2 == 1 {
                st.toggle_output_view();
            }
            let mode = if (k / 3) % 2 == 0 { RenderMode::Json } else { RenderMode::Decoded };
            let (ox, oy) = if k % 7 == 0 { (2, 1) } else { (0, 0) };
            draw(&st, mode, w, h, ox, oy).map_err(|e| format!("{w}x{h}: {e}"))?;
            n += 1;
        }
    }
    Ok(n)
}

/// The error lists a provider frame carries: several DISTINCT messages per frame and across frames (a renderer that
/// collects them in an unordered container shows them in a different order from run to run).
fn err_list(which: u64, tag: &str) -> Vec<String> {
    match which {
        0 => vec![],
        1 => vec![tag.to_string()],
        2 => vec![format!("{tag}: missing field `type`"), format!("{tag}: invalid value"), tag.to_string()],
        3 => vec![format!("{tag}-3a"), format!("{tag}-3b"), format!("{tag}-3c"), format!("{tag}-3d"), format!("{tag} é")],
        _ => (0..8).map(|i| format!("{tag}{i}")).collect(),
    }
}

// ---------------------------------------------------------------- headless renderers (rip-cli)
fn rip_bin() -> std::path::PathBuf {
    let exe = std::env::current_exe().unwrap();
    exe.parent().unwrap().parent().unwrap().parent().unwrap().join("target-cli/debug/rip")
}
fn coq_strs(l: &[String]) -> String {
    format!("[{}]", l.iter().map(|e| coq_str(e)).collect::<Vec<_>>().join("; "))
}
fn coq_ostr(o: &Option<String>) -> String {
    coq_opt(o, |s| coq_str(s))
}
/// what Model/Headless.v (Output view) sees of a frame
fn coq_hk(k: &EventKind) -> String {
    match k {
        EventKind::OutputTextDelta { delta } => format!("HDelta {}", coq_str(delta)),
        EventKind::ToolStdout { chunk, .. } => format!("HToolStdout {}", coq_str(chunk)),
        EventKind::ToolStderr { chunk, .. } => format!("HToolStderr {}", coq_str(chunk)),
        EventKind::ToolFailed { error, .. } => format!("HToolFailed {}", coq_str(error)),
        EventKind::ProviderEvent { status, errors, response_errors, raw, .. } => {
            format!("HProvider {} {} {} {}", coq_bool(*status == ProviderEventStatus::InvalidJson), coq_strs(errors), coq_strs(response_errors), coq_ostr(raw))
        }
        EventKind::SessionEnded { .. } => "HEnded".into(),
        _ => "HOther".into(),
    }
}
/// what Model/Views.v (raw and metrics views) sees of a frame
fn coq_mframe(e: &Event) -> String {
    let k = match &e.kind {
        EventKind::SessionStarted { .. } => "MSessionStarted".to_string(),
        EventKind::OutputTextDelta { .. } => "MOutputDelta".to_string(),
        EventKind::SessionEnded { reason } => format!("MSessionEnded {}", coq_str(reason)),
        EventKind::OpenResponsesRequestStarted { endpoint, model, request_index, .. } => format!("MReqStarted {} {} {}", request_index, coq_str(endpoint), coq_ostr(model)),
        EventKind::OpenResponsesResponseHeaders { request_index, status, request_id, content_type } => {
            format!("MRespHeaders {} {} {} {}", request_index, status, coq_ostr(request_id), coq_ostr(content_type))
        }
        EventKind::OpenResponsesResponseFirstByte { request_index } => format!("MFirstByte {request_index}"),
        EventKind::ProviderEvent { provider, status, errors, response_errors, raw, .. } => format!(
            "MProvider {} {} {} {} {}",
            coq_bool(provider == "openresponses"),
            coq_bool(*status == ProviderEventStatus::InvalidJson),
            coq_strs(errors),
            coq_strs(response_errors),
            coq_ostr(raw)
        ),
        EventKind::ToolFailed { error, .. } => format!("MToolFailed {}", coq_str(error)),
        _ => "MOther".to_string(),
    };
    format!("{{| m_ts := {}; m_kind := {} |}}", e.timestamp_ms, k)
}

/// One line of a frame stream as the headless renderers receive it.
#[derive(Clone, Debug)]
enum VLine {
    /// a well-formed frame and the way its JSON text is laid out (0 compact, 1 padded with blanks, 2 keys in
    /// alphabetical order, 3 with an unknown extra member)
    Frame(Event, u8),
    /// a line that is not a frame (by construction)
    Junk(String),
}
impl VLine {
    fn text(&self) -> String {
        match self {
            VLine::Junk(s) => s.clone(),
            VLine::Frame(e, v) => {
                let t = serde_json::to_string(e).unwrap();
                match v {
                    1 => format!("  {t} \t"),
                    2 => serde_json::to_string(&serde_json::to_value(e).unwrap()).unwrap(),
                    3 => format!("{{\"zz_extra\":[1,{{\"a\":null}}],{}", &t[1..]),
                    _ => t,
                }
            }
        }
    }
}
#[derive(Clone, Debug, PartialEq)]
struct ViewOut {
    /// 0 the lines ran out, 1 stopped after session_ended, 2 a line was refused
    end: u64,
    idx: u64,
    bytes: Vec<u8>,
    errmsg: String,
}
/// Runs the real `rip` binary's three headless renderers (raw, output, metrics — in this order) over several frame
/// streams in ONE process; every stream starts from a fresh renderer state.
fn run_rip_batch(cases: &[Vec<String>]) -> Result<Vec<Vec<ViewOut>>, String> {
    use std::io::Write;
    use std::process::{Command, Stdio};
    let mut input: Vec<u8> = vec![];
    for (i, c) in cases.iter().enumerate() {
        if i > 0 {
            input.extend_from_slice(b"\x1e\n");
        }
        for l in c {
            input.extend_from_slice(l.as_bytes());
            input.push(b'\n');
        }
    }
    let mut child = Command::new(rip_bin())
        .env("RIP_VERIF_RENDER", "1")
        .stdin(Stdio::piped())
        .stdout(Stdio::piped())
        .stderr(Stdio::piped())
        .spawn()
        .map_err(|e| format!("spawn rip: {e}"))?;
    let mut stdin = child.stdin.take().unwrap();
    // the driver reads its whole input before it writes anything, so writing from a thread is only a safeguard
    let writer = std::thread::spawn(move || {
        let _ = stdin.write_all(&input);
    });
    let out = child.wait_with_output().map_err(|e| format!("wait: {e}"))?;
    let _ = writer.join();
    if !out.status.success() {
        return Err(format!("rip exited with {:?}: {}", out.status.code(), String::from_utf8_lossy(&out.stderr).chars().take(400).collect::<String>()));
    }
    // "=== case <c> view <V> end <exhausted|stopped i|error i msglen> bytes <n>\n<n bytes>\n"
    let b = out.stdout;
    let mut pos = 0;
    let mut res: Vec<Vec<ViewOut>> = vec![vec![]; cases.len()];
    while pos < b.len() {
        let nl = b[pos..].iter().position(|x| *x == b'\n').ok_or("no header newline")? + pos;
        let head = String::from_utf8_lossy(&b[pos..nl]).to_string();
        let w: Vec<&str> = head.split(' ').collect();
        if w.len() < 8 || w[0] != "===" || w[1] != "case" || w[3] != "view" || w[5] != "end" {
            return Err(format!("bad header {head:?}"));
        }
        let ci: usize = w[2].parse().map_err(|_| format!("bad case number in {head:?}"))?;
        let n: usize = w[w.len() - 1].parse().map_err(|_| format!("bad length in {head:?}"))?;
        if nl + 1 + n > b.len() || ci >= cases.len() {
            return Err(format!("truncated output after {head:?}"));
        }
        let mut body = b[nl + 1..nl + 1 + n].to_vec();
        let num = |s: &str| -> Result<u64, String> { s.parse().map_err(|_| format!("bad number in {head:?}")) };
        let (end, idx, errmsg) = match w[6] {
            "exhausted" => (0, cases[ci].len() as u64, String::new()),
            "stopped" => (1, num(w[7])?, String::new()),
            "error" => {
                let ml = num(w[8])? as usize;
                if ml > body.len() {
                    return Err(format!("bad message length in {head:?}"));
                }
                let msg = String::from_utf8_lossy(&body[body.len() - ml..]).to_string();
                body.truncate(body.len() - ml);
                (2, num(w[7])?, msg)
            }
            _ => return Err(format!("bad end in {head:?}")),
        };
        let order = ["Raw", "Output", "Metrics"];
        if res[ci].len() >= 3 || w[4] != order[res[ci].len()] {
            return Err(format!("unexpected view in {head:?}"));
        }
        res[ci].push(ViewOut { end, idx, bytes: body, errmsg });
        pos = nl + 1 + n + 1;
    }
    if res.iter().any(|v| v.len() != 3) {
        return Err("rip printed fewer views than frame streams were sent".into());
    }
    Ok(res)
}

fn enc_view(v: &ViewOut) -> Option<Vec<u64>> {
    let text = String::from_utf8(v.bytes.clone()).ok()?;
    let mut out = vec![v.end, v.idx];
    enc_str(&mut out, &text);
    Some(out)
}

fn jtext(r: &mut Rng) -> String {
    const ALPH: [&str; 16] = ["a", "z", " ", "\"", "\\", "\n", "\t", "\r", "\u{8}", "\u{c}", "\u{1}", "\u{1f}", "\u{7f}", "é", "😀", "/"];
    let n = *r.pick(&[0, 1, 1, 2, 3, 5, 9]);
    (0..n).map(|_| *r.pick(&ALPH[..])).collect()
}
fn ojtext(r: &mut Rng) -> Option<String> {
    if r.chance(1, 3) {
        None
    } else {
        Some(jtext(r))
    }
}
fn junk_line(r: &mut Rng, sample: &Event) -> String {
    let t = serde_json::to_string(sample).unwrap();
    match r.below(12) {
        0 => String::new(),
        1 => " ".into(),
        2 => "{".into(),
        3 => "null".into(),
        4 => "[]".into(),
        5 => "42".into(),
        6 => "{}".into(),
        7 => "{\"type\":\"nope\",\"id\":\"x\",\"session_id\":\"s\",\"timestamp_ms\":1,\"seq\":1}".into(),
        8 => "{\"type\":\"session_ended\",\"reason\":\"done\",\"id\":\"x\",\"session_id\":\"s\",\"timestamp_ms\":1,\"seq\":\"1\"}".into(),
        9 => t[..t.len() - 1].to_string(),
        10 => format!("{t}x"),
        _ => "{\"type\":\"session_ended\"}".into(),
    }
}
/// A frame stream aimed at the raw and metrics views: timing frames of request 0 and of later requests, provider
/// frames of two providers, failures, ends with different reasons, frames after the end, lines that are no frames.
fn gen_vcase(r: &mut Rng) -> Vec<VLine> {
    let n = r.range(0, 12);
    let mut ts: u64 = *r.pick(&[0u64, 5, 1000, 1 << 40, u64::MAX - 20]);
    let mut out = vec![];
    let junk_ok = r.chance(1, 3);
    for i in 0..n {
        ts = match r.below(6) {
            0 => ts.saturating_sub(r.range(1, 2000)),
            1 => ts,
            _ => ts.saturating_add(r.range(1, 900)),
        };
        let idx = *r.pick(&[0u64, 0, 0, 1, 2, u64::MAX]);
        let kind = match r.below(17) {
            0 | 1 => EventKind::SessionStarted { input: jtext(r) },
            2 | 3 => EventKind::OutputTextDelta { delta: jtext(r) },
            4 => EventKind::SessionEnded { reason: jtext(r) },
            5 | 6 => EventKind::OpenResponsesRequestStarted { endpoint: jtext(r), model: ojtext(r), request_index: idx, kind: "k".into() },
            7 | 8 => EventKind::OpenResponsesResponseHeaders { request_index: idx, status: *r.pick(&[0u16, 200, 404, 599, u16::MAX]), request_id: ojtext(r), content_type: ojtext(r) },
            9 => EventKind::OpenResponsesResponseFirstByte { request_index: idx },
            10 | 11 => EventKind::ProviderEvent {
                provider: if r.chance(3, 4) { "openresponses".into() } else { jtext(r) },
                status: r.pick(&[ProviderEventStatus::Event, ProviderEventStatus::Done, ProviderEventStatus::InvalidJson, ProviderEventStatus::InvalidJson]).clone(),
                event_name: ojtext(r),
                data: if r.chance(1, 2) { Some(json!({"a": [1, "x"]})) } else { None },
                raw: ojtext(r),
                errors: err_list(if r.chance(1, 2) { r.range(1, 4) } else { 0 }, "x"),
                response_errors: err_list(if r.chance(1, 2) { r.range(1, 4) } else { 0 }, "y\"\n"),
            },
            12 => EventKind::ToolFailed { tool_id: tid(r.below(3)), error: jtext(r) },
            13 => EventKind::ToolStdout { tool_id: tid(0), chunk: jtext(r) },
            14 => EventKind::ToolStderr { tool_id: tid(0), chunk: jtext(r) },
            _ => other_kind(r.below(26 * 6)),
        };
        let e = Event { id: format!("{i}"), session_id: "s".into(), timestamp_ms: ts, seq: r.below(9), kind };
        if junk_ok && r.chance(1, 10) {
            out.push(VLine::Junk(junk_line(r, &e)));
        }
        let fmt = *r.pick(&[0u8, 0, 0, 1, 2, 3]);
        out.push(VLine::Frame(e, fmt));
    }
    if r.chance(1, 2) {
        let e = Event { id: "end".into(), session_id: "s".into(), timestamp_ms: ts.saturating_add(r.range(0, 50)), seq: 99, kind: EventKind::SessionEnded { reason: jtext(r) } };
        let at = r.range(0, out.len() as u64) as usize;
        out.insert(at, VLine::Frame(e, *r.pick(&[0u8, 1, 2])));
    }
    out
}
fn vcase_json(ls: &[VLine]) -> serde_json::Value {
    json!({"lines": ls.iter().map(|l| l.text()).collect::<Vec<_>>()})
}

const METRICS_KEYS: [&str; 10] = ["e2e_ms", "openresponses", "provider_errors", "provider_invalid_json", "provider_response_errors", "session_end_reason", "session_ended_ms", "session_started_ms", "tool_failed", "ttft_ms"];

/// The independent oracle on what the real binary printed for one stream (no model involved).
fn views_oracle(ls: &[VLine], v: &[ViewOut]) -> Option<(String, String)> {
    // where the caller's loop must end: the first line that is no frame, or the first session_ended
    let mut want = (0u64, ls.len() as u64);
    for (i, l) in ls.iter().enumerate() {
        match l {
            VLine::Junk(_) => {
                want = (2, i as u64);
                break;
            }
            VLine::Frame(e, _) if matches!(e.kind, EventKind::SessionEnded { .. }) => {
                want = (1, i as u64);
                break;
            }
            _ => {}
        }
    }
    for (name, o) in ["raw", "output", "metrics"].iter().zip(v) {
        if (o.end, o.idx) != want {
            return Some((format!("{name} view ended with {:?} at line {}, the stream ends with {:?} at line {}", o.end, o.idx, want.0, want.1), "headless_wrong_stop".into()));
        }
        if o.end == 2 && !o.errmsg.starts_with("invalid event frame:") {
            return Some((format!("{name} view failed with {:?}", o.errmsg), "headless_crash".into()));
        }
    }
    // raw view: exactly the lines it was given, each followed by a newline
    let upto = if want.0 == 1 { want.1 as usize + 1 } else { want.1 as usize };
    let mut expect: Vec<u8> = vec![];
    for l in &ls[..upto] {
        expect.extend_from_slice(l.text().as_bytes());
        expect.push(b'\n');
    }
    if v[0].bytes != expect {
        return Some(("raw view did not pass the frame lines through unchanged".into(), "raw_not_identity".into()));
    }
    // metrics view: nothing until the end frame, then one JSON object with the ten keys
    if want.0 != 1 {
        if !v[2].bytes.is_empty() {
            return Some(("metrics view wrote before session_ended".into(), "metrics_shape".into()));
        }
    } else {
        let ok = std::str::from_utf8(&v[2].bytes).ok().filter(|t| t.ends_with('\n') && t.matches('\n').count() == 1).and_then(|t| serde_json::from_str::<serde_json::Value>(t).ok()).and_then(|j| j.as_object().map(|o| o.keys().map(|k| k.as_str()).collect::<Vec<_>>() == METRICS_KEYS.to_vec())).unwrap_or(false);
        if !ok {
            return Some(("metrics view did not write one JSON object with the ten metric keys".into(), "metrics_shape".into()));
        }
    }
    None
}

// ---------------------------------------------------------------- summary.rs (event_type / event_summary)
fn stext(r: &mut Rng, lim: u64) -> String {
    const ALPH: [&str; 22] = ["a", "b", "Z", " ", "\"", "\\", "\n", "\r", "\t", "\0", "\u{1b}", "\u{7f}", "'", "é", "€", "😀", "\u{a0}", "\u{200b}", "\u{301}", "\u{10ffff}", "\u{ad}", "中"];
    let n = match r.below(9) {
        0 => 0,
        1 => 1,
        2 => lim - 1,
        3 | 4 => lim,
        5 => lim + 1,
        6 => lim + 2,
        7 => r.range(0, lim + 8),
        _ => lim * 2 + 3,
    };
    let homog = r.chance(1, 3);
    let unit = *r.pick(&ALPH[..]);
    (0..n).map(|_| if homog { unit } else { *r.pick(&ALPH[..]) }).collect()
}
fn ostext(r: &mut Rng, lim: u64) -> Option<String> {
    match r.below(4) {
        0 => None,
        1 => Some(String::new()),
        _ => Some(stext(r, lim)),
    }
}
fn num(r: &mut Rng) -> u64 {
    *r.pick(&[0u64, 1, 9, 10, 99, 100, 12345, 1 << 32, 1 << 63, u64::MAX - 1, u64::MAX, 9_999_999_999_999_999_999, 10_000_000_000_000_000_000])
}
const N_KINDS: u64 = 38;
/// A frame of kind number `tag` (constructor order of Model/Summary.v = match order of summary.rs) and its model term.
fn gen_summary(r: &mut Rng, tag: u64) -> (EventKind, String) {
    let cs = |s: &str| coq_str(s);
    let s16 = |r: &mut Rng| stext(r, 16);
    let x = || "x".to_string();
    match tag {
        0 => {
            let s = stext(r, 64);
            (EventKind::SessionStarted { input: s.clone() }, format!("SSessionStarted {}", cs(&s)))
        }
        1 => {
            let s = stext(r, 64);
            (EventKind::OutputTextDelta { delta: s.clone() }, format!("SOutputTextDelta {}", cs(&s)))
        }
        2 => {
            let s = stext(r, 64);
            (EventKind::SessionEnded { reason: s.clone() }, format!("SSessionEnded {}", cs(&s)))
        }
        3 => {
            let w = stext(r, 64);
            let t = ostext(r, 64);
            (EventKind::ContinuityCreated { workspace: w.clone(), title: t.clone() }, format!("SContinuityCreated {} {}", cs(&w), coq_ostr(&t)))
        }
        4 => {
            let s = stext(r, 64);
            (EventKind::ContinuityMessageAppended { actor_id: x(), origin: x(), content: s.clone() }, format!("SContinuityMessageAppended {}", cs(&s)))
        }
        5 => {
            let s = s16(r);
            (EventKind::ContinuityRunSpawned { run_session_id: s.clone(), message_id: stext(r, 16), actor_id: None, origin: None }, format!("SContinuityRunSpawned {}", cs(&s)))
        }
        6 => {
            let run = s16(r);
            let st = stext(r, 32);
            let ck = if r.chance(1, 2) { Some(num(r)) } else { None };
            let nres = r.below(4);
            let resets = (0..nres).map(|_| rip_kernel::ContextSelectionResetV1 { input: x(), action: x(), reason: x(), ref_: None }).collect();
            (
                EventKind::ContinuityContextSelectionDecided {
                    run_session_id: run.clone(),
                    message_id: x(),
                    compiler_id: x(),
                    compiler_strategy: st.clone(),
                    limits: json!({}),
                    compaction_checkpoint: ck.map(|to_seq| rip_kernel::ContextSelectionCompactionCheckpointV1 { checkpoint_id: x(), summary_kind: x(), summary_artifact_id: x(), to_seq }),
                    compaction_checkpoints: vec![],
                    resets,
                    reason: None,
                    actor_id: x(),
                    origin: x(),
                },
                format!("SContinuityContextSelectionDecided {} {} {} {}", cs(&run), cs(&st), coq_opt(&ck, |n| coq_n(*n)), nres),
            )
        }
        7 => {
            let (run, b, st) = (s16(r), s16(r), stext(r, 32));
            (
                EventKind::ContinuityContextCompiled { run_session_id: run.clone(), bundle_artifact_id: b.clone(), compiler_id: x(), compiler_strategy: st.clone(), from_seq: num(r), from_message_id: None, actor_id: x(), origin: x() },
                format!("SContinuityContextCompiled {} {} {}", cs(&run), cs(&b), cs(&st)),
            )
        }
        8 => {
            let (p, a) = (s16(r), s16(r));
            let prev = s16(r);
            let (cursor, model): (Option<serde_json::Value>, Option<String>) = match r.below(7) {
                0 => (None, None),
                1 => (Some(json!({})), Some(String::new())),
                2 => (Some(json!({"previous_response_id": 5})), Some(String::new())),
                3 => (Some(json!("previous_response_id")), Some(String::new())),
                4 => (Some(serde_json::Value::Null), Some(String::new())),
                _ => (Some(json!({"previous_response_id": prev.clone(), "other": 1})), Some(prev.clone())),
            };
            (
                EventKind::ContinuityProviderCursorUpdated { provider: p.clone(), endpoint: None, model: None, cursor, action: a.clone(), reason: None, run_session_id: None, actor_id: x(), origin: x() },
                format!("SContinuityProviderCursorUpdated {} {} {}", cs(&p), cs(&a), coq_ostr(&model)),
            )
        }
        9 => {
            let (c, su, ru) = (s16(r), s16(r), stext(r, 32));
            let to = num(r);
            (
                EventKind::ContinuityCompactionCheckpointCreated { checkpoint_id: c.clone(), cut_rule_id: ru.clone(), summary_kind: x(), summary_artifact_id: su.clone(), from_seq: num(r), from_message_id: None, to_seq: to, to_message_id: None, actor_id: x(), origin: x() },
                format!("SContinuityCompactionCheckpointCreated {} {} {} {}", cs(&c), to, cs(&su), cs(&ru)),
            )
        }
        10 => {
            let (po, de) = (stext(r, 32), stext(r, 32));
            let job = ostext(r, 16);
            (
                EventKind::ContinuityCompactionAutoScheduleDecided { decision_id: x(), policy_id: po.clone(), decision: de.clone(), execute: true, stride_messages: 0, max_new_checkpoints: 1, block_on_inflight: false, message_count: 3, cut_rule_id: x(), planned: vec![], job_id: job.clone(), job_kind: None, reason: None, actor_id: x(), origin: x() },
                format!("SContinuityCompactionAutoScheduleDecided {} {} {}", cs(&po), cs(&de), coq_ostr(&job)),
            )
        }
        11 => {
            let (jk, ji) = (stext(r, 32), s16(r));
            (EventKind::ContinuityJobSpawned { job_id: ji.clone(), job_kind: jk.clone(), details: None, actor_id: x(), origin: x() }, format!("SContinuityJobSpawned {} {}", cs(&jk), cs(&ji)))
        }
        12 => {
            let (jk, ji, st) = (stext(r, 32), s16(r), stext(r, 32));
            (
                EventKind::ContinuityJobEnded { job_id: ji.clone(), job_kind: jk.clone(), status: st.clone(), result: None, error: ostext(r, 16), actor_id: x(), origin: x() },
                format!("SContinuityJobEnded {} {} {}", cs(&jk), cs(&ji), cs(&st)),
            )
        }
        13 => {
            let (run, re) = (s16(r), stext(r, 32));
            (EventKind::ContinuityRunEnded { run_session_id: run.clone(), message_id: x(), reason: re.clone(), actor_id: None, origin: None }, format!("SContinuityRunEnded {} {}", cs(&run), cs(&re)))
        }
        14 => {
            let (run, tool) = (s16(r), stext(r, 32));
            let np = if r.chance(1, 3) { None } else { Some(r.below(12)) };
            (
                EventKind::ContinuityToolSideEffects { run_session_id: run.clone(), tool_id: x(), tool_name: tool.clone(), affected_paths: np.map(|n| (0..n).map(|i| format!("p{i}")).collect()), checkpoint_id: None, actor_id: x(), origin: x() },
                format!("SContinuityToolSideEffects {} {} {}", cs(&run), cs(&tool), coq_opt(&np, |n| coq_n(*n))),
            )
        }
        15 => {
            let (p, q) = (s16(r), num(r));
            (EventKind::ContinuityBranched { parent_thread_id: p.clone(), parent_seq: q, parent_message_id: None, actor_id: x(), origin: x() }, format!("SContinuityBranched {} {}", cs(&p), q))
        }
        16 => {
            let (p, q) = (s16(r), num(r));
            (
                EventKind::ContinuityHandoffCreated { from_thread_id: p.clone(), from_seq: q, from_message_id: None, summary_artifact_id: None, summary_markdown: ostext(r, 16), actor_id: x(), origin: x() },
                format!("SContinuityHandoffCreated {} {}", cs(&p), q),
            )
        }
        17 => {
            let s = stext(r, 64);
            (EventKind::ToolStarted { tool_id: x(), name: s.clone(), args: json!({"a": 1}), timeout_ms: None }, format!("SToolStarted {}", cs(&s)))
        }
        18 => {
            let s = stext(r, 64);
            (EventKind::ToolStdout { tool_id: x(), chunk: s.clone() }, format!("SToolStdout {}", cs(&s)))
        }
        19 => {
            let s = stext(r, 64);
            (EventKind::ToolStderr { tool_id: x(), chunk: s.clone() }, format!("SToolStderr {}", cs(&s)))
        }
        20 => {
            let c = *r.pick(&[0i32, 1, -1, 42, i32::MIN, i32::MAX, -255, 10, -10]);
            (EventKind::ToolEnded { tool_id: x(), exit_code: c, duration_ms: num(r), artifacts: None }, format!("SToolEnded {} {}", coq_bool(c < 0), (c as i64).unsigned_abs()))
        }
        21 => {
            let s = stext(r, 64);
            (EventKind::ToolFailed { tool_id: x(), error: s.clone() }, format!("SToolFailed {}", cs(&s)))
        }
        22 => {
            let st = r.below(3);
            let name = ostext(r, 64);
            let (ne, nr) = (if r.chance(1, 2) { 0 } else { r.range(1, 12) }, if r.chance(1, 2) { 0 } else { r.range(1, 3) });
            (
                EventKind::ProviderEvent {
                    provider: x(),
                    status: [ProviderEventStatus::Event, ProviderEventStatus::Done, ProviderEventStatus::InvalidJson][st as usize].clone(),
                    event_name: name.clone(),
                    data: None,
                    raw: None,
                    errors: (0..ne).map(|i| format!("e{i}")).collect(),
                    response_errors: (0..nr).map(|i| format!("r{i}")).collect(),
                },
                format!("SProviderEvent {} {} {} {}", st, coq_ostr(&name), ne, nr),
            )
        }
        23 => {
            let m = ostext(r, 40);
            let (i, b, t, tr) = (num(r), num(r), num(r), r.chance(1, 2));
            (
                EventKind::OpenResponsesRequest { endpoint: x(), model: m.clone(), request_index: i, kind: x(), body_artifact_id: x(), body_bytes: b, total_bytes: t, truncated: tr },
                format!("SOpenResponsesRequest {} {} {} {} {}", i, coq_ostr(&m), b, t, coq_bool(tr)),
            )
        }
        24 => {
            let m = ostext(r, 40);
            let i = num(r);
            (EventKind::OpenResponsesRequestStarted { endpoint: x(), model: m.clone(), request_index: i, kind: x() }, format!("SOpenResponsesRequestStarted {} {}", i, coq_ostr(&m)))
        }
        25 => {
            let rid = ostext(r, 16);
            let (i, st) = (num(r), *r.pick(&[0u16, 7, 200, 404, 599, u16::MAX]));
            (EventKind::OpenResponsesResponseHeaders { request_index: i, status: st, request_id: rid.clone(), content_type: None }, format!("SOpenResponsesResponseHeaders {} {} {}", i, st, coq_ostr(&rid)))
        }
        26 => {
            let i = num(r);
            (EventKind::OpenResponsesResponseFirstByte { request_index: i }, format!("SOpenResponsesResponseFirstByte {i}"))
        }
        27 => {
            let s = stext(r, 64);
            (EventKind::CheckpointCreated { checkpoint_id: x(), label: s.clone(), created_at_ms: 1, files: vec![], auto: false, tool_name: None }, format!("SCheckpointCreated {}", cs(&s)))
        }
        28 => {
            let s = stext(r, 64);
            (EventKind::CheckpointRewound { checkpoint_id: x(), label: s.clone(), files: vec![] }, format!("SCheckpointRewound {}", cs(&s)))
        }
        29 => {
            let s = stext(r, 64);
            (EventKind::CheckpointFailed { action: rip_kernel::CheckpointAction::Rewind, error: s.clone() }, format!("SCheckpointFailed {}", cs(&s)))
        }
        30 => {
            let s = stext(r, 64);
            (
                EventKind::ToolTaskSpawned { task_id: x(), tool_name: s.clone(), args: json!({}), cwd: None, title: None, execution_mode: ToolTaskExecutionMode::Pty, origin_session_id: None, artifacts: None },
                format!("SToolTaskSpawned {}", cs(&s)),
            )
        }
        31 => {
            let st = r.below(5);
            (EventKind::ToolTaskStatus { task_id: x(), status: task_status(st), exit_code: None, started_at_ms: None, ended_at_ms: None, artifacts: None, error: None }, format!("SToolTaskStatus {st}"))
        }
        32 => {
            let s = stext(r, 64);
            (EventKind::ToolTaskCancelRequested { task_id: x(), reason: s.clone() }, format!("SToolTaskCancelRequested {}", cs(&s)))
        }
        33 => {
            let s = stext(r, 64);
            (EventKind::ToolTaskCancelled { task_id: x(), reason: s.clone(), wall_time_ms: None }, format!("SToolTaskCancelled {}", cs(&s)))
        }
        34 => {
            let s = stext(r, 64);
            (EventKind::ToolTaskOutputDelta { task_id: x(), stream: ToolTaskStream::Pty, chunk: s.clone(), artifacts: None }, format!("SToolTaskOutputDelta {}", cs(&s)))
        }
        35 => {
            let s = stext(r, 64);
            (EventKind::ToolTaskStdinWritten { task_id: x(), chunk_b64: s.clone() }, format!("SToolTaskStdinWritten {}", cs(&s)))
        }
        36 => {
            let (a, b) = (*r.pick(&[0u16, 1, 24, 999, u16::MAX]), *r.pick(&[0u16, 80, u16::MAX]));
            (EventKind::ToolTaskResized { task_id: x(), rows: a, cols: b }, format!("SToolTaskResized {a} {b}"))
        }
        _ => {
            let s = stext(r, 64);
            (EventKind::ToolTaskSignalled { task_id: x(), signal: s.clone() }, format!("SToolTaskSignalled {}", cs(&s)))
        }
    }
}
/// kinds whose summary is a field copied verbatim (no truncation in summary.rs)
fn summary_is_verbatim(k: &EventKind) -> bool {
    match k {
        EventKind::ToolStarted { .. } | EventKind::ToolTaskSpawned { .. } | EventKind::ToolTaskSignalled { .. } => true,
        EventKind::ProviderEvent { status, event_name, errors, response_errors, .. } => *status == ProviderEventStatus::Event && event_name.is_some() && errors.is_empty() && response_errors.is_empty(),
        _ => false,
    }
}
/// code points >= 128 of the frame's text that std's `{:?}` writes as \u{..} (read off the running std)
fn unprintable(e: &Event) -> Vec<u64> {
    let t = serde_json::to_string(e).unwrap();
    let mut v: Vec<u64> = t.chars().filter(|c| (*c as u32) >= 128 && c.escape_debug().count() > 1).map(|c| c as u64).collect();
    v.sort();
    v.dedup();
    v
}

fn gen_text(r: &mut Rng, big: bool) -> String {
    const ALPH: [&str; 12] = ["a", "b", " ", "\n", "é", "€", "😀", "\u{a0}", "\u{2003}", "\u{200b}", "x", "\u{10ffff}"];
    let n = if big { r.range(2000, 9000) } else { *r.pick(&[0, 0, 1, 1, 2, 3, 5, 9, 17]) };
    let mut s = String::new();
    if big {
        let unit = *r.pick(&["a", "é", "€", "😀"]);
        let odd = r.chance(1, 2);
        if odd {
            s.push('z');
        }
        // a line break near the start or somewhere inside a long run: a cut that is moved to a line start
        // (instead of the computed byte position) keeps far more than the cap
        let nl_at = match r.below(4) {
            0 => Some(0u64),
            1 => Some(r.below(n.max(1))),
            _ => None,
        };
        if nl_at == Some(0) {
            s.push_str("hdr\n");
        }
        let mut placed = false;
        while (s.len() as u64) < n {
            if let Some(k) = nl_at {
                if !placed && k > 0 && s.len() as u64 >= k {
                    s.push('\n');
                    placed = true;
                }
            }
            s.push_str(unit);
        }
        return s;
    }
    for _ in 0..n {
        s.push_str(*r.pick(&ALPH[..]));
    }
    s
}
fn gen_ws(r: &mut Rng) -> String {
    const WS: [&str; 7] = [" ", "\t", "\n", "\u{a0}", "\u{2003}", "\u{3000}", "\u{85}"];
    let n = r.range(0, 4);
    (0..n).map(|_| *r.pick(&WS[..])).collect()
}

fn gen_case(r: &mut Rng, long: bool) -> Case {
    // capacity settings are in the property's quantifier: tiny windows, and windows no run will ever fill ("no limit"
    // spelled usize::MAX, isize::MAX, 2^62, a million) - a store that reserves or indexes by the configured size fails there
    let max_frames = if r.chance(1, 8) { *r.pick(&[1_000_000u64, 1 << 62, u64::MAX / 2, u64::MAX]) } else { *r.pick(&[0u64, 1, 2, 3, 3, 5, 8, 40]) };
    let max_out = if r.chance(1, 10) { *r.pick(&[8192u64, 10_000, 1 << 20, 1 << 62, u64::MAX]) } else { *r.pick(&[0u64, 1, 2, 3, 5, 7, 16, 33, 64, 1000]) };
    let af = r.chance(3, 4);
    let n = if long { r.range(20, 60) } else { r.range(0, 14) };
    let mode = r.below(5); // 0 consecutive, 1 gaps, 2 repeats/arbitrary, 3 huge, 4 decreasing
    let mut seq: u64 = *r.pick(&[0u64, 0, 1, 7, 1000, u64::MAX - 3]);
    let mut evs = vec![];
    let big_budget = if r.chance(1, 6) { 3 } else { 0 };
    let idspace = *r.pick(&[3u64, 3, 3, 3, 8, 40]);
    // frame timestamps are in the property's quantifier: past, far past, and ahead of any local clock (a fold that
    // consults the wall clock - clamping, ageing - differs from the model there and from its own second run)
    let ts_base = *r.pick(&[1000u64, 1000, 0, 1 << 45, 1 << 62, u64::MAX - 100_000]);
    let mut bigs = 0;
    for i in 0..n {
        let s = match mode {
            0 => seq,
            1 => {
                if r.chance(1, 3) {
                    seq = seq.saturating_add(r.range(1, 5));
                }
                seq
            }
            2 => r.below(6),
            3 => *r.pick(&[0, 1, u64::MAX, u64::MAX - 1, 1 << 63, 5]),
            _ => seq,
        };
        let big = bigs < big_budget && r.chance(1, 3);
        if big {
            bigs += 1;
        }
        let id = r.below(idspace);
        let arts = |r: &mut Rng| -> Vec<u64> { (0..*r.pick(&[0u64, 0, 1, 1, 2, 4])).map(|_| *r.pick(&[0u64, 1, 2, 3, 4, 5, 6, 255, 256, u64::MAX])).collect() };
        let k = match r.below(25) {
            0 => K::SessionStarted(if r.chance(1, 3) { gen_ws(r) } else { gen_text(r, false) }),
            1 | 2 | 3 => K::OutputDelta(gen_text(r, false)),
            4 => K::SessionEnded,
            5 => K::ToolStarted(id),
            6 => K::ToolStdout(id, gen_text(r, big)),
            7 => K::ToolStderr(id, gen_text(r, big)),
            8 => K::ToolEnded(id, arts(r)),
            9 => K::ToolFailed(id),
            10 => K::TaskSpawned(id, arts(r)),
            11 => K::TaskStatus(id, r.below(5), arts(r)),
            12 => K::TaskDelta(id, r.below(3), gen_text(r, big), arts(r)),
            13 => K::CheckpointFailed,
            14 => K::ProviderEvent(r.chance(1, 4), if r.chance(1, 3) { r.range(1, 4) } else { 0 }, if r.chance(1, 3) { r.range(1, 4) } else { 0 }, r.chance(3, 4)),
            17 => K::ContextSelecting,
            18 => K::ContextCompiled(*r.pick(&[0u64, 1, 2, 7, u64::MAX])),
            19 => K::CkptCreated(*r.pick(&[0u64, 3, 8])),
            20 => K::OrRequest(*r.pick(&[0u64, 4, 9])),
            21 => K::OrRequestStarted,
            22 => K::OrResponseHeaders,
            23 => K::OrResponseFirstByte,
            15 => K::JobSpawned(id),
            16 => K::JobEnded(id),
            _ => K::Other(r.below(26 * 6)),
        };
        evs.push(Ev { seq: s, ts: ts_base + i * 3 + r.below(3), k, ident: i });
        seq = if mode == 4 { seq.saturating_sub(1) } else { seq.saturating_add(1) };
    }
    let mut probes: Vec<u64> = vec![0, 1, 2, 3, 4, 5, 6, u64::MAX];
    for e in &evs {
        probes.push(e.seq);
        probes.push(e.seq.wrapping_add(1));
    }
    probes.sort();
    probes.dedup();
    if probes.len() > 24 {
        let keep: Vec<u64> = (0..24).map(|_| *r.pick(&probes)).collect();
        probes = keep;
    }
    Case { max_frames, max_out, af, evs, probes }
}

fn nontrivial(c: &Case) -> bool {
    // non-trivial: some eviction, truncation or non-consecutive seq is exercised
    let evict = c.evs.len() as u64 > c.max_frames.max(1);
    let noncons = c.evs.windows(2).any(|w| w[1].seq != w[0].seq.wrapping_add(1));
    let text: u64 = c.evs.iter().map(|e| match &e.k { K::OutputDelta(s) | K::SessionStarted(s) => s.len() as u64, _ => 0 }).sum();
    evict || noncons || text > c.max_out
}

fn case_json(c: &Case) -> serde_json::Value {
    json!({"max_frames": c.max_frames, "max_out": c.max_out, "auto_follow": c.af,
           "events": c.evs.iter().map(|e| json!({"seq": e.seq, "ts": e.ts, "ident": e.ident, "kind": format!("{:?}", e.k).chars().take(120).collect::<String>()})).collect::<Vec<_>>(),
           "probes": c.probes})
}

fn corpus() -> Vec<Case> {
    // S14 witness and neighbours: always run first
    let e = |seq, ident| Ev { seq, ts: 1, k: K::Other(0), ident };
    vec![
        Case { max_frames: 10, max_out: 100, af: true, evs: vec![e(0, 0), e(5, 1)], probes: vec![0, 1, 4, 5, 6] },
        Case { max_frames: 2, max_out: 100, af: false, evs: vec![e(3, 0), e(3, 1), e(3, 2)], probes: vec![3, 4, 5] },
        Case { max_frames: 2, max_out: 100, af: true, evs: vec![e(u64::MAX, 0), e(u64::MAX, 1), e(0, 2)], probes: vec![0, u64::MAX, u64::MAX - 1] },
        // S18 witness: running tool + error chip on a 20-column canvas cut the chips line inside a glyph
        Case { max_frames: 10, max_out: 100, af: true, evs: vec![Ev { seq: 0, ts: 1, k: K::ToolStarted(0), ident: 0 }, Ev { seq: 1, ts: 2, k: K::CheckpointFailed, ident: 1 }], probes: vec![0, 1] },
    ]
    .into_iter()
    .chain(preview_overflow_cases())
    .collect()
}

/// Previews (tool stdout/stderr, task stdout/stderr/pty) are capped at 8192 bytes by keeping a suffix cut on a char
/// boundary.  These cases overflow the cap with line breaks at chosen distances before the cut, in one chunk and
/// accumulated over several, with 1-4-byte units straddling the cut: a cut moved to a line start, a char or any other
/// "nicer" position keeps more than the cap.
fn preview_overflow_cases() -> Vec<Case> {
    // kept small (each case <= ~20 000 code points): the cases are list literals that Coq has to parse
    let mut out = vec![];
    let mut ident = 0u64;
    let mut ev = |seq: u64, k: K| {
        ident += 1;
        Ev { seq, ts: 1 + seq, k, ident }
    };
    let variants: [(&str, &str, usize, usize, u64); 8] = [
        ("a", "hdr\n", 9000, 1, 0),
        ("a", "x\n", 12_000, 1, 1),
        ("€", "", 8190, 3, 2),
        ("a", "line1\nline2\n", 8200, 2, 0),
        ("é", "\n", 8192, 1, 1),
        ("a", "ab\n", 8193, 4, 2),
        ("😀", "h\n", 8400, 2, 0),
        ("a", "", 8100, 1, 1),
    ];
    for (vi, (unit, head, tail_bytes, pieces, stream)) in variants.iter().enumerate() {
        let mut body = String::from(*head);
        while body.len() < head.len() + tail_bytes {
            body.push_str(unit);
        }
        let chars: Vec<char> = body.chars().collect();
        let per = (chars.len() / pieces).max(1);
        let chunks: Vec<String> = chars.chunks(per).map(|c| c.iter().collect()).collect();
        let id = vi as u64 % 3;
        let mut evs = vec![];
        let mut seq = 0;
        if vi % 2 == 0 {
            evs.push(ev(seq, K::ToolStarted(id)));
            seq += 1;
            for (ci, c) in chunks.iter().enumerate() {
                evs.push(ev(seq, if (ci + vi / 2) % 2 == 0 { K::ToolStdout(id, c.clone()) } else { K::ToolStderr(id, c.clone()) }));
                seq += 1;
            }
            if vi % 4 == 2 {
                // a second overflow right after a newline-terminated chunk (the state is only looked at after the
                // last frame, so the other cases END on the overflowing chunk)
                evs.push(ev(seq, K::ToolStdout(id, format!("{}\n", unit.repeat(20)))));
                seq += 1;
                evs.push(ev(seq, K::ToolStdout(id, unit.repeat(600 / unit.len()))));
            } else {
                seq -= 1;
            }
        } else {
            evs.push(ev(seq, K::TaskSpawned(id, vec![])));
            seq += 1;
            for c in chunks.iter() {
                evs.push(ev(seq, K::TaskDelta(id, *stream, c.clone(), vec![])));
                seq += 1;
            }
            if vi % 4 == 3 {
                evs.push(ev(seq, K::TaskDelta(id, *stream, format!("{}\n{}", unit.repeat(20), unit.repeat(600 / unit.len())), vec![])));
            } else {
                seq -= 1;
            }
        }
        // the previews have their own cap (8192), whatever the canvas capacity is: small, just above it, the default, huge
        let max_out = [64u64, 20_000, 1 << 20, 64, 9000, 1 << 20, 64, 8192][vi];
        out.push(Case { max_frames: 40, max_out, af: true, evs, probes: vec![0, 1, seq] });
    }
    out
}

fn main() {
    let a = parse_args();
    let mut res = RunResult::new("C20", &a);
    res.rule = "cases = (capacities, frame sequence, probe seqs) from a seeded generator over 5 seq regimes (consecutive, gaps, repeats, extreme, decreasing) and 16 frame kinds incl. multi-byte and >8 KiB chunks and up to 40 distinct tool/task/job ids; non-trivial = exercises eviction, truncation or non-consecutive seqs; distinct by hash of the canonical case.  Plus: frame streams for the three headless views of the real rip binary (timing frames, two providers, failures, several ends, lines that are no frames, four JSON layouts), and one frame per summary case over all 38 kinds with values around the 16/32/40/64-character cuts".into();
    let thorough = a.tier == "thorough";
    let n = if thorough { 6000 } else { 700 };
    let n_views = if thorough { 3000 } else { 260 };
    let n_summary = if thorough { 38 * 120 } else { 38 * 14 };
    let mut r = Rng::new(a.seed);
    let mut w = CaseWriter::new(&a.out, "Model.Tui", "check_case", "model_obs", 100);
    let mut wh = CaseWriter::new(&a.out.join("headless"), "Model.Headless", "check_case", "model_obs", 100).with_base(1_000_000);
    let mut wv = CaseWriter::new(&a.out.join("views"), "Model.Views", "check_case", "model_obs", 60).with_base(2_000_000);
    let mut ws = CaseWriter::new(&a.out.join("summary"), "Model.Summary", "check_case", "model_obs", 150).with_base(3_000_000);
    let have_rip = rip_bin().exists();
    if !have_rip {
        res.notes.push(format!("rip binary not found at {} — headless renderers not exercised", rip_bin().display()));
    }
    let mut distinct = Distinct::default();
    let mut all: Vec<Case> = corpus();
    for i in 0..n {
        all.push(gen_case(&mut r, i % 10 == 9));
    }
    // frame streams for the headless views: (case id in the report, lines)
    let mut streams: Vec<(i64, Vec<VLine>, serde_json::Value)> = vec![];
    let mut sized = 0;
    for (i, c) in all.iter().enumerate() {
        if i % (if thorough { 8 } else { 4 }) == 0 || i < 4 {
            let c3 = c.clone();
            res.oracle_checks += 1;
            res.bump("render_passes");
            match std::panic::catch_unwind(move || (render_all(&c3, i / 4), render_all(&c3, i / 4))) {
                Err(_) => res.oracle_violations.push(OracleViolation { case_id: i as i64, what: "rip_tui::render panicked".into(), class: "render_panic".into(), replay: case_json(c) }),
                Ok((Err(e), _)) | Ok((_, Err(e))) => res.oracle_violations.push(OracleViolation { case_id: i as i64, what: format!("rip_tui::render wrote outside its frame area: {e}"), class: "render_outside_area".into(), replay: case_json(c) }),
                Ok((Ok(a1), Ok(a2))) => {
                    if a1 != a2 {
                        res.oracle_violations.push(OracleViolation { case_id: i as i64, what: "rip_tui::render gave two different screens for the same state".into(), class: "render_nondeterministic".into(), replay: case_json(c) });
                    }
                }
            }
        }
        // all terminal sizes 0x0..200x60 on a sample: the S18 witness in full, some generated states on a grid
        let step = if i == 3 { 1 } else if i >= 4 && i % 97 == 5 && !c.evs.is_empty() { if thorough { 1 } else { 3 } } else { 0 };
        if step > 0 && sized < if thorough { 12 } else { 5 } {
            sized += 1;
            let c3 = c.clone();
            res.oracle_checks += 1;
            match std::panic::catch_unwind(move || render_sizes(&c3, step)) {
                Err(_) => res.oracle_violations.push(OracleViolation { case_id: i as i64, what: "rip_tui::render panicked at some terminal size in 0x0..200x60".into(), class: "render_panic".into(), replay: case_json(c) }),
                Ok(Err(e)) => res.oracle_violations.push(OracleViolation { case_id: i as i64, what: format!("rip_tui::render wrote outside its frame area: {e}"), class: "render_outside_area".into(), replay: case_json(c) }),
                Ok(Ok(k)) => res.bump_by("render_sizes", k),
            }
        }
        if have_rip && (i % 3 == 1 || i < 4) && c.evs.iter().all(|e| match &e.k { K::ToolStdout(_, s) | K::ToolStderr(_, s) | K::TaskDelta(_, _, s, _) => s.len() < 500, _ => true }) {
            streams.push((i as i64, c.evs.iter().map(|e| VLine::Frame(to_event(e), 0)).collect(), case_json(c)));
        }
        let c2 = c.clone();
        let got = std::panic::catch_unwind(move || {
            let o1 = run_impl(&c2);
            let o2 = run_impl(&c2);
            (o1, o2)
        });
        res.evaluations += 1;
        res.oracle_checks += 1;
        res.bump(&format!("max_frames={}", c.max_frames));
        if c.evs.iter().any(|e| matches!(&e.k, K::ToolEnded(_, a) | K::TaskSpawned(_, a) | K::TaskStatus(_, _, a) | K::TaskDelta(_, _, _, a) if !a.is_empty())) {
            res.bump("carries_artifact_ids");
        }
        res.bump(&format!("events={}", match c.evs.len() { 0 => "0", 1..=5 => "1-5", 6..=14 => "6-14", _ => "15+" }));
        match got {
            Err(_) => {
                res.impl_panics += 1;
                res.oracle_violations.push(OracleViolation { case_id: i as i64, what: "TuiState::update / accessors panicked".into(), class: "panic".into(), replay: case_json(c) });
            }
            Ok((o1, o2)) => {
                if o1.enc != o2.enc {
                    res.oracle_violations.push(OracleViolation { case_id: i as i64, what: "same frames gave two different states".into(), class: "nondeterministic".into(), replay: case_json(c) });
                }
                if let Some((what, class)) = o1.oracle_fail {
                    // shrink the event list while the same class keeps failing
                    let base = c.clone();
                    let cls = class.clone();
                    let evs = shrink_vec(c.evs.clone(), |evs| {
                        let mut cc = base.clone();
                        cc.evs = evs.to_vec();
                        std::panic::catch_unwind(|| run_impl(&cc)).map(|o| o.oracle_fail.map(|f| f.1) == Some(cls.clone())).unwrap_or(false)
                    });
                    let mut cc = c.clone();
                    cc.evs = evs;
                    res.oracle_violations.push(OracleViolation { case_id: i as i64, what, class, replay: case_json(&cc) });
                }
                if !a.oracle_only() {
                    let id = w.push(coq_case(c, &o1.enc));
                    if res.case_index.len() < 4000 {
                        res.case_index.insert(id.to_string(), case_json(c));
                    }
                }
                if nontrivial(c) && distinct.add(&format!("{:?}", c)) {}
            }
        }
        if res.samples.len() < 3 && nontrivial(c) && i >= 3 {
            res.samples.push(case_json(c));
        }
    }

    // ---------------- headless views of the real binary: many streams per process, every batch run twice
    if have_rip {
        for j in 0..n_views {
            let ls = gen_vcase(&mut r);
            let js = vcase_json(&ls);
            streams.push((2_000_000 + j as i64, ls, js));
        }
        for chunk in streams.chunks(48) {
            let texts: Vec<Vec<String>> = chunk.iter().map(|(_, ls, _)| ls.iter().map(|l| l.text()).collect()).collect();
            let both = (run_rip_batch(&texts), run_rip_batch(&texts));
            // a batch that cannot be read back is re-run one stream per process to name the stream
            let per_stream: Vec<(Result<Vec<ViewOut>, String>, Result<Vec<ViewOut>, String>)> = match both {
                (Ok(v1), Ok(v2)) => v1.into_iter().zip(v2).map(|(x, y)| (Ok(x), Ok(y))).collect(),
                _ => texts.iter().map(|t| (run_rip_batch(std::slice::from_ref(t)).map(|mut v| v.remove(0)), run_rip_batch(std::slice::from_ref(t)).map(|mut v| v.remove(0)))).collect(),
            };
            for ((cid, ls, js), pair) in chunk.iter().zip(per_stream) {
                res.oracle_checks += 1;
                res.bump("headless_streams");
                let (v1, v2) = match pair {
                    (Ok(v1), Ok(v2)) => (v1, v2),
                    (Err(e), _) | (_, Err(e)) => {
                        res.oracle_violations.push(OracleViolation { case_id: *cid, what: format!("headless renderer crashed: {e}"), class: "headless_crash".into(), replay: js.clone() });
                        continue;
                    }
                };
                if v1 != v2 {
                    res.oracle_violations.push(OracleViolation { case_id: *cid, what: "headless renderers gave different output for the same frames".into(), class: "headless_nondeterministic".into(), replay: js.clone() });
                }
                if let Some((what, class)) = views_oracle(ls, &v1) {
                    res.oracle_violations.push(OracleViolation { case_id: *cid, what, class, replay: js.clone() });
                }
                res.bump(&format!("stream_end={}", ["exhausted", "stopped", "refused"][v1[0].end as usize % 3]));
                let (raw, out, met) = (enc_view(&v1[0]), String::from_utf8(v1[1].bytes.clone()), enc_view(&v1[2]));
                let (Some(raw), Ok(out), Some(met)) = (raw, out, met) else {
                    res.oracle_violations.push(OracleViolation { case_id: *cid, what: "a headless view wrote invalid UTF-8".into(), class: "headless_invalid_utf8".into(), replay: js.clone() });
                    continue;
                };
                if a.oracle_only() {
                    continue;
                }
                // Output view (Model/Headless.v): the frames up to the line the loop ended at
                let frames: Vec<&Event> = ls.iter().map_while(|l| match l { VLine::Frame(e, _) => Some(e), VLine::Junk(_) => None }).collect();
                let id = wh.push(format!("{{| c_frames := {}; c_expect := {} |}}", coq_list(&frames, |e| coq_hk(&e.kind)), coq_str(&out)));
                if res.case_index.len() < 6000 {
                    res.case_index.insert(id.to_string(), js.clone());
                }
                // raw + metrics views (Model/Views.v)
                let lines = coq_list(ls, |l| match l {
                    VLine::Frame(e, _) => format!("{{| l_text := {}; l_frame := Some {} |}}", coq_str(&l.text()), coq_mframe(e)),
                    VLine::Junk(t) => format!("{{| l_text := {}; l_frame := None |}}", coq_str(t)),
                });
                let id = wv.push(format!("{{| c_lines := {}; c_raw := {}; c_metrics := {} |}}", lines, coq_list_n(&raw), coq_list_n(&met)));
                if res.case_index.len() < 6000 {
                    res.case_index.insert(id.to_string(), js.clone());
                }
                if res.samples.len() < 5 && *cid >= 2_000_000 && v1[2].end == 1 {
                    res.samples.push(json!({"lines": js["lines"], "metrics_view": String::from_utf8_lossy(&v1[2].bytes)}));
                }
            }
        }
    }

    // ---------------- summary.rs: event_type / event_summary on every kind
    for j in 0..n_summary {
        let tag = j as u64 % N_KINDS;
        let (kind, term) = gen_summary(&mut r, tag);
        let mk = |seq: u64, ts: u64, id: &str, sid: &str| Event { id: id.into(), session_id: sid.into(), timestamp_ms: ts, seq, kind: kind.clone() };
        let (e1, e2) = (mk(0, 1, "e1", "s1"), mk(u64::MAX, 77, "another id €", ""));
        let cid = 3_000_000 + j as i64;
        let js = json!({"kind_number": tag, "frame": serde_json::to_value(&e1).unwrap()});
        res.oracle_checks += 1;
        res.bump("summary_frames");
        let (f1, f2) = (e1.clone(), e2.clone());
        let got = std::panic::catch_unwind(move || ((rip_tui::verif::event_type(&f1).to_string(), rip_tui::verif::event_summary(&f1)), (rip_tui::verif::event_type(&f2).to_string(), rip_tui::verif::event_summary(&f2)), rip_tui::verif::event_summary(&f1)));
        let ((ty, su), second, again) = match got {
            Ok(x) => x,
            Err(_) => {
                res.oracle_violations.push(OracleViolation { case_id: cid, what: "event_type / event_summary panicked".into(), class: "summary_panic".into(), replay: js });
                continue;
            }
        };
        if second != (ty.clone(), su.clone()) || again != su {
            res.oracle_violations.push(OracleViolation { case_id: cid, what: "event_summary depends on more than the frame's payload (seq, time, ids) or differs between two calls".into(), class: "summary_not_a_function_of_the_frame".into(), replay: js.clone() });
        }
        let tag_name = serde_json::to_value(&e1).unwrap()["type"].as_str().unwrap_or("").to_string();
        if ty != tag_name {
            res.oracle_violations.push(OracleViolation { case_id: cid, what: format!("event_type says {ty:?} for a frame whose type is {tag_name:?}"), class: "summary_wrong_type".into(), replay: js.clone() });
        }
        // the fourteen kinds that show one quoted value: the cut is after exactly 64 characters
        let quoted: Option<&String> = match &kind {
            EventKind::SessionStarted { input: v } | EventKind::OutputTextDelta { delta: v } | EventKind::SessionEnded { reason: v } | EventKind::ContinuityMessageAppended { content: v, .. } | EventKind::ToolStdout { chunk: v, .. } | EventKind::ToolStderr { chunk: v, .. } | EventKind::ToolFailed { error: v, .. } | EventKind::CheckpointCreated { label: v, .. } | EventKind::CheckpointRewound { label: v, .. } | EventKind::CheckpointFailed { error: v, .. } | EventKind::ToolTaskCancelRequested { reason: v, .. } | EventKind::ToolTaskCancelled { reason: v, .. } | EventKind::ToolTaskOutputDelta { chunk: v, .. } | EventKind::ToolTaskStdinWritten { chunk_b64: v, .. } => Some(v),
            _ => None,
        };
        if let Some(v) = quoted {
            let want = if v.chars().count() <= 64 { format!("{v:?}") } else { format!("{:?}", v.chars().take(64).collect::<String>() + "…") };
            if su != want {
                res.oracle_violations.push(OracleViolation { case_id: cid, what: format!("event_summary of a {}-character value is {su:?}, the 64-character cut gives {want:?}", v.chars().count()), class: "summary_wrong_cut".into(), replay: js.clone() });
            }
        }
        if !summary_is_verbatim(&kind) && su.chars().count() > 652 {
            res.oracle_violations.push(OracleViolation { case_id: cid, what: format!("event_summary is {} characters long", su.chars().count()), class: "summary_unbounded".into(), replay: js.clone() });
        }
        if !a.oracle_only() {
            let id = ws.push(format!("{{| c_unp := {}; c_kind := {}; c_type := {}; c_summary := {} |}}", coq_list_n(&unprintable(&e1)), term, coq_str(&ty), coq_str(&su)));
            if res.case_index.len() < 8000 {
                res.case_index.insert(id.to_string(), js);
            }
        }
    }

    w.flush();
    wh.flush();
    wv.flush();
    ws.flush();
    res.distinct_nontrivial = distinct.count();
    res.case_files = w.files.iter().chain(wh.files.iter()).chain(wv.files.iter()).chain(ws.files.iter()).map(|p| p.display().to_string()).collect();
    res.write(&a.out);
    println!("c20: {} cases, {} distinct non-trivial, {} oracle violations, {} panics", res.evaluations, res.distinct_nontrivial, res.oracle_violations.len(), res.impl_panics);
}
