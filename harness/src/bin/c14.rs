//! C14 — rewind restores exactly the checkpointed files from any later state.
//! Histories of checkpoint creates (Workspace API, ToolRunner + the real WorkspaceCheckpointHook,
//! auto-checkpoints of write / apply_patch), edits (files written, deleted, replaced by directories
//! and back, tools) and rewinds in any order, with the process cwd equal to the root, next to it and
//! above it (child processes).  Correspondence: every create / rewind vs coq/Model/Checkpoint.v
//! (result code, recorded paths + exists flags, workspace listing after).  Oracle (independent of
//! the model): after a successful rewind every covered path has the bytes / absence the harness saw
//! at create time and no other file changed; a failed rewind changes no file; an auto-checkpoint
//! precedes tool_started and covers every file the tool changed; nothing outside the root changes.
//! Oracle BY EFFECT for the auto checkpoint (`"undo": true` on a tool op): the whole workspace tree is
//! snapshotted before the tool call, after it, and after rewinding to the call's auto checkpoint: after
//! the rewind every file of the tree (named by the call or not) must have exactly its bytes from before
//! the call - class `edit_not_undone_by_auto_checkpoint`.  The generator decorates path arguments
//! (blanks, unicode blanks, `./`, `//`, trailing `/`, ...: the decoration grammar of c13.rs) and
//! populates the workspace with siblings of every target (`<stem>.tmp`, `<name>.tmp`, `<name>~`, ...).
//! NAMES (builder ws14d): "before EVERY file-editing tool runs" - every name the REAL registry resolves (registered
//! names and aliases, ToolRegistry::verif_names at run time) and names close to them go through ToolRunner::run with
//! the argument shapes of every file-editing tool, judged by effect; random histories call a handler by any alias.
//! STAMPS: histories on a frozen file-system clock / with the old modification time put back after an edit of the same
//! length, several checkpoints of one file in a session (a create that trusts size + mtime shows).  An inotify watch on
//! the directories around the root reports files that exist there only while an operation runs.
#[path = "../ws_common.rs"]
mod ws_common;
#[path = "../ws13_common.rs"]
mod ws13_common;
use rip_kernel::EventKind;
use rip_tools::{ToolInvocation, ToolRunner};
use rip_workspace::Workspace;
use rv::*;
use serde_json::{json, Value};
use std::collections::BTreeMap;
use std::path::PathBuf;
use std::sync::Arc;
use ws13_common::*;
use ws_common::*;

fn registry(root: &std::path::Path) -> Arc<rip_tools::ToolRegistry> {
    let registry = Arc::new(rip_tools::ToolRegistry::default());
    let cfg = rip_tools::BuiltinToolConfig { workspace_root: root.to_path_buf(), ..Default::default() };
    rip_tools::register_builtin_tools(&registry, cfg);
    registry
}

/// workspace listing without the checkpoint store
fn ws_listing(root: &std::path::Path) -> Listing {
    list_tree(root).into_iter().filter(|(c, _)| c.first().map(|x| x.as_slice() != b".rip").unwrap_or(true)).collect()
}
fn files_of(l: &Listing) -> BTreeMap<Comps, Vec<u8>> {
    files_only(l)
}
/// independent normalisation of a requested path: components below the root, None = not a path below the root
fn norm(raw: &str, root: &str) -> Option<Comps> {
    if raw.split('/').any(|s| s == "..") {
        return None;
    }
    let c = |s: &str| -> Comps { s.split('/').filter(|x| !x.is_empty() && *x != ".").map(|x| x.as_bytes().to_vec()).collect() };
    if raw.starts_with('/') {
        let (a, b) = (c(raw), c(root));
        if a.len() >= b.len() && a[..b.len()] == b[..] {
            Some(a[b.len()..].to_vec())
        } else {
            None
        }
    } else {
        Some(c(raw))
    }
}
fn code_of_msg(m: &str) -> u64 {
    if m.contains("path escapes workspace root") {
        2
    } else if m.contains("path outside workspace") {
        4
    } else if m.contains("Is a directory") {
        5
    } else if m.contains("Not a directory") {
        6
    } else if m.contains("absolute paths are not allowed") {
        1
    } else {
        99
    }
}

struct Ck {
    id: String,
    expect: Vec<(Comps, Option<Vec<u8>>)>, // what the harness saw at create time, per covered path
}

#[derive(Default)]
struct Run {
    coq_ops: Vec<String>,
    done: Vec<Value>,
    viol: Vec<(String, String)>,
    stats: BTreeMap<String, u64>,
}

fn coq_name(c: &[u8]) -> String {
    coq_str(&String::from_utf8_lossy(c))
}
fn coq_fs_cp(l: &Listing) -> String {
    let mut parts = vec![];
    for (c, n) in l {
        let ns = match n {
            Node::Dir => "Dir".to_string(),
            Node::File(b) => format!("File {}", ws_common::coq_bytes(b)),
        };
        parts.push(format!("({}, {})", coq_list(c, |x| coq_name(x)), ns));
    }
    format!("[{}]", parts.join("; "))
}

struct World<'a> {
    sbx: &'a Sandbox,
    ws: Workspace,
    runner: ToolRunner,
    plain: ToolRunner, // the same tools without a checkpoint hook (for edits of the store itself)
    rt: &'a tokio::runtime::Runtime,
    seq: u64,
    cks: Vec<Ck>,
    root_s: String,
    last: Listing, // the listing the model has seen last
    names: Names,  // what the REAL registry resolves (ToolRegistry::verif_names), read at run time
    frozen: bool,  // the file system's clock does not advance during this history (see freeze_tree)
}

/// "regardless of what happened to the workspace in between": a history on a file system whose timestamps carry no
/// information - every edit falls into one tick of a coarse clock (1 s / 2 s granularity, kernels without multigrain
/// timestamps), or the tools that made the edits put the old times back (cp -p, rsync -t, tar x, touch -r).  After
/// every operation every workspace file gets the same modification / access time.
const FROZEN_SECS: u64 = 1_600_000_000;
fn set_times(p: &std::path::Path, t: std::time::SystemTime) {
    if let Ok(f) = std::fs::OpenOptions::new().write(true).open(p) {
        let _ = f.set_times(std::fs::FileTimes::new().set_accessed(t).set_modified(t));
    }
}
fn freeze_tree(root: &std::path::Path) {
    let t = std::time::UNIX_EPOCH + std::time::Duration::from_secs(FROZEN_SECS);
    for (c, n) in ws_listing(root) {
        if let Node::File(_) = n {
            set_times(&comps_path(root, &c), t);
        }
    }
}
/// other bytes of the same length (a config value changed from 3 to 5)
fn same_len_other(b: &[u8], salt: u64) -> Vec<u8> {
    let mut v = b.to_vec();
    let mut changed = false;
    for x in v.iter_mut().rev() {
        if x.is_ascii_digit() {
            *x = b'0' + ((*x - b'0') as u64 + 1 + salt % 8) as u8 % 10;
            changed = true;
            break;
        }
    }
    if !changed {
        if let Some(x) = v.iter_mut().rev().find(|x| **x != b'\n') {
            *x = if *x == b'#' { b'%' } else { b'#' };
        }
    }
    v
}

/// every name the real registry resolves: registered names and (alias -> target), as ToolRegistry::get does it
#[derive(Clone, Default)]
struct Names {
    tools: std::collections::BTreeSet<String>,
    aliases: BTreeMap<String, String>,
}
impl Names {
    fn of(reg: &rip_tools::ToolRegistry) -> Names {
        let (tools, aliases) = reg.verif_names();
        Names { tools: tools.into_iter().collect(), aliases: aliases.into_iter().collect() }
    }
    /// the registered name whose handler `get(name)` returns (a registered name wins over an alias; one level only)
    fn canon(&self, name: &str) -> Option<String> {
        if self.tools.contains(name) {
            return Some(name.to_string());
        }
        self.aliases.get(name).filter(|t| self.tools.contains(*t)).cloned()
    }
    /// every name that reaches the handler registered as `target`
    fn reaching(&self, target: &str) -> Vec<String> {
        let mut v = vec![];
        if self.tools.contains(target) {
            v.push(target.to_string());
        }
        for (a, t) in &self.aliases {
            if t == target && !self.tools.contains(a) && self.tools.contains(t) {
                v.push(a.clone());
            }
        }
        v
    }
    fn resolvable(&self) -> Vec<String> {
        let mut v: Vec<String> = self.tools.iter().cloned().collect();
        for a in self.aliases.keys() {
            if self.canon(a).is_some() && !v.contains(a) {
                v.push(a.clone());
            }
        }
        v
    }
}

impl<'a> World<'a> {
    fn bump(run: &mut Run, k: &str) {
        *run.stats.entry(k.to_string()).or_insert(0) += 1;
    }
    fn outside_check(&self, run: &mut Run, name: &str, before: &Listing, after: &Listing) {
        let ch: Vec<Change> = diff(before, after).into_iter().filter(|c| !is_ws(&c.path)).collect();
        if !ch.is_empty() {
            run.viol.push((format!("{name}: outside the workspace root: {}", show_changes(&ch)), format!("outside_{}", ch[0].kind)));
        }
    }
    /// register a checkpoint the implementation reported, with the harness's own record of the covered files
    fn register(&mut self, run: &mut Run, id: &str, raws: &[String], code: u64, before: &Listing, after: &Listing) {
        let mut recorded: Vec<(String, bool)> = vec![];
        if code == 0 {
            if let Ok(list) = self.ws.list_checkpoints("s1") {
                if let Some(c) = list.into_iter().find(|c| c.id == id) {
                    recorded = c.files.iter().map(|f| (f.path.clone(), f.exists)).collect();
                }
            }
            let fb = files_of(before);
            let mut expect = vec![];
            for r in raws {
                if let Some(c) = norm(r, &self.root_s) {
                    expect.push((c.clone(), fb.get(&c).cloned()));
                }
            }
            // the store must agree with what the harness saw
            for ((c, want), (p, ex)) in expect.iter().zip(recorded.iter()) {
                if want.is_some() != *ex {
                    run.viol.push((format!("create recorded exists={ex} for '{p}' but the file {} at create time", if want.is_some() { "existed" } else { "did not exist" }), "covered_file_not_recorded".into()));
                }
                let _ = c;
            }
            self.cks.push(Ck { id: id.to_string(), expect });
        }
        if files_of(before) != files_of(after) {
            run.viol.push(("checkpoint create changed workspace files".into(), "create_changed_files".into()));
        }
        let opn = format!("OCreate {} {} {}", coq_list(raws, |s| coq_str(s)), code, coq_list(&recorded, |(p, e)| format!("({}, {})", coq_str(p), coq_bool(*e))));
        self.push_op(run, opn, after);
    }

    /// rewind to the idx-th registered checkpoint, with the round-trip oracle; returns (ok, listing after)
    fn do_rewind(&mut self, run: &mut Run, idx: usize, via_runner: bool, before: &Listing) -> (bool, Listing) {
        let id = self.cks[idx].id.clone();
        let ok = if !via_runner {
            self.ws.rewind_to_checkpoint("s1", &id).is_ok()
        } else {
            let evs = self.runner.rewind_checkpoint("s1", &mut self.seq, &id);
            evs.iter().any(|e| matches!(e.kind, EventKind::CheckpointRewound { .. }))
        };
        let after = ws_listing(&self.sbx.root);
        Self::bump(run, if ok { "rewind-ok" } else { "rewind-failed" });
        let fb = files_of(before);
        let fa = files_of(&after);
        if ok {
            let covered: Vec<&Comps> = self.cks[idx].expect.iter().map(|(c, _)| c).collect();
            for (c, want) in &self.cks[idx].expect {
                if fa.get(c) != want.as_ref() {
                    run.viol.push((
                        format!("after rewind, covered path {} is {} but was {} when the checkpoint was taken", show_comps(c), desc(fa.get(c)), desc(want.as_ref())),
                        "covered_file_not_restored".into(),
                    ));
                }
            }
            for p in fb.keys().chain(fa.keys()) {
                if !covered.contains(&p) && fb.get(p) != fa.get(p) {
                    run.viol.push((format!("rewind changed the uncovered file {}", show_comps(p)), "rewind_touched_uncovered".into()));
                    break;
                }
            }
            // structural: no workspace file may share its inode with a stored copy (a later in-place edit
            // would rewrite the checkpoint)
            if let Some(p) = self.shared_with_store(&after) {
                run.viol.push((format!("after rewind the workspace file {} and a stored copy are one inode", show_comps(&p)), "covered_file_not_restored".into()));
            }
        } else if fb != fa {
            run.viol.push(("a failed rewind changed workspace files".into(), "failed_rewind_changed_files".into()));
        }
        self.push_op(run, format!("ORewind {} {}", idx, if ok { 0 } else { 1 }), &after);
        (ok, after)
    }
    fn shared_with_store(&self, l: &Listing) -> Option<Comps> {
        use std::os::unix::fs::MetadataExt;
        let mut store_inodes = std::collections::BTreeSet::new();
        fn rec(d: &std::path::Path, out: &mut std::collections::BTreeSet<(u64, u64)>) {
            if let Ok(rd) = std::fs::read_dir(d) {
                for e in rd.flatten() {
                    if let Ok(m) = std::fs::symlink_metadata(e.path()) {
                        if m.is_dir() {
                            rec(&e.path(), out);
                        } else {
                            out.insert((m.dev(), m.ino()));
                        }
                    }
                }
            }
        }
        rec(&self.sbx.root.join(".rip"), &mut store_inodes);
        for (c, n) in l {
            if let Node::File(_) = n {
                if let Ok(m) = std::fs::symlink_metadata(comps_path(&self.sbx.root, c)) {
                    if m.nlink() > 1 && store_inodes.contains(&(m.dev(), m.ino())) {
                        return Some(c.clone());
                    }
                }
            }
        }
        None
    }
    /// one observed operation for the model, with the change of the listing across it
    fn push_op(&mut self, run: &mut Run, op: String, after: &Listing) {
        let mut parts = vec![];
        // disappeared entries first (children before parents do not matter: every entry is listed on its own)
        for (c, _) in self.last.iter() {
            if !after.contains_key(c) {
                parts.push(format!("({}, None)", coq_list(c, |x| coq_name(x))));
            }
        }
        for (c, n) in after.iter() {
            if self.last.get(c) != Some(n) {
                let ns = match n {
                    Node::Dir => "Dir".to_string(),
                    Node::File(b) => format!("File {}", ws_common::coq_bytes(b)),
                };
                parts.push(format!("({}, Some ({}))", coq_list(c, |x| coq_name(x)), ns));
            }
        }
        run.coq_ops.push(format!("({op}, [{}])", parts.join("; ")));
        self.last = after.clone();
    }

    fn exec(&mut self, run: &mut Run, op: &Value) {
        let kind = op["op"].as_str().unwrap_or("");
        Self::bump(run, &format!("op={kind}"));
        let all_before = self.sbx.snapshot();
        let before = ws_listing(&self.sbx.root);
        // what happens AROUND the root while the operation runs (a temporary file next to the root that is gone again
        // when the call returns is invisible to the comparison of the snapshots)
        let mut watcher = Watcher::new(&self.sbx.outside_dirs());
        if watcher.is_none() {
            Self::bump(run, "no-inotify");
        }
        match kind {
            "create" | "create_runner" => {
                let raws: Vec<String> = op["raws"].as_array().map(|a| a.iter().map(|x| self.sbx.subst(x.as_str().unwrap_or(""))).collect()).unwrap_or_default();
                let files: Vec<PathBuf> = raws.iter().map(PathBuf::from).collect();
                let (code, id) = if kind == "create" {
                    match self.ws.create_checkpoint("s1", "manual", &files) {
                        Ok(c) => (0, c.id),
                        Err(e) => (code_of_msg(&e.to_string()), String::new()),
                    }
                } else {
                    let evs = self.runner.create_checkpoint("s1", &mut self.seq, "manual".into(), files);
                    let mut r = (99, String::new());
                    for e in &evs {
                        match &e.kind {
                            EventKind::CheckpointCreated { checkpoint_id, .. } => r = (0, checkpoint_id.clone()),
                            EventKind::CheckpointFailed { error, .. } => r = (code_of_msg(error), String::new()),
                            _ => {}
                        }
                    }
                    r
                };
                let after = ws_listing(&self.sbx.root);
                Self::bump(run, &format!("create-code={code}"));
                self.register(run, &id, &raws, code, &before, &after);
            }
            "rewind" | "rewind_runner" => {
                if self.cks.is_empty() {
                    return;
                }
                let idx = (op["idx"].as_u64().unwrap_or(0) as usize) % self.cks.len();
                self.do_rewind(run, idx, kind == "rewind_runner", &before);
            }
            "tamper" => {
                // the store lies inside the workspace: the file tools can reach a stored copy.  `how`: write (other
                // bytes through the real write tool), append (likewise), delete (the copy is gone)
                if self.cks.is_empty() {
                    return;
                }
                let idx = (op["idx"].as_u64().unwrap_or(0) as usize) % self.cks.len();
                let id = self.cks[idx].id.clone();
                let rec: Vec<(String, bool)> = self.ws.list_checkpoints("s1").ok().and_then(|l| l.into_iter().find(|c| c.id == id)).map(|c| c.files.iter().map(|f| (f.path.clone(), f.exists)).collect()).unwrap_or_default();
                let stored: Vec<&(String, bool)> = rec.iter().filter(|(_, e)| *e).collect();
                if stored.is_empty() {
                    return;
                }
                let (rel, _) = stored[(op["which"].as_u64().unwrap_or(0) as usize) % stored.len()].clone();
                let store_rel = format!(".rip/checkpoints/s1/{id}/files/{rel}");
                let how = op["how"].as_str().unwrap_or("write");
                let content = op["content"].as_str().unwrap_or("tampered\n").to_string();
                let now: Option<Vec<u8>> = match how {
                    "delete" => {
                        let _ = std::fs::remove_file(self.sbx.root.join(&store_rel));
                        None
                    }
                    _ => {
                        let mut args = json!({"path": store_rel, "content": content, "atomic": false});
                        if how == "append" {
                            args["append"] = json!(true);
                        }
                        let _ = self.rt.block_on(self.plain.run("s1", &mut self.seq, ToolInvocation { name: "write".into(), args, timeout_ms: None }));
                        std::fs::read(self.sbx.root.join(&store_rel)).ok()
                    }
                };
                Self::bump(run, &format!("tamper-{how}"));
                let after = ws_listing(&self.sbx.root);
                let opn = format!("OTamper {} {} {}", idx, coq_str(&rel), match &now { Some(b) => format!("(Some {})", ws_common::coq_bytes(b)), None => "None".into() });
                self.push_op(run, opn, &after);
            }
            "edit" => {
                let p = self.sbx.root.join(op["path"].as_str().unwrap_or("x"));
                match op["how"].as_str().unwrap_or("") {
                    "write" => {
                        if let Some(par) = p.parent() {
                            let _ = std::fs::create_dir_all(par);
                        }
                        let _ = std::fs::write(&p, edit_bytes(op));
                    }
                    "delete" => {
                        let _ = std::fs::remove_file(&p);
                    }
                    // an edit that leaves the metadata a cache could key on as they were: same length, same modification
                    // time; in place (same inode) or by replacement (`same_meta_replace`: temp file + rename, as cp -p does)
                    "same_meta" | "same_meta_replace" => {
                        if let (Ok(old), Ok(meta)) = (std::fs::read(&p), std::fs::metadata(&p)) {
                            if meta.is_file() && !old.is_empty() {
                                let new = same_len_other(&old, op["salt"].as_u64().unwrap_or(0));
                                if op["how"] == "same_meta" {
                                    if let Ok(mut f) = std::fs::OpenOptions::new().write(true).open(&p) {
                                        use std::io::Write;
                                        let _ = f.write_all(&new);
                                    }
                                } else {
                                    let t = p.with_file_name(".same-meta-replace");
                                    let _ = std::fs::write(&t, &new);
                                    let _ = std::fs::rename(&t, &p);
                                }
                                if let Ok(m) = meta.modified() {
                                    set_times(&p, m);
                                }
                            }
                        }
                    }
                    "mkdir" => {
                        let _ = std::fs::create_dir_all(&p);
                    }
                    "to_dir" => {
                        let _ = std::fs::remove_file(&p);
                        let _ = std::fs::create_dir_all(&p);
                        let _ = std::fs::write(p.join("inner.txt"), "inner\n");
                    }
                    "to_file" => {
                        let _ = std::fs::remove_dir_all(&p);
                        let _ = std::fs::remove_file(&p);
                        if let Some(par) = p.parent() {
                            let _ = std::fs::create_dir_all(par);
                        }
                        let _ = std::fs::write(&p, op["content"].as_str().unwrap_or("now a file\n"));
                    }
                    _ => {
                        let _ = std::fs::remove_dir_all(&p);
                    }
                }
                let after = ws_listing(&self.sbx.root);
                self.push_op(run, "OEdit".into(), &after);
            }
            "tool" => {
                let name = op["name"].as_str().unwrap_or("write").to_string();
                // the handler the registry hands out for this name (aliases resolved as ToolRegistry::get does)
                let canon = self.names.canon(&name);
                let is_write = canon.as_deref() == Some("write");
                let is_patch = canon.as_deref() == Some("apply_patch");
                if canon.as_deref() != Some(name.as_str()) {
                    Self::bump(run, if canon.is_some() { "tool-by-alias" } else { "tool-unregistered-name" });
                }
                let mut args = op["args"].clone();
                if let Some(p) = args.get("path").and_then(|p| p.as_str()) {
                    args["path"] = json!(self.sbx.subst(p));
                }
                let evs = self.rt.block_on(self.runner.run("s1", &mut self.seq, ToolInvocation { name: name.clone(), args: args.clone(), timeout_ms: None }));
                let after = ws_listing(&self.sbx.root);
                let mut created: Option<(String, Vec<String>)> = None;
                let mut failed: Option<String> = None;
                let mut started_at = None;
                let mut ck_at = None;
                let mut tool_ok = false;
                for (i, e) in evs.iter().enumerate() {
                    match &e.kind {
                        EventKind::CheckpointCreated { checkpoint_id, files, auto, .. } => {
                            ck_at = Some(i);
                            if !auto {
                                run.viol.push(("auto checkpoint frame not marked auto".into(), "auto_flag".into()));
                            }
                            created = Some((checkpoint_id.clone(), files.clone()));
                        }
                        EventKind::CheckpointFailed { error, .. } => {
                            ck_at = Some(i);
                            failed = Some(error.clone());
                        }
                        EventKind::ToolStarted { .. } => started_at = Some(i),
                        EventKind::ToolEnded { exit_code, .. } => tool_ok = *exit_code == 0,
                        _ => {}
                    }
                }
                let changed: Vec<Comps> = {
                    let fb = files_of(&before);
                    let fa = files_of(&after);
                    fb.keys().chain(fa.keys()).filter(|p| fb.get(*p) != fa.get(*p)).cloned().collect::<std::collections::BTreeSet<_>>().into_iter().collect()
                };
                Self::bump(run, &format!("tool={name}{}", if changed.is_empty() { "-nochange" } else { "" }));
                let only_tmp_leftovers = !tool_ok
                    && !changed.is_empty()
                    && changed.iter().all(|p| {
                        let fb = files_of(&before);
                        !fb.contains_key(p) && p.last().map(|n| String::from_utf8_lossy(n).contains(".tmp-")).unwrap_or(false)
                    });
                if only_tmp_leftovers {
                    run.viol.push((format!("a failed {name} left its temporary file {} behind (not covered by any checkpoint)", show_comps(&changed[0])), "failed_write_leaves_tmp_file".into()));
                } else if !changed.is_empty() {
                    match (&created, ck_at, started_at) {
                        (Some((_, files)), Some(c), Some(s)) => {
                            if c > s {
                                run.viol.push(("the auto checkpoint frame does not precede tool_started".into(), "auto_checkpoint_after_start".into()));
                            }
                            let cov: Vec<Comps> = files.iter().filter_map(|f| norm(f, &self.root_s)).collect();
                            for p in &changed {
                                if !cov.contains(p) {
                                    run.viol.push((format!("{name} changed {} which its auto checkpoint does not cover", show_comps(p)), "auto_checkpoint_not_covering".into()));
                                }
                            }
                        }
                        _ => run.viol.push((format!("{name} changed files without a preceding auto checkpoint ({:?})", failed), "auto_checkpoint_missing".into())),
                    }
                }
                // what the auto checkpoint was asked to cover
                let mut parsed = true;
                let raws: Vec<String> = if is_write {
                    vec![args["path"].as_str().unwrap_or("").to_string()]
                } else if is_patch {
                    match rip_workspace::Patch::parse(args["patch"].as_str().unwrap_or("")) {
                        Ok(p) => p.affected_paths().iter().map(|x| x.to_string_lossy().to_string()).collect(),
                        Err(_) => {
                            parsed = false;
                            vec![]
                        }
                    }
                } else {
                    // any other handler (or none): whatever checkpoint the runner took is registered under the names it reports
                    match &created {
                        Some((_, files)) => files.clone(),
                        None => {
                            parsed = false;
                            vec![]
                        }
                    }
                };
                if !parsed {
                    // files_for_invocation failed before any path reached the checkpoint store
                } else if let Some((id, _)) = &created {
                    self.register(run, id, &raws, 0, &before, &before);
                } else if let Some(err) = &failed {
                    let code = code_of_msg(err);
                    if code != 1 && code != 99 {
                        self.register(run, "", &raws, code, &before, &before);
                    }
                }
                // the tool call itself: the write tool is replayed in the model (OWrite), apply_patch is an opaque edit
                let registered = parsed && created.is_some();
                if is_write && args["path"].is_string() && args["content"].is_string() {
                    let mode = if args["append"].as_bool().unwrap_or(false) {
                        if args["create"].as_bool().unwrap_or(true) { 2 } else { 3 }
                    } else if args["atomic"].as_bool().unwrap_or(true) {
                        0
                    } else {
                        1
                    };
                    // what std makes of the temporary file's path for this argument (the model applies with_extension to the
                    // root-relative string)
                    let tmp_abs = self.sbx.root.join(args["path"].as_str().unwrap_or("")).with_extension("tmp-UUID");
                    let tmp_rel = tmp_abs.strip_prefix(&self.sbx.root).map(|p| p.to_string_lossy().to_string()).unwrap_or_else(|_| tmp_abs.to_string_lossy().to_string());
                    let opn = format!("OWrite {} {} {} {} {}", coq_str(args["path"].as_str().unwrap_or("")), mode, ws_common::coq_bytes(args["content"].as_str().unwrap_or("").as_bytes()), if tool_ok { 0 } else { 1 }, coq_str(&tmp_rel));
                    self.push_op(run, opn, &after);
                } else {
                    self.push_op(run, "OEdit".into(), &after);
                }
                // ORACLE BY EFFECT: rewinding to the call's auto checkpoint must give back the tree from before the call
                if op["undo"].as_bool().unwrap_or(false) {
                    if registered {
                        let idx = self.cks.len() - 1;
                        let via_runner = op["undo_runner"].as_bool().unwrap_or(false);
                        let (ok, rewound) = self.do_rewind(run, idx, via_runner, &after);
                        Self::bump(run, "undo-checked");
                        if !ok && changed.is_empty() {
                            // the call changed no file (refused / failed and rolled back): there is no edit to undo, and the
                            // failed rewind has left the workspace as it was (checked in do_rewind)
                            Self::bump(run, "undo-nothing-to-undo-rewind-failed");
                        } else if !ok {
                            // KNOWN FINDING S10j, recognised executably: the call itself put a DIRECTORY where a file it
                            // covers (a file before the call) stood - apply_patch `Delete File: a` + `Add File: a/x`
                            let dir_at_covered_file = self.cks[idx].expect.iter().any(|(c, was)| was.is_some() && after.get(c) == Some(&Node::Dir));
                            let class = if is_patch && dir_at_covered_file { "auto_checkpointed_patch_put_directory_at_covered_file" } else { "edit_not_undone_by_auto_checkpoint" };
                            run.viol.push((format!("{name}: the rewind to the call's own auto checkpoint failed; the edit ({}) cannot be undone", show_list(&changed)), class.into()));
                        } else {
                            let fb = files_of(&before);
                            let fr = files_of(&rewound);
                            let bad: Vec<Comps> = fb.keys().chain(fr.keys()).filter(|p| fb.get(*p) != fr.get(*p)).cloned().collect::<std::collections::BTreeSet<_>>().into_iter().collect();
                            if let Some(p) = bad.first() {
                                run.viol.push((
                                    format!(
                                        "{name} {}: after rewinding to the call's auto checkpoint (covering {:?}) the file {} is {} but was {} before the call",
                                        if is_write { format!("{:?}", args["path"].as_str().unwrap_or("")) } else { "patch".to_string() },
                                        created.as_ref().map(|c| c.1.clone()).unwrap_or_default(),
                                        show_comps(p),
                                        desc(fr.get(p)),
                                        desc(fb.get(p))
                                    ),
                                    "edit_not_undone_by_auto_checkpoint".into(),
                                ));
                            }
                            // a directory of the tree before the call is still a directory
                            for (c, n) in &before {
                                if *n == Node::Dir && rewound.get(c) != Some(&Node::Dir) {
                                    run.viol.push((format!("{name}: the directory {} is gone after the undo", show_comps(c)), "edit_not_undone_by_auto_checkpoint".into()));
                                    break;
                                }
                            }
                        }
                    } else if !changed.is_empty() {
                        Self::bump(run, "undo-no-checkpoint");
                        run.viol.push((format!("{name} changed {} and there is no auto checkpoint to rewind to ({:?})", show_list(&changed), failed), "edit_not_undone_by_auto_checkpoint".into()));
                    }
                }
            }
            _ => {}
        }
        let all_after = self.sbx.snapshot();
        self.outside_check(run, kind, &all_before, &all_after);
        if let Some(w) = watcher.as_mut() {
            let evs = w.drain();
            if !evs.is_empty() && diff(&all_before, &all_after).iter().all(|c| is_ws(&c.path)) {
                let mut seen: Vec<String> = vec![];
                for (what, p) in &evs {
                    let e = format!("{what} {}", p.strip_prefix(&self.sbx.top).map(|x| x.to_string_lossy().to_string()).unwrap_or_else(|_| p.to_string_lossy().to_string()));
                    if !seen.contains(&e) {
                        seen.push(e);
                    }
                }
                run.viol.push((format!("{kind}: outside the workspace root while the operation ran (gone again afterwards): {}", seen.join("; ")), "outside_touched_transiently".into()));
            }
        }
        if self.frozen {
            freeze_tree(&self.sbx.root);
        }
        run.done.push(op.clone());
    }
}
/// content of a harness edit: "content" (text), "bytes" (any bytes) or "big": {"len", "salt"} (generated)
fn edit_bytes(op: &Value) -> Vec<u8> {
    if let Some(b) = op.get("bytes").and_then(|b| b.as_array()) {
        return b.iter().map(|x| x.as_u64().unwrap_or(0) as u8).collect();
    }
    if let Some(g) = op.get("big") {
        return big_bytes(g["len"].as_u64().unwrap_or(0) as usize, g["salt"].as_u64().unwrap_or(0));
    }
    op["content"].as_str().unwrap_or("").as_bytes().to_vec()
}
/// every byte value, no pattern shorter than the buffer sizes in use
fn big_bytes(len: usize, salt: u64) -> Vec<u8> {
    let mut r = Rng::new(salt ^ 0x9e37_79b9_7f4a_7c15);
    let mut v = Vec::with_capacity(len);
    while v.len() < len {
        v.extend_from_slice(&r.next().to_le_bytes());
    }
    v.truncate(len);
    v
}
/// contents that are not a line of text: empty, binary (NUL, invalid UTF-8, every class of byte), CRLF, no final newline
fn odd_content(r: &mut Rng) -> Vec<u8> {
    match r.below(5) {
        0 => vec![],
        1 => vec![0, 255, 254, 0xc3, 0x28, 10, 13, 0, 0x80, 0x7f, 0xe2, 0x82, 0xac, 27, 9],
        2 => b"line1\r\nline2\r\n".to_vec(),
        3 => b"no newline at the end".to_vec(),
        _ => (0..=255u8).rev().collect(),
    }
}
fn show_list(l: &[Comps]) -> String {
    l.iter().map(show_comps).collect::<Vec<_>>().join(", ")
}
fn desc(b: Option<&Vec<u8>>) -> String {
    match b {
        None => "absent".into(),
        Some(b) if b.len() > 120 => format!("{} bytes starting {:?}", b.len(), String::from_utf8_lossy(&b[..60])),
        Some(b) => format!("{:?}", String::from_utf8_lossy(b)),
    }
}

// ------------------------------------------------------------------ generation (inside the worker: ops depend on the state)
// targets: plain, nested, blank in the name, no extension, dot file, double extension, names a tool might treat
// specially (ignored by the workspace's own .gitignore, under .git / node_modules / target, upper case, composed and
// decomposed accents), then two that do not exist at the start
const FILES: [&str; 21] = [
    "a.txt", "b.txt", "d/x.txt", "d/y.txt", "d/e/z.txt", "n/o/p.txt", "sp ace.txt", "Makefile", "d/Makefile", ".hidden", "d/archive.tar.gz",
    "debug.log", ".git/config", "node_modules/pkg/index.js", "target/debug/out.o", "README.MD", "caf\u{e9}.txt", "cafe\u{301}.txt", ".gitignore",
    "new.txt", "m/n/new.txt",
];
const N_EXISTING: usize = 19;

// ---- decorations of a path argument: the grammar of harness/src/bin/c13.rs (builder ws13b), reduced to what keeps a
// relative core relative or makes it refused, plus every blank str::trim knows about
const PREFIXES: [&str; 30] = [
    "", "./", ".//", "././/", "./././", "./.", " ", "\t", "\n", "\r\n", "  ", " \t", "\u{a0}", "\u{2003}", "\u{3000}", "\u{85}", "\u{feff}", "\u{200b}", "\\", ".\\", "%2F", "%2e/", "~/", "file://", ". /", "./ ", "\u{2024}/", "//", "/./",
    "LONG./",
];
const INFIXES: [&str; 6] = ["id", "dbl", "dot", "bs", "fw", "first_dbl"];
const SUFFIXES: [&str; 20] = ["", "/", "/.", "//", "/./", " ", "\t", "\n", "\r\n", "  ", "\u{a0}", "\u{2003}", "\u{3000}", "\u{85}", "\u{feff}", "\0", "%00", "\\", "/ ", " /"];

fn apply_infix(inf: &str, core: &str) -> String {
    match inf {
        "dbl" => core.replace('/', "//"),
        "dot" => core.replace('/', "/./"),
        "bs" => core.replace('/', "\\"),
        "fw" => core.replace('/', "\u{ff0f}"),
        "first_dbl" => match core.char_indices().skip(1).find(|(_, c)| *c == '/') {
            Some((i, _)) => format!("{}//{}", &core[..i], &core[i + 1..]),
            None => core.to_string(),
        },
        _ => core.to_string(),
    }
}
fn decorate(pre: &str, inf: &str, suf: &str, core: &str) -> String {
    let pre = match pre {
        "LONG./" => "./".repeat(1500),
        p => p.to_string(),
    };
    format!("{pre}{}{suf}", apply_infix(inf, core))
}
fn header_safe(s: &str) -> bool {
    !s.contains(['\n', '\r'])
}
fn gen_deco(r: &mut Rng, core: &str) -> String {
    if r.chance(1, 2) {
        return core.to_string();
    }
    let pre = if r.chance(1, 2) { *r.pick(&PREFIXES[..PREFIXES.len() - 1]) } else { "" };
    let inf = if r.chance(1, 4) { *r.pick(&INFIXES[..]) } else { "id" };
    let suf = if r.chance(1, 2) { *r.pick(&SUFFIXES[..]) } else { "" };
    decorate(pre, inf, suf, core)
}

/// names next to a target that an editor, a careless temp-file scheme or a backup scheme would use
fn sibling_names(name: &str) -> Vec<String> {
    let stem = match name.rfind('.') {
        Some(i) if i > 0 => &name[..i],
        _ => name,
    };
    let first_stem = match name[1.min(name.len())..].find('.') {
        Some(i) => &name[..i + 1],
        None => name,
    };
    let mut v = vec![
        format!("{stem}.tmp"),
        format!("{name}.tmp"),
        format!("{name}~"),
        format!(".{name}.swp"),
        format!("{name}.tmp-x"),
        format!("{name}.bak"),
        format!("{stem}.tmp-x"),
        format!("{name} "),
        format!("{stem}.bak"),
        format!(".{name}.tmp"),
        format!("{name}.orig"),
        format!("{name}.new"),
        format!("{name}.lock"),
        format!("#{name}#"),
        format!("{stem}.tmp-"),
        format!("{first_stem}.tmp"),
        format!("{name}.part"),
        format!(".tmp-{name}"),
        format!("tmp-{name}"),
        format!(" {name}"),
    ];
    if stem != name {
        v.push(stem.to_string());
    }
    // keep the order (the first eight are the ones every systematic workspace holds), drop repeats
    let mut seen = std::collections::BTreeSet::new();
    v.retain(|x| seen.insert(x.clone()));
    v.retain(|x| x != name && !x.is_empty() && x != "." && x != "..");
    v
}
fn split_dir(p: &str) -> (String, &str) {
    match p.rfind('/') {
        Some(i) => (p[..i + 1].to_string(), &p[i + 1..]),
        None => (String::new(), p),
    }
}
fn put_file(l: &mut Listing, p: &str, content: &str) {
    let c: Comps = p.split('/').map(|s| s.as_bytes().to_vec()).collect();
    for i in 1..c.len() {
        if let Some(Node::File(_)) = l.get(&c[..i].to_vec()) {
            return;
        }
    }
    if l.get(&c) == Some(&Node::Dir) {
        return;
    }
    for i in 1..c.len() {
        l.insert(c[..i].to_vec(), Node::Dir);
    }
    l.insert(c, Node::File(content.as_bytes().to_vec()));
}
fn put_siblings(l: &mut Listing, target: &str, which: &mut dyn FnMut(usize) -> bool) {
    let (dir, name) = split_dir(target);
    for (i, sname) in sibling_names(name).iter().enumerate() {
        if which(i) {
            let p = format!("{dir}{sname}");
            let c: Comps = p.split('/').map(|s| s.as_bytes().to_vec()).collect();
            if !l.contains_key(&c) {
                put_file(l, &p, &format!("s{i}\n"));
            }
        }
    }
}

fn variant(r: &mut Rng, p: &str) -> String {
    match r.below(14) {
        0 => format!("./{p}"),
        1 => format!("{p}/"),
        2 => p.replacen('/', "//", 1),
        3 => p.replacen('/', "/./", 1),
        4 | 5 => format!("{{ROOT}}/{p}"),
        6 => format!("{{ROOT}}//{p}"),
        7 => format!("{p}/."),
        8 => gen_deco(r, p),
        _ => p.to_string(),
    }
}
fn gen_raw(r: &mut Rng) -> String {
    match r.below(20) {
        0 => r.pick(&["../outside.txt", "d/../a.txt", "{SB}/outside.txt", "{ROOT}/../outside.txt"]).to_string(),
        1 => r.pick(&["d", "", "{ROOT}", "d/e", "."]).to_string(),
        _ => {
            let p = *r.pick(&FILES[..]);
            variant(r, p)
        }
    }
}
fn init_content(p: &str) -> String {
    if p == ".gitignore" {
        "*.log\ntarget/\nnode_modules/\n".to_string()
    } else {
        format!("{p} v0\n")
    }
}
fn gen_init(r: &mut Rng) -> Listing {
    let mut l = Listing::new();
    for p in FILES.iter().take(N_EXISTING) {
        if r.chance(2, 3) {
            put_file(&mut l, p, &init_content(p));
            if r.chance(1, 6) {
                let c: Comps = p.split('/').map(|s| s.as_bytes().to_vec()).collect();
                if let Some(Node::File(b)) = l.get_mut(&c) {
                    *b = odd_content(r);
                }
            }
        }
    }
    // siblings of targets (existing or not yet existing) under the suffix / prefix variants
    for p in FILES.iter() {
        if r.chance(1, 3) {
            let mut pick = |_i: usize| r.chance(1, 4);
            put_siblings(&mut l, p, &mut pick);
        }
    }
    if r.chance(1, 4) {
        l.insert(vec![b"emptydir".to_vec()], Node::Dir);
    }
    l
}
fn write_args(mode: u64, raw: &str, content: &str) -> Value {
    let mut args = json!({"path": raw, "content": content});
    match mode {
        1 => args["atomic"] = json!(false),
        2 => args["append"] = json!(true),
        3 => {
            args["append"] = json!(true);
            args["create"] = json!(false);
        }
        _ => {}
    }
    args
}
/// one patch operation on `file` (content known to start with `first`), header paths already decorated
fn patch_lines(kind: u64, file: &str, first: &str, dest: &str, step: u64) -> Vec<String> {
    match kind {
        0 => vec![format!("*** Add File: {file}"), format!("+added v{step}")],
        1 => vec![format!("*** Delete File: {file}")],
        2 => vec![format!("*** Update File: {file}"), "@@".into(), format!("-{first}"), format!("+patched v{step}")],
        _ => vec![format!("*** Update File: {file}"), format!("*** Move to: {dest}"), "@@".into(), format!("-{first}"), format!("+patched v{step}")],
    }
}
fn patch_op(ops: Vec<Vec<String>>) -> Value {
    let mut lines = vec!["*** Begin Patch".to_string()];
    for o in ops {
        lines.extend(o);
    }
    lines.push("*** End Patch".into());
    json!({"patch": lines.join("\n")})
}
/// the name a generated call uses for the handler registered as `target`: mostly the registered name, one time in
/// four any other name the real registry resolves to it (aliases)
fn pick_name(r: &mut Rng, names: &Names, target: &str) -> String {
    let use_other = r.chance(1, 4);
    let k = r.below(16) as usize;
    let all = names.reaching(target);
    if use_other && all.len() > 1 {
        all[1 + k % (all.len() - 1)].clone()
    } else {
        target.to_string()
    }
}
fn gen_op(r: &mut Rng, root: &std::path::Path, n_cks: usize, step: u64, names: &Names) -> Value {
    let cur = ws_listing(root);
    let files: Vec<String> = files_of(&cur).keys().map(show_comps).collect();
    let k = r.below(12);
    if k < 3 {
        let n = r.range(1, 4);
        let raws: Vec<String> = (0..n).map(|_| gen_raw(r)).collect();
        return json!({"op": if r.chance(1, 3) { "create_runner" } else { "create" }, "raws": raws});
    }
    if k < 6 && n_cks > 0 {
        if r.chance(1, 8) {
            // an edit that reaches a stored copy (the store lies inside the workspace)
            let how = *r.pick(&["write", "write", "append", "delete"]);
            return json!({"op": "tamper", "idx": r.below(n_cks as u64), "which": r.below(4), "how": how, "content": format!("tampered v{step}\n")});
        }
        return json!({"op": if r.chance(1, 3) { "rewind_runner" } else { "rewind" }, "idx": r.below(n_cks as u64)});
    }
    if k < 8 {
        let p = *r.pick(&FILES[..]);
        let how = *r.pick(&["write", "write", "write", "delete", "delete", "mkdir", "to_dir", "to_file", "to_file", "to_file", "rmtree", "same_meta", "same_meta", "same_meta_replace"]);
        let path = match how {
            "to_file" | "rmtree" => r.pick(&["d", "d/e", "n", "m", "a.txt", "n/o"]).to_string(),
            "mkdir" => r.pick(&["newdir", "d/sub", "m"]).to_string(),
            "delete" | "same_meta" | "same_meta_replace" if !files.is_empty() => r.pick(&files).clone(),
            _ => p.to_string(),
        };
        if how.starts_with("same_meta") {
            return json!({"op": "edit", "how": how, "path": path, "salt": step});
        }
        if how == "write" && r.chance(1, 5) {
            return json!({"op": "edit", "how": how, "path": path, "bytes": odd_content(r)});
        }
        return json!({"op": "edit", "how": how, "path": path, "content": format!("{path} v{step}\n")});
    }
    // tools through the ToolRunner (auto checkpoint); most of them followed by the undo-by-effect check
    let undo = r.chance(3, 4);
    let undo_runner = r.chance(1, 3);
    if r.chance(1, 2) {
        let p = if !files.is_empty() && r.chance(1, 3) { r.pick(&files).clone() } else { r.pick(&FILES[..]).to_string() };
        let raw = match r.below(10) {
            0 => format!("{{ROOT}}/{p}"),
            1 => "../outside.txt".to_string(),
            2 => r.pick(&["d", "", ".", "d/e/", "emptydir"]).to_string(),
            _ => gen_deco(r, &p),
        };
        let args = write_args(r.below(5).min(3), &raw, &format!("tool {p} v{step}\n"));
        return json!({"op": "tool", "name": pick_name(r, names, "write"), "args": args, "undo": undo, "undo_runner": undo_runner});
    }
    let mut ops = vec![];
    let nops = r.range(1, 3);
    for _ in 0..nops {
        let deco = |r: &mut Rng, p: &str| {
            let d = gen_deco(r, p);
            if header_safe(&d) {
                d
            } else {
                p.to_string()
            }
        };
        match r.below(4) {
            0 => {
                let t = *r.pick(&["added.txt", "d/added.txt", "q/r/added.txt", "new.txt", "m/n/new.txt", "Makefile"]);
                ops.push(patch_lines(0, &deco(r, t), "", "", step));
            }
            1 if !files.is_empty() => {
                let f = r.pick(&files).clone();
                ops.push(patch_lines(1, &deco(r, &f), "", "", step));
            }
            _ if !files.is_empty() => {
                let f = r.pick(&files).clone();
                let text = std::fs::read_to_string(root.join(&f)).unwrap_or_default();
                let first = text.lines().next().unwrap_or("").to_string();
                let mv = r.chance(1, 3);
                let dest = *r.pick(&["moved.txt", "d/moved.txt", "z/moved.txt", "a.txt", "d/x.tmp"]);
                ops.push(patch_lines(if mv { 3 } else { 2 }, &deco(r, &f), &first, &deco(r, dest), step));
            }
            _ => ops.push(patch_lines(0, "added2.txt", "", "", step)),
        }
    }
    if !files.is_empty() && r.chance(1, 12) {
        // one patch that deletes a file and adds one below its name (the file becomes a directory), or the other way round
        let f = r.pick(&files).clone();
        if r.chance(2, 3) {
            ops = vec![patch_lines(1, &f, "", "", step), patch_lines(0, &format!("{f}/below.txt"), "", "", step)];
        } else {
            ops = vec![patch_lines(0, &format!("{f}/below.txt"), "", "", step), patch_lines(1, &f, "", "", step)];
        }
    }
    json!({"op": "tool", "name": pick_name(r, names, "apply_patch"), "args": patch_op(ops), "undo": undo, "undo_runner": undo_runner})
}

/// NAMES block: "before EVERY file-editing tool runs" - every name the real registry resolves (registered names and
/// aliases, read from ToolRegistry::verif_names at run time), plus names close to them and names other harnesses use
/// for the same operations (not registered on the unchanged tree: such a call must change nothing), each run through
/// ToolRunner::run with the argument shapes of every file-editing tool: write (atomic / plain / append / append
/// without create), apply_patch (add / delete / update / move) and both at once; every call followed by the undo
/// check.  Judged by effect only: a call that changed a file must have been preceded by an auto checkpoint, and
/// rewinding to it must give back every file - whatever the name was.
fn names_cases(names: &Names, seed: u64) -> Vec<Value> {
    let mut list: Vec<String> = names.resolvable();
    let resolvable = list.len();
    let mut extra: Vec<String> = vec![];
    for n in &list {
        extra.push(n.to_uppercase());
        let mut c = n.chars();
        if let Some(f) = c.next() {
            extra.push(f.to_uppercase().collect::<String>() + c.as_str());
        }
        extra.push(format!("{n} "));
        extra.push(format!(" {n}"));
        extra.push(format!("{n}\n"));
        extra.push(n.replace('_', "-"));
        extra.push(n.replace('_', ""));
        extra.push(format!("{n}_file"));
        extra.push(format!("file_{n}"));
        extra.push(format!("functions.{n}"));
    }
    for n in ["write_file", "patch", "edit", "edit_file", "create_file", "str_replace", "str_replace_editor", "Write", "Edit", "MultiEdit", "applypatch", "apply-patch", "file_write", "fs_write", "replace", "delete_file", "rm", ""] {
        extra.push(n.to_string());
    }
    for n in extra {
        if !list.contains(&n) {
            list.push(n);
        }
    }
    let mut v = vec![];
    for (i, name) in list.iter().enumerate() {
        let mut init = Listing::new();
        for p in FILES.iter().take(N_EXISTING) {
            put_file(&mut init, p, &init_content(p));
        }
        let k = i + seed as usize;
        let targets = ["a.txt", "d/x.txt", "m/n/new.txt", "new.txt", "sp ace.txt", "d/e/z.txt"];
        let mut ops = vec![];
        for mode in 0..4u64 {
            let t = targets[(k + mode as usize) % targets.len()];
            ops.push(json!({"op": "tool", "name": name, "args": write_args(mode, t, &format!("names {t} m{mode}\n")), "undo": true, "undo_runner": (k + mode as usize) % 2 == 0}));
        }
        let pt = ["added.txt", "b.txt", "d/y.txt", "n/o/p.txt"];
        for kind in 0..4u64 {
            let t = pt[kind as usize];
            ops.push(json!({"op": "tool", "name": name, "args": patch_op(vec![patch_lines(kind, t, &format!("{t} v0"), "moved/here.txt", kind + 1)]), "undo": true, "undo_runner": (k + kind as usize) % 2 == 1}));
        }
        // both shapes at once (a handler that ignores the fields it does not know)
        let mut both = patch_op(vec![patch_lines(0, "union-added.txt", "", "", 9), patch_lines(1, "Makefile", "", "", 9)]);
        both["path"] = json!("README.MD");
        both["content"] = json!("union\n");
        ops.push(json!({"op": "tool", "name": name, "args": both, "undo": true}));
        // without the undo: the call stands, a later rewind to an earlier checkpoint must still be exact
        ops.push(json!({"op": "create", "raws": ["a.txt", "new.txt", "d/x.txt"]}));
        ops.push(json!({"op": "tool", "name": name, "args": write_args(0, "a.txt", "names final\n")}));
        ops.push(json!({"op": "tool", "name": name, "args": patch_op(vec![patch_lines(0, "new.txt", "", "", 11)])}));
        ops.push(json!({"op": "rewind", "idx": 0}));
        v.push(json!({"cwd": (k % 3) as u64, "init": listing_json(&init), "ops": ops, "shrink": true, "names_block": i < resolvable}));
    }
    v
}

/// STAMPS block: "all orders of multiple checkpoints" of the SAME file when its metadata say nothing - two or more
/// checkpoints of one session (Workspace API, ToolRunner, the auto checkpoints of write / apply_patch) with edits in
/// between that keep the length, on a frozen clock or with the old modification time put back; then rewinds to each
/// checkpoint in several orders: every checkpoint must give back the bytes of ITS OWN time.
fn stamp_cases(seed: u64) -> Vec<Value> {
    let targets = ["a.txt", "d/x.txt", "sp ace.txt", "d/archive.tar.gz", ".hidden", "n/o/p.txt"];
    let mut v = vec![];
    for (ti, t) in targets.iter().enumerate() {
        let mut init = Listing::new();
        for p in FILES.iter().take(N_EXISTING) {
            put_file(&mut init, p, &init_content(p));
        }
        let c = |k: u64| format!("{t} v{k}\n");
        let k = ti as u64 + seed;
        // explicit checkpoints, frozen clock / the old time put back (in place, by replacement)
        for (mode, create) in [("frozen", "create"), ("frozen", "create_runner"), ("same_meta", "create"), ("same_meta_replace", "create_runner")] {
            let between = |step: u64| -> Value {
                if mode == "frozen" {
                    json!({"op": "edit", "how": "write", "path": t, "content": c(step)})
                } else {
                    json!({"op": "edit", "how": mode, "path": t, "salt": step})
                }
            };
            let ops = vec![
                json!({"op": create, "raws": [t, "b.txt"]}),
                between(1),
                json!({"op": create, "raws": [t]}),
                between(2),
                json!({"op": create, "raws": [format!("./{t}"), "new.txt"]}),
                json!({"op": "edit", "how": "write", "path": t, "content": "something else entirely\n"}),
                json!({"op": "rewind", "idx": 1}),
                json!({"op": "rewind_runner", "idx": 2}),
                json!({"op": "rewind", "idx": 0}),
                json!({"op": "rewind", "idx": 2}),
                json!({"op": "rewind_runner", "idx": 1}),
            ];
            let mut case = json!({"cwd": k % 3, "init": listing_json(&init), "ops": ops, "shrink": true});
            if mode == "frozen" {
                case["clock"] = json!("frozen");
            }
            v.push(case);
        }
        // auto checkpoints: three writes / three patches of the same length in a row, each one undone to its predecessor
        let w = |step: u64, undo: bool| json!({"op": "tool", "name": "write", "args": write_args((k + step) % 2, t, &c(step)), "undo": undo, "undo_runner": step % 2 == 0});
        v.push(json!({"cwd": (k + 1) % 3, "clock": "frozen", "init": listing_json(&init), "shrink": true,
            "ops": [w(1, false), w(2, false), w(3, true), w(4, false), {"op": "rewind", "idx": 1}, {"op": "rewind", "idx": 0}, {"op": "rewind", "idx": 3}]}));
        let pu = |step: u64, undo: bool| {
            let lines = vec![format!("*** Update File: {t}"), "@@".to_string(), format!("-{t} v{}", step - 1), format!("+{t} v{step}")];
            json!({"op": "tool", "name": "apply_patch", "args": patch_op(vec![lines]), "undo": undo, "undo_runner": step % 2 == 1})
        };
        v.push(json!({"cwd": (k + 2) % 3, "clock": "frozen", "init": listing_json(&init), "shrink": true,
            "ops": [pu(1, false), pu(2, false), pu(3, true), {"op": "rewind", "idx": 1}, {"op": "rewind", "idx": 0}, {"op": "rewind", "idx": 2}]}));
        // a tool write, then the old time put back by hand, then the next tool write
        v.push(json!({"cwd": k % 3, "init": listing_json(&init), "shrink": true,
            "ops": [w(1, false), {"op": "edit", "how": "same_meta", "path": t, "salt": 3}, w(5, true), {"op": "edit", "how": "same_meta_replace", "path": t, "salt": 4}, w(6, true), {"op": "rewind", "idx": 1}, {"op": "rewind", "idx": 0}]}));
    }
    v
}

/// SYSTEMATIC block: every single decoration around existing / nested / new targets, through every tool with an auto
/// checkpoint (write atomic / plain / append / append without create, apply_patch add / delete / update / move), in a
/// workspace holding every sibling variant of every target; each call followed by the undo-by-effect check.
/// `per_deco` = how many of the (target, tool) combinations each decoration gets (rotating); 0 = all.
fn systematic(seed: u64, per_deco: usize) -> Vec<Value> {
    const TARGETS: [&str; 15] = [
        "a.txt", "d/x.txt", "new.txt", "d/Makefile", ".hidden", "d/archive.tar.gz", "m/n/new.txt", "sp ace.txt", "d/..a", "debug.log", ".git/config", "node_modules/pkg/index.js",
        "target/debug/out.o", "README.MD", "caf\u{e9}.txt",
    ];
    let mut decos: Vec<(&str, &str, &str)> = vec![];
    for p in PREFIXES.iter() {
        decos.push((p, "id", ""));
    }
    for i in INFIXES.iter().skip(1) {
        decos.push(("", i, ""));
    }
    for s in SUFFIXES.iter().skip(1) {
        decos.push(("", "id", s));
    }
    decos.push((" ", "id", " "));
    decos.push(("./", "dbl", "/"));
    decos.push(("\u{a0}", "id", "\u{2003}"));
    decos.push(("./", "id", " "));
    decos.push((" ", "dot", "\n"));
    let mut v = vec![];
    let mut k = seed as usize;
    for (pre, inf, suf) in decos {
        // quick: one group of three targets (rotating); thorough: three groups covering all nine
        let groups: Vec<Vec<usize>> = if per_deco == 0 { (0..5).map(|g| vec![3 * g, 3 * g + 1, 3 * g + 2]).collect() } else { vec![(0..3).map(|i| (k + i * 5) % TARGETS.len()).collect()] };
        for g in groups {
            let mut init = Listing::new();
            for p in FILES.iter().take(N_EXISTING) {
                put_file(&mut init, p, &init_content(p));
            }
            put_file(&mut init, "d/..a", "d/..a v0\n");
            for ti in &g {
                put_siblings(&mut init, TARGETS[*ti], &mut |i| per_deco == 0 || i % 2 == (k + ti) % 2 || i < 8);
            }
            put_siblings(&mut init, "moved.txt", &mut |i| i < 6);
            let mut combos: Vec<(usize, u64)> = vec![];
            for ti in &g {
                for tool in 0..8u64 {
                    combos.push((*ti, tool));
                }
            }
            let take = if per_deco == 0 { combos.len() } else { per_deco };
            let mut ops = vec![];
            for j in 0..take {
                // a stride coprime to 24 walks through all (target, tool) pairs before it repeats
                let (ti, tool) = combos[(k * 5 + j * 7) % combos.len()];
                let t = TARGETS[ti];
                let raw = decorate(pre, inf, suf, t);
                let step = (j + 1) as u64;
                let op = if tool < 4 {
                    json!({"op": "tool", "name": "write", "args": write_args(tool, &raw, &format!("sys {t} v{step}\n")), "undo": true, "undo_runner": j % 3 == 0})
                } else {
                    if !header_safe(&raw) {
                        continue;
                    }
                    // an Add of an existing file / a Delete of a missing one is refused by the tool: still a call with an auto checkpoint
                    let first = format!("{t} v0");
                    let dest = decorate(pre, inf, suf, "moved.txt");
                    json!({"op": "tool", "name": "apply_patch", "args": patch_op(vec![patch_lines(tool - 4, &raw, &first, &dest, step)]), "undo": true, "undo_runner": j % 3 == 1})
                };
                ops.push(op);
            }
            k += 1;
            v.push(json!({"cwd": (k % 3) as u64, "init": listing_json(&init), "ops": ops, "shrink": true}));
        }
    }
    v
}

/// ORACLE-ONLY histories (not replayed in Coq: the contents are too big for a term) with large binary files: sizes
/// around the buffer sizes a copy loop would use and well above them; checkpoint, overwrite / truncate / append through
/// the tools and the harness, undo, rewind - "exactly the bytes" for contents that are not a line of text
fn big_cases(seed: u64, thorough: bool) -> Vec<Value> {
    let sizes: &[u64] = if thorough { &[4095, 4096, 4097, 8192, 65535, 65536, 65537, 131073, 1048576, 1048577, 5 * 1048576 + 11] } else { &[4097, 65536, 65537, 1048577, 3 * 1048576 + 11] };
    let mut v = vec![];
    for (i, len) in sizes.iter().enumerate() {
        let salt = seed.wrapping_mul(31).wrapping_add(i as u64);
        v.push(json!({"cwd": (i % 3) as u64, "nocoq": true, "init": {"a.txt": "small\n", "d": "<dir>"},
            "big": [{"path": "big.bin", "len": len, "salt": salt}, {"path": "d/big2.bin", "len": len / 2 + 1, "salt": salt + 1000}],
            "ops": [
                {"op": "create", "raws": ["big.bin", "d/big2.bin", "a.txt"]},
                {"op": "edit", "how": "write", "path": "big.bin", "big": {"len": len + 1, "salt": salt + 1}},
                {"op": "edit", "how": "write", "path": "d/big2.bin", "content": "truncated\n"},
                {"op": "create_runner", "raws": ["{ROOT}/big.bin"]},
                {"op": "rewind", "idx": 0},
                {"op": "tool", "name": "write", "args": {"path": "big.bin", "content": "appended\n", "append": true}, "undo": true},
                {"op": "tool", "name": "write", "args": {"path": "d/big2.bin", "content": "replaced\n"}, "undo": true, "undo_runner": true},
                {"op": "edit", "how": "delete", "path": "big.bin"},
                {"op": "rewind_runner", "idx": 1},
                {"op": "rewind", "idx": 0},
                {"op": "tamper", "idx": 0, "which": 0, "how": "append", "content": "x"},
                {"op": "edit", "how": "write", "path": "big.bin", "bytes": [0, 1, 2]},
                {"op": "rewind", "idx": 0}
            ]}));
    }
    v
}

/// one patch / one history touching MANY files: 40 updates + 30 adds + 10 deletes + 5 moves in a single apply_patch call
/// (a checkpoint that takes only the first n paths, or only one kind of header, shows), then the undo by effect
fn wide_cases() -> Vec<Value> {
    let mut init = serde_json::Map::new();
    for i in 0..60 {
        init.insert(format!("w/f{i:02}.txt"), json!(format!("f{i} v0\n")));
    }
    init.insert("w".into(), json!("<dir>"));
    let mut ops = vec![];
    for i in 0..40 {
        ops.push(patch_lines(2, &format!("w/f{i:02}.txt"), &format!("f{i} v0"), "", 1));
    }
    for i in 0..30 {
        ops.push(patch_lines(0, &format!("w/new{i:02}/added.txt"), "", "", 1));
    }
    for i in 40..50 {
        ops.push(patch_lines(1, &format!("w/f{i:02}.txt"), "", "", 1));
    }
    for i in 50..55 {
        ops.push(patch_lines(3, &format!("w/f{i:02}.txt"), &format!("f{i} v0"), &format!("w/moved/m{i}.txt"), 1));
    }
    let mut rev = ops.clone();
    rev.reverse();
    vec![
        json!({"cwd": 0, "init": init, "ops": [{"op": "tool", "name": "apply_patch", "args": patch_op(ops), "undo": true}]}),
        json!({"cwd": 2, "init": init, "ops": [{"op": "tool", "name": "apply_patch", "args": patch_op(rev), "undo": true, "undo_runner": true}]}),
    ]
}

fn run_case(rt: &tokio::runtime::Runtime, case: &Value) -> Value {
    let cwd = case["cwd"].as_u64().unwrap_or(0);
    let mut r = Rng::new(case["seed"].as_u64().unwrap_or(1));
    let init = match case.get("init") {
        Some(v) if v.is_object() => listing_from_json(v),
        _ => gen_init(&mut r),
    };
    let mut init = init;
    if let Some(bigs) = case.get("big").and_then(|b| b.as_array()) {
        for b in bigs {
            let c: Comps = b["path"].as_str().unwrap_or("big.bin").split('/').map(|s| s.as_bytes().to_vec()).collect();
            for i in 1..c.len() {
                init.insert(c[..i].to_vec(), Node::Dir);
            }
            init.insert(c, Node::File(big_bytes(b["len"].as_u64().unwrap_or(0) as usize, b["salt"].as_u64().unwrap_or(0))));
        }
    }
    let sbx = Sandbox::new("c14", &init);
    let ws = Workspace::new(&sbx.root).expect("workspace");
    let hook = ripd::verif::workspace_checkpoint_hook(sbx.root.clone()).expect("hook");
    let reg = registry(&sbx.root);
    let names = Names::of(&reg);
    let runner = ToolRunner::with_checkpoint_hook(reg, 1, hook);
    let plain = ToolRunner::new(registry(&sbx.root), 1);
    std::env::set_current_dir(sbx.cwd_dir(cwd)).expect("chdir");
    let root_s = sbx.root.to_string_lossy().to_string();
    let init_listing = ws_listing(&sbx.root);
    let mut w = World { sbx: &sbx, ws, runner, plain, rt, seq: 0, cks: vec![], root_s: root_s.clone(), last: init_listing.clone(), names: names.clone(), frozen: case["clock"] == "frozen" };
    if w.frozen {
        freeze_tree(&sbx.root);
    }
    let mut run = Run::default();
    if let Some(ops) = case.get("ops").and_then(|o| o.as_array()) {
        for op in ops {
            w.exec(&mut run, op);
        }
    } else {
        let n = case["n_ops"].as_u64().unwrap_or(6);
        for step in 0..n {
            let op = gen_op(&mut r, &sbx.root, w.cks.len(), step + 1, &names);
            w.exec(&mut run, &op);
        }
    }
    let _ = std::env::set_current_dir("/");
    let nocoq = case["nocoq"].as_bool().unwrap_or(false);
    let coq = if nocoq { String::new() } else { format!("{{| c_root := {}; c_init := {}; c_ops := [{}] |}}", coq_str(&root_s), coq_fs_cp(&init_listing), run.coq_ops.join("; ")) };
    // generated big files stay a specification in the replay
    let mut small_init = init_listing.clone();
    let mut replay = json!({"cwd": cwd, "ops": run.done});
    if case["clock"] == "frozen" {
        replay["clock"] = json!("frozen");
    }
    if let Some(bigs) = case.get("big").and_then(|b| b.as_array()) {
        for b in bigs {
            let c: Comps = b["path"].as_str().unwrap_or("big.bin").split('/').map(|s| s.as_bytes().to_vec()).collect();
            small_init.remove(&c);
        }
        replay["big"] = json!(bigs);
        replay["nocoq"] = json!(true);
    }
    replay["init"] = listing_json(&small_init);
    json!({"coq": coq, "viol": run.viol.iter().map(|(w, c)| json!({"what": w, "class": c})).collect::<Vec<_>>(), "stats": run.stats,
           "replay": replay, "n_cks": w.cks.len()})
}

/// delta-debug the history of a failing generated case: fewest operations that still show the same class
fn shrink_case(rt: &tokio::runtime::Runtime, first: &Value) -> Value {
    let class = first["viol"][0]["class"].as_str().unwrap_or("").to_string();
    let init = first["replay"]["init"].clone();
    let cwd = first["replay"]["cwd"].clone();
    let ops: Vec<Value> = first["replay"]["ops"].as_array().cloned().unwrap_or_default();
    let clock = first["replay"]["clock"].clone();
    let mk = |cand: &[Value]| json!({"cwd": cwd, "init": init, "ops": cand, "clock": clock});
    let small = shrink_vec(ops, |cand| {
        let o = run_case(rt, &mk(cand));
        o["viol"].as_array().map(|v| v.iter().any(|x| x["class"] == class.as_str())).unwrap_or(false)
    });
    // ... then the fewest files of the initial workspace (directories stay)
    let entries: Vec<(String, Value)> = init.as_object().map(|m| m.iter().map(|(k, v)| (k.clone(), v.clone())).collect()).unwrap_or_default();
    let (dirs, files): (Vec<_>, Vec<_>) = entries.into_iter().partition(|(_, v)| v.as_str() == Some("<dir>"));
    let mk_init = |fs: &[(String, Value)]| -> Value {
        let mut m = serde_json::Map::new();
        for (k, v) in dirs.iter().chain(fs.iter()) {
            m.insert(k.clone(), v.clone());
        }
        Value::Object(m)
    };
    let small_files = if files.len() <= 400 {
        shrink_vec(files.clone(), |cand| {
            let o = run_case(rt, &json!({"cwd": cwd, "init": mk_init(cand), "ops": small, "clock": clock}));
            o["viol"].as_array().map(|v| v.iter().any(|x| x["class"] == class.as_str())).unwrap_or(false)
        })
    } else {
        files.clone()
    };
    let o = run_case(rt, &json!({"cwd": cwd, "init": mk_init(&small_files), "ops": small, "clock": clock}));
    if o["viol"].as_array().map(|v| v.iter().any(|x| x["class"] == class.as_str())).unwrap_or(false) {
        return o;
    }
    let o = run_case(rt, &mk(&small));
    if o["viol"].as_array().map(|v| !v.is_empty()).unwrap_or(false) {
        o
    } else {
        first.clone()
    }
}

fn worker(a: &Args) {
    let jobs: Vec<Value> = serde_json::from_slice(&std::fs::read(a.extra.get("worker").unwrap()).unwrap()).unwrap();
    let wdir = a.extra.get("wout").and_then(|p| std::path::Path::new(p).parent().map(|p| p.to_path_buf())).unwrap_or_default();
    let _ = jail_readonly_root(&[std::path::Path::new("/var/tmp"), std::path::Path::new("/tmp"), &wdir]);
    let rt = tokio::runtime::Builder::new_current_thread().enable_all().build().unwrap();
    let mut res = vec![];
    for j in &jobs {
        let got = std::panic::catch_unwind(std::panic::AssertUnwindSafe(|| {
            let o = run_case(&rt, j);
            if (j.get("ops").is_none() || j["shrink"].as_bool().unwrap_or(false)) && o["viol"].as_array().map(|v| !v.is_empty()).unwrap_or(false) {
                shrink_case(&rt, &o)
            } else {
                o
            }
        }));
        let _ = std::env::set_current_dir("/");
        res.push(got.unwrap_or_else(|_| json!({"panicked": true})));
    }
    std::fs::write(a.extra.get("wout").unwrap(), serde_json::to_vec(&res).unwrap()).unwrap();
}

fn corpus(dir: &std::path::Path) -> Vec<Value> {
    let mut v = vec![];
    let mut names: Vec<_> = std::fs::read_dir(dir).map(|rd| rd.flatten().map(|e| e.path()).collect()).unwrap_or_default();
    names.sort();
    for p in names {
        if p.extension().map(|e| e == "json").unwrap_or(false) {
            if let Ok(j) = serde_json::from_str::<Value>(&std::fs::read_to_string(&p).unwrap_or_default()) {
                let c = j.get("case").cloned().unwrap_or(j);
                if let Some(a) = c.as_array() {
                    v.extend(a.iter().cloned());
                } else {
                    v.push(c);
                }
            }
        }
    }
    v
}

fn main() {
    let a = parse_args();
    if a.extra.contains_key("worker") {
        return worker(&a);
    }
    let verif_root = a.extra.get("verif").cloned().unwrap_or_else(|| env!("CARGO_MANIFEST_DIR").to_string() + "/..");
    let mut res = RunResult::new("C14", &a);
    res.rule = "cases = (initial workspace, history, process cwd): 3-10 operations drawn from checkpoint create (Workspace API / ToolRunner + real hook; 1-4 paths: existing, missing, nested, './', '//', '/./', trailing '/', absolute inside the root, directories, the root, '..' and outside paths), harness edits (write, delete, mkdir, file replaced by a directory and back, rmtree), write (atomic / plain / append / append without create) and apply_patch (add, update, move, delete) through ToolRunner::run with auto-checkpoints - path arguments and patch headers decorated (leading / trailing blanks incl. unicode blanks and newlines, './', '//', '/./', trailing '/', backslashes, ...), each call followed (3 of 4) by a rewind to its own auto checkpoint judged by effect (whole tree before the call = tree after the rewind) - and rewinds to any earlier checkpoint in any order; stored copies changed / appended to through the write tool or removed (the store lies inside the workspace); workspaces hold siblings of the targets (<stem>.tmp, <name>.tmp, <name>~, .<name>.swp, <name>.tmp-x, <name>.bak, ...); a systematic block runs every single decoration x target x tool; a names block runs EVERY name the real registry resolves (registered names and aliases, ToolRegistry::verif_names) and names close to them through ToolRunner::run with the argument shapes of every file-editing tool, judged by effect (a call that changed a file has an auto checkpoint before it, and the rewind to it restores every file), and the random histories call a handler by any name that reaches it; a stamps block and a third of the random histories run on a FROZEN clock (every workspace file keeps one modification time) or put the old time back after an edit of the same length (in place / by replacement), with several checkpoints of the same file in one session rewound in several orders; cwd in {root, sibling, parent}; non-trivial = at least one successful create and one rewind".into();
    let n = if a.thorough() { 8000 } else { 400 };
    let mut r = Rng::new(a.seed);
    let mut jobs: Vec<Value> = if let Some(rp) = &a.replay {
        let j: Value = serde_json::from_str(&std::fs::read_to_string(rp).unwrap()).unwrap();
        vec![j.get("case").cloned().unwrap_or(j)]
    } else {
        corpus(&std::path::Path::new(&verif_root).join("corpus/C14"))
    };
    if a.replay.is_none() {
        // every name the real registry resolves, read from it now
        let names = Names::of(&registry(std::path::Path::new("/var/tmp")));
        res.bump_by("names-registered", names.tools.len() as u64);
        res.bump_by("names-aliases", names.aliases.len() as u64);
        jobs.extend(names_cases(&names, a.seed));
        jobs.extend(stamp_cases(a.seed));
        jobs.extend(systematic(a.seed, if a.thorough() { 0 } else { 12 }));
        jobs.extend(big_cases(a.seed, a.thorough()));
        jobs.extend(wide_cases());
        for _ in 0..n {
            let mut j = json!({"seed": r.next(), "cwd": r.below(3), "n_ops": r.range(3, 10)});
            if r.chance(1, 3) {
                j["clock"] = json!("frozen");
            }
            jobs.push(j);
        }
    }
    let obs = run_workers(&a.out, &jobs, 6, 3000);
    let mut w = CaseWriter::new(&a.out, "Model.Checkpoint", "check_case", "model_obs", 25);
    let mut distinct = Distinct::default();
    for (i, (j, o)) in jobs.iter().zip(obs.iter()).enumerate() {
        res.evaluations += 1;
        res.oracle_checks += 1;
        res.bump(&format!("cwd={}", j["cwd"]));
        if o.get("panicked").is_some() || o.get("crashed").is_some() {
            res.impl_panics += 1;
            res.oracle_violations.push(OracleViolation { case_id: i as i64, what: "checkpoint history panicked / the worker died".into(), class: "panic".into(), replay: j.clone() });
            continue;
        }
        let replay = o["replay"].clone();
        if let Some(st) = o["stats"].as_object() {
            for (k, v) in st {
                res.bump_by(k, v.as_u64().unwrap_or(0));
            }
        }
        for v in o["viol"].as_array().cloned().unwrap_or_default() {
            res.oracle_violations.push(OracleViolation { case_id: i as i64, what: v["what"].as_str().unwrap_or("").into(), class: v["class"].as_str().unwrap_or("").into(), replay: replay.clone() });
        }
        if !a.oracle_only() && !j["nocoq"].as_bool().unwrap_or(false) {
            let id = w.push(o["coq"].as_str().unwrap_or("").to_string());
            if res.case_index.len() < 1500 {
                res.case_index.insert(id.to_string(), replay.clone());
            }
        }
        let st = &o["stats"];
        if o["n_cks"].as_u64().unwrap_or(0) > 0 && (st["rewind-ok"].as_u64().unwrap_or(0) + st["rewind-failed"].as_u64().unwrap_or(0)) > 0 {
            distinct.add(&replay.to_string());
            if res.samples.len() < 2 && i % 13 == 4 {
                res.samples.push(replay.clone());
            }
        }
    }
    w.flush();
    res.distinct_nontrivial = distinct.count();
    res.case_files = w.files.iter().map(|p| p.display().to_string()).collect();
    res.write(&a.out);
    let mut classes = std::collections::BTreeMap::new();
    for v in &res.oracle_violations {
        *classes.entry(v.class.clone()).or_insert(0u64) += 1;
    }
    println!("c14: {} cases, {} distinct non-trivial, {} oracle violations {:?}, {} panics", res.evaluations, res.distinct_nontrivial, res.oracle_violations.len(), classes, res.impl_panics);
}
