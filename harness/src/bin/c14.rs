//! C14 — rewind restores exactly the checkpointed files from any later state.
//! Histories of checkpoint creates (Workspace API, ToolRunner + the real WorkspaceCheckpointHook,
//! auto-checkpoints of write / apply_patch), edits (files written, deleted, replaced by directories
//! and back, tools) and rewinds in any order, with the process cwd equal to the root, next to it and
//! above it (child processes).  Correspondence: every create / rewind vs coq/Model/Checkpoint.v
//! (result code, recorded paths + exists flags, workspace listing after).  Oracle (independent of
//! the model): after a successful rewind every covered path has the bytes / absence the harness saw
//! at create time and no other file changed; a failed rewind changes no file; an auto-checkpoint
//! precedes tool_started and covers every file the tool changed, and rewinding to it undoes the edit;
//! nothing outside the root changes.
#[path = "../ws_common.rs"]
mod ws_common;
#[path = "../ws13_common.rs"]
mod ws13_common;
use rip_kernel::EventKind;
use rip_tools::{ToolInvocation, ToolRunner};
use rip_workspace::Workspace;
use rv::*;
use serde_json::{json, Value};
use std::collections::BTreeMap;
use std::path::PathBuf;
use std::sync::Arc;
use ws13_common::*;
use ws_common::*;

fn registry(root: &std::path::Path) -> Arc<rip_tools::ToolRegistry> {
    let registry = Arc::new(rip_tools::ToolRegistry::default());
    let cfg = rip_tools::BuiltinToolConfig { workspace_root: root.to_path_buf(), ..Default::default() };
    rip_tools::register_builtin_tools(&registry, cfg);
    registry
}

/// workspace listing without the checkpoint store
fn ws_listing(root: &std::path::Path) -> Listing {
    list_tree(root).into_iter().filter(|(c, _)| c.first().map(|x| x.as_slice() != b".rip").unwrap_or(true)).collect()
}
fn files_of(l: &Listing) -> BTreeMap<Comps, Vec<u8>> {
    files_only(l)
}
/// independent normalisation of a requested path: components below the root, None = not a path below the root
fn norm(raw: &str, root: &str) -> Option<Comps> {
    if raw.split('/').any(|s| s == "..") {
        return None;
    }
    let c = |s: &str| -> Comps { s.split('/').filter(|x| !x.is_empty() && *x != ".").map(|x| x.as_bytes().to_vec()).collect() };
    if raw.starts_with('/') {
        let (a, b) = (c(raw), c(root));
        if a.len() >= b.len() && a[..b.len()] == b[..] {
            Some(a[b.len()..].to_vec())
        } else {
            None
        }
    } else {
        Some(c(raw))
    }
}
fn code_of_msg(m: &str) -> u64 {
    if m.contains("path escapes workspace root") {
        2
    } else if m.contains("path outside workspace") {
        4
    } else if m.contains("Is a directory") {
        5
    } else if m.contains("Not a directory") {
        6
    } else if m.contains("absolute paths are not allowed") {
        1
    } else {
        99
    }
}

struct Ck {
    id: String,
    expect: Vec<(Comps, Option<Vec<u8>>)>, // what the harness saw at create time, per covered path
}

#[derive(Default)]
struct Run {
    coq_ops: Vec<String>,
    done: Vec<Value>,
    viol: Vec<(String, String)>,
    stats: BTreeMap<String, u64>,
}

fn coq_name(c: &[u8]) -> String {
    coq_str(&String::from_utf8_lossy(c))
}
fn coq_fs_cp(l: &Listing) -> String {
    let mut parts = vec![];
    for (c, n) in l {
        let ns = match n {
            Node::Dir => "Dir".to_string(),
            Node::File(b) => format!("File {}", ws_common::coq_bytes(b)),
        };
        parts.push(format!("({}, {})", coq_list(c, |x| coq_name(x)), ns));
    }
    format!("[{}]", parts.join("; "))
}

struct World<'a> {
    sbx: &'a Sandbox,
    ws: Workspace,
    runner: ToolRunner,
    rt: &'a tokio::runtime::Runtime,
    seq: u64,
    cks: Vec<Ck>,
    root_s: String,
}

impl<'a> World<'a> {
    fn bump(run: &mut Run, k: &str) {
        *run.stats.entry(k.to_string()).or_insert(0) += 1;
    }
    fn outside_check(&self, run: &mut Run, name: &str, before: &Listing, after: &Listing) {
        let ch: Vec<Change> = diff(before, after).into_iter().filter(|c| !is_ws(&c.path)).collect();
        if !ch.is_empty() {
            run.viol.push((format!("{name}: outside the workspace root: {}", show_changes(&ch)), format!("outside_{}", ch[0].kind)));
        }
    }
    /// register a checkpoint the implementation reported, with the harness's own record of the covered files
    fn register(&mut self, run: &mut Run, id: &str, raws: &[String], code: u64, before: &Listing, after: &Listing) {
        let mut recorded: Vec<(String, bool)> = vec![];
        if code == 0 {
            if let Ok(list) = self.ws.list_checkpoints("s1") {
                if let Some(c) = list.into_iter().find(|c| c.id == id) {
                    recorded = c.files.iter().map(|f| (f.path.clone(), f.exists)).collect();
                }
            }
            let fb = files_of(before);
            let mut expect = vec![];
            for r in raws {
                if let Some(c) = norm(r, &self.root_s) {
                    expect.push((c.clone(), fb.get(&c).cloned()));
                }
            }
            // the store must agree with what the harness saw
            for ((c, want), (p, ex)) in expect.iter().zip(recorded.iter()) {
                if want.is_some() != *ex {
                    run.viol.push((format!("create recorded exists={ex} for '{p}' but the file {} at create time", if want.is_some() { "existed" } else { "did not exist" }), "covered_file_not_recorded".into()));
                }
                let _ = c;
            }
            self.cks.push(Ck { id: id.to_string(), expect });
        }
        if files_of(before) != files_of(after) {
            run.viol.push(("checkpoint create changed workspace files".into(), "create_changed_files".into()));
        }
        run.coq_ops.push(format!(
            "(OCreate {} {} {}, {})",
            coq_list(raws, |s| coq_str(s)),
            code,
            coq_list(&recorded, |(p, e)| format!("({}, {})", coq_str(p), coq_bool(*e))),
            coq_fs_cp(after)
        ));
    }

    fn exec(&mut self, run: &mut Run, op: &Value) {
        let kind = op["op"].as_str().unwrap_or("");
        Self::bump(run, &format!("op={kind}"));
        let all_before = self.sbx.snapshot();
        let before = ws_listing(&self.sbx.root);
        match kind {
            "create" | "create_runner" => {
                let raws: Vec<String> = op["raws"].as_array().map(|a| a.iter().map(|x| self.sbx.subst(x.as_str().unwrap_or(""))).collect()).unwrap_or_default();
                let files: Vec<PathBuf> = raws.iter().map(PathBuf::from).collect();
                let (code, id) = if kind == "create" {
                    match self.ws.create_checkpoint("s1", "manual", &files) {
                        Ok(c) => (0, c.id),
                        Err(e) => (code_of_msg(&e.to_string()), String::new()),
                    }
                } else {
                    let evs = self.runner.create_checkpoint("s1", &mut self.seq, "manual".into(), files);
                    let mut r = (99, String::new());
                    for e in &evs {
                        match &e.kind {
                            EventKind::CheckpointCreated { checkpoint_id, .. } => r = (0, checkpoint_id.clone()),
                            EventKind::CheckpointFailed { error, .. } => r = (code_of_msg(error), String::new()),
                            _ => {}
                        }
                    }
                    r
                };
                let after = ws_listing(&self.sbx.root);
                Self::bump(run, &format!("create-code={code}"));
                self.register(run, &id, &raws, code, &before, &after);
            }
            "rewind" | "rewind_runner" => {
                if self.cks.is_empty() {
                    return;
                }
                let idx = (op["idx"].as_u64().unwrap_or(0) as usize) % self.cks.len();
                let id = self.cks[idx].id.clone();
                let ok = if kind == "rewind" {
                    self.ws.rewind_to_checkpoint("s1", &id).is_ok()
                } else {
                    let evs = self.runner.rewind_checkpoint("s1", &mut self.seq, &id);
                    evs.iter().any(|e| matches!(e.kind, EventKind::CheckpointRewound { .. }))
                };
                let after = ws_listing(&self.sbx.root);
                Self::bump(run, if ok { "rewind-ok" } else { "rewind-failed" });
                let fb = files_of(&before);
                let fa = files_of(&after);
                if ok {
                    let covered: Vec<&Comps> = self.cks[idx].expect.iter().map(|(c, _)| c).collect();
                    for (c, want) in &self.cks[idx].expect {
                        if fa.get(c) != want.as_ref() {
                            run.viol.push((
                                format!("after rewind, covered path {} is {} but was {} when the checkpoint was taken", show_comps(c), desc(fa.get(c)), desc(want.as_ref())),
                                "covered_file_not_restored".into(),
                            ));
                        }
                    }
                    for p in fb.keys().chain(fa.keys()) {
                        if !covered.contains(&p) && fb.get(p) != fa.get(p) {
                            run.viol.push((format!("rewind changed the uncovered file {}", show_comps(p)), "rewind_touched_uncovered".into()));
                            break;
                        }
                    }
                } else if fb != fa {
                    run.viol.push(("a failed rewind changed workspace files".into(), "failed_rewind_changed_files".into()));
                }
                run.coq_ops.push(format!("(ORewind {} {}, {})", idx, if ok { 0 } else { 1 }, coq_fs_cp(&after)));
            }
            "edit" => {
                let p = self.sbx.root.join(op["path"].as_str().unwrap_or("x"));
                match op["how"].as_str().unwrap_or("") {
                    "write" => {
                        if let Some(par) = p.parent() {
                            let _ = std::fs::create_dir_all(par);
                        }
                        let _ = std::fs::write(&p, op["content"].as_str().unwrap_or(""));
                    }
                    "delete" => {
                        let _ = std::fs::remove_file(&p);
                    }
                    "mkdir" => {
                        let _ = std::fs::create_dir_all(&p);
                    }
                    "to_dir" => {
                        let _ = std::fs::remove_file(&p);
                        let _ = std::fs::create_dir_all(&p);
                        let _ = std::fs::write(p.join("inner.txt"), "inner\n");
                    }
                    "to_file" => {
                        let _ = std::fs::remove_dir_all(&p);
                        let _ = std::fs::remove_file(&p);
                        if let Some(par) = p.parent() {
                            let _ = std::fs::create_dir_all(par);
                        }
                        let _ = std::fs::write(&p, op["content"].as_str().unwrap_or("now a file\n"));
                    }
                    _ => {
                        let _ = std::fs::remove_dir_all(&p);
                    }
                }
                let after = ws_listing(&self.sbx.root);
                run.coq_ops.push(format!("(OEdit {}, {})", coq_fs_cp(&after), coq_fs_cp(&after)));
            }
            "tool" => {
                let name = op["name"].as_str().unwrap_or("write").to_string();
                let mut args = op["args"].clone();
                if let Some(p) = args.get("path").and_then(|p| p.as_str()) {
                    args["path"] = json!(self.sbx.subst(p));
                }
                let evs = self.rt.block_on(self.runner.run("s1", &mut self.seq, ToolInvocation { name: name.clone(), args: args.clone(), timeout_ms: None }));
                let after = ws_listing(&self.sbx.root);
                let mut created: Option<(String, Vec<String>)> = None;
                let mut failed: Option<String> = None;
                let mut started_at = None;
                let mut ck_at = None;
                let mut tool_ok = false;
                for (i, e) in evs.iter().enumerate() {
                    match &e.kind {
                        EventKind::CheckpointCreated { checkpoint_id, files, auto, .. } => {
                            ck_at = Some(i);
                            if !auto {
                                run.viol.push(("auto checkpoint frame not marked auto".into(), "auto_flag".into()));
                            }
                            created = Some((checkpoint_id.clone(), files.clone()));
                        }
                        EventKind::CheckpointFailed { error, .. } => {
                            ck_at = Some(i);
                            failed = Some(error.clone());
                        }
                        EventKind::ToolStarted { .. } => started_at = Some(i),
                        EventKind::ToolEnded { exit_code, .. } => tool_ok = *exit_code == 0,
                        _ => {}
                    }
                }
                let changed: Vec<Comps> = {
                    let fb = files_of(&before);
                    let fa = files_of(&after);
                    fb.keys().chain(fa.keys()).filter(|p| fb.get(*p) != fa.get(*p)).cloned().collect::<std::collections::BTreeSet<_>>().into_iter().collect()
                };
                Self::bump(run, &format!("tool={name}{}", if changed.is_empty() { "-nochange" } else { "" }));
                let only_tmp_leftovers = !tool_ok
                    && !changed.is_empty()
                    && changed.iter().all(|p| {
                        let fb = files_of(&before);
                        !fb.contains_key(p) && p.last().map(|n| String::from_utf8_lossy(n).contains(".tmp-")).unwrap_or(false)
                    });
                if only_tmp_leftovers {
                    run.viol.push((format!("a failed {name} left its temporary file {} behind (not covered by any checkpoint)", show_comps(&changed[0])), "failed_write_leaves_tmp_file".into()));
                } else if !changed.is_empty() {
                    match (&created, ck_at, started_at) {
                        (Some((_, files)), Some(c), Some(s)) => {
                            if c > s {
                                run.viol.push(("the auto checkpoint frame does not precede tool_started".into(), "auto_checkpoint_after_start".into()));
                            }
                            let cov: Vec<Comps> = files.iter().filter_map(|f| norm(f, &self.root_s)).collect();
                            for p in &changed {
                                if !cov.contains(p) {
                                    run.viol.push((format!("{name} changed {} which its auto checkpoint does not cover", show_comps(p)), "auto_checkpoint_not_covering".into()));
                                }
                            }
                        }
                        _ => run.viol.push((format!("{name} changed files without a preceding auto checkpoint ({:?})", failed), "auto_checkpoint_missing".into())),
                    }
                }
                // what the auto checkpoint was asked to cover
                let mut parsed = true;
                let raws: Vec<String> = if name == "write" {
                    vec![args["path"].as_str().unwrap_or("").to_string()]
                } else {
                    match rip_workspace::Patch::parse(args["patch"].as_str().unwrap_or("")) {
                        Ok(p) => p.affected_paths().iter().map(|x| x.to_string_lossy().to_string()).collect(),
                        Err(_) => {
                            parsed = false;
                            vec![]
                        }
                    }
                };
                if !parsed {
                    // files_for_invocation failed before any path reached the checkpoint store
                } else if let Some((id, _)) = &created {
                    self.register(run, id, &raws, 0, &before, &before);
                } else if let Some(err) = &failed {
                    let code = code_of_msg(err);
                    if code != 1 && code != 99 {
                        self.register(run, "", &raws, code, &before, &before);
                    }
                }
                run.coq_ops.push(format!("(OEdit {}, {})", coq_fs_cp(&after), coq_fs_cp(&after)));
            }
            _ => {}
        }
        let all_after = self.sbx.snapshot();
        self.outside_check(run, kind, &all_before, &all_after);
        run.done.push(op.clone());
    }
}
fn desc(b: Option<&Vec<u8>>) -> String {
    match b {
        None => "absent".into(),
        Some(b) => format!("{:?}", String::from_utf8_lossy(b)),
    }
}

// ------------------------------------------------------------------ generation (inside the worker: ops depend on the state)
const FILES: [&str; 9] = ["a.txt", "b.txt", "d/x.txt", "d/y.txt", "d/e/z.txt", "n/o/p.txt", "sp ace.txt", "new.txt", "m/n/new.txt"];
fn variant(r: &mut Rng, p: &str) -> String {
    match r.below(14) {
        0 => format!("./{p}"),
        1 => format!("{p}/"),
        2 => p.replacen('/', "//", 1),
        3 => p.replacen('/', "/./", 1),
        4 | 5 => format!("{{ROOT}}/{p}"),
        6 => format!("{{ROOT}}//{p}"),
        7 => format!("{p}/."),
        _ => p.to_string(),
    }
}
fn gen_raw(r: &mut Rng) -> String {
    match r.below(20) {
        0 => r.pick(&["../outside.txt", "d/../a.txt", "{SB}/outside.txt", "{ROOT}/../outside.txt"]).to_string(),
        1 => r.pick(&["d", "", "{ROOT}", "d/e", "."]).to_string(),
        _ => {
            let p = *r.pick(&FILES[..]);
            variant(r, p)
        }
    }
}
fn gen_init(r: &mut Rng) -> Listing {
    let mut l = Listing::new();
    for p in FILES.iter().take(7) {
        if r.chance(2, 3) {
            let c: Comps = p.split('/').map(|s| s.as_bytes().to_vec()).collect();
            for i in 1..c.len() {
                l.insert(c[..i].to_vec(), Node::Dir);
            }
            l.insert(c, Node::File(format!("{p} v0\n").into_bytes()));
        }
    }
    if r.chance(1, 4) {
        l.insert(vec![b"emptydir".to_vec()], Node::Dir);
    }
    l
}
fn gen_op(r: &mut Rng, root: &std::path::Path, n_cks: usize, step: u64) -> Value {
    let cur = ws_listing(root);
    let files: Vec<String> = files_of(&cur).keys().map(show_comps).collect();
    let k = r.below(12);
    if k < 3 {
        let n = r.range(1, 4);
        let raws: Vec<String> = (0..n).map(|_| gen_raw(r)).collect();
        return json!({"op": if r.chance(1, 3) { "create_runner" } else { "create" }, "raws": raws});
    }
    if k < 6 && n_cks > 0 {
        return json!({"op": if r.chance(1, 3) { "rewind_runner" } else { "rewind" }, "idx": r.below(n_cks as u64)});
    }
    if k < 9 {
        let p = *r.pick(&FILES[..]);
        let how = *r.pick(&["write", "write", "write", "delete", "delete", "mkdir", "to_dir", "to_file", "to_file", "to_file", "rmtree"]);
        let path = match how {
            "to_file" | "rmtree" => r.pick(&["d", "d/e", "n", "m", "a.txt", "n/o"]).to_string(),
            "mkdir" => r.pick(&["newdir", "d/sub", "m"]).to_string(),
            "delete" if !files.is_empty() => r.pick(&files).clone(),
            _ => p.to_string(),
        };
        return json!({"op": "edit", "how": how, "path": path, "content": format!("{path} v{step}\n")});
    }
    // tools through the ToolRunner (auto checkpoint)
    if r.chance(1, 2) {
        let p = *r.pick(&FILES[..]);
        let raw = match r.below(10) {
            0 => format!("./{p}"),
            1 => p.replacen('/', "//", 1),
            2 => format!("{{ROOT}}/{p}"),
            3 => "../outside.txt".to_string(),
            _ => p.to_string(),
        };
        let mut args = json!({"path": raw, "content": format!("tool {p} v{step}\n")});
        match r.below(4) {
            0 => args["atomic"] = json!(false),
            1 => args["append"] = json!(true),
            _ => {}
        }
        return json!({"op": "tool", "name": "write", "args": args});
    }
    let mut lines = vec!["*** Begin Patch".to_string()];
    let nops = r.range(1, 3);
    for _ in 0..nops {
        match r.below(4) {
            0 => {
                lines.push(format!("*** Add File: {}", r.pick(&["added.txt", "d/added.txt", "q/r/added.txt", "new.txt"])));
                lines.push(format!("+added v{step}"));
            }
            1 if !files.is_empty() => lines.push(format!("*** Delete File: {}", r.pick(&files))),
            _ if !files.is_empty() => {
                let f = r.pick(&files).clone();
                let text = std::fs::read_to_string(root.join(&f)).unwrap_or_default();
                let first = text.lines().next().unwrap_or("").to_string();
                lines.push(format!("*** Update File: {f}"));
                if r.chance(1, 3) {
                    lines.push(format!("*** Move to: {}", r.pick(&["moved.txt", "d/moved.txt", "z/moved.txt"])));
                }
                lines.push("@@".into());
                lines.push(format!("-{first}"));
                lines.push(format!("+patched v{step}"));
            }
            _ => {
                lines.push("*** Add File: added2.txt".into());
                lines.push("+x".into());
            }
        }
    }
    lines.push("*** End Patch".into());
    json!({"op": "tool", "name": "apply_patch", "args": {"patch": lines.join("\n")}})
}

fn run_case(rt: &tokio::runtime::Runtime, case: &Value) -> Value {
    let cwd = case["cwd"].as_u64().unwrap_or(0);
    let mut r = Rng::new(case["seed"].as_u64().unwrap_or(1));
    let init = match case.get("init") {
        Some(v) if v.is_object() => listing_from_json(v),
        _ => gen_init(&mut r),
    };
    let sbx = Sandbox::new("c14", &init);
    let ws = Workspace::new(&sbx.root).expect("workspace");
    let hook = ripd::verif::workspace_checkpoint_hook(sbx.root.clone()).expect("hook");
    let runner = ToolRunner::with_checkpoint_hook(registry(&sbx.root), 1, hook);
    std::env::set_current_dir(sbx.cwd_dir(cwd)).expect("chdir");
    let root_s = sbx.root.to_string_lossy().to_string();
    let init_listing = ws_listing(&sbx.root);
    let mut w = World { sbx: &sbx, ws, runner, rt, seq: 0, cks: vec![], root_s: root_s.clone() };
    let mut run = Run::default();
    if let Some(ops) = case.get("ops").and_then(|o| o.as_array()) {
        for op in ops {
            w.exec(&mut run, op);
        }
    } else {
        let n = case["n_ops"].as_u64().unwrap_or(6);
        for step in 0..n {
            let op = gen_op(&mut r, &sbx.root, w.cks.len(), step + 1);
            w.exec(&mut run, &op);
        }
    }
    let _ = std::env::set_current_dir("/");
    let coq = format!("{{| c_root := {}; c_init := {}; c_ops := [{}] |}}", coq_str(&root_s), coq_fs_cp(&init_listing), run.coq_ops.join("; "));
    json!({"coq": coq, "viol": run.viol.iter().map(|(w, c)| json!({"what": w, "class": c})).collect::<Vec<_>>(), "stats": run.stats,
           "replay": {"cwd": cwd, "init": listing_json(&init_listing), "ops": run.done}, "n_cks": w.cks.len()})
}

/// delta-debug the history of a failing generated case: fewest operations that still show the same class
fn shrink_case(rt: &tokio::runtime::Runtime, first: &Value) -> Value {
    let class = first["viol"][0]["class"].as_str().unwrap_or("").to_string();
    let init = first["replay"]["init"].clone();
    let cwd = first["replay"]["cwd"].clone();
    let ops: Vec<Value> = first["replay"]["ops"].as_array().cloned().unwrap_or_default();
    let mk = |cand: &[Value]| json!({"cwd": cwd, "init": init, "ops": cand});
    let small = shrink_vec(ops, |cand| {
        let o = run_case(rt, &mk(cand));
        o["viol"].as_array().map(|v| v.iter().any(|x| x["class"] == class.as_str())).unwrap_or(false)
    });
    let o = run_case(rt, &mk(&small));
    if o["viol"].as_array().map(|v| !v.is_empty()).unwrap_or(false) {
        o
    } else {
        first.clone()
    }
}

fn worker(a: &Args) {
    let jobs: Vec<Value> = serde_json::from_slice(&std::fs::read(a.extra.get("worker").unwrap()).unwrap()).unwrap();
    let wdir = a.extra.get("wout").and_then(|p| std::path::Path::new(p).parent().map(|p| p.to_path_buf())).unwrap_or_default();
    let _ = jail_readonly_root(&[std::path::Path::new("/var/tmp"), std::path::Path::new("/tmp"), &wdir]);
    let rt = tokio::runtime::Builder::new_current_thread().enable_all().build().unwrap();
    let mut res = vec![];
    for j in &jobs {
        let got = std::panic::catch_unwind(std::panic::AssertUnwindSafe(|| {
            let o = run_case(&rt, j);
            if j.get("ops").is_none() && o["viol"].as_array().map(|v| !v.is_empty()).unwrap_or(false) {
                shrink_case(&rt, &o)
            } else {
                o
            }
        }));
        let _ = std::env::set_current_dir("/");
        res.push(got.unwrap_or_else(|_| json!({"panicked": true})));
    }
    std::fs::write(a.extra.get("wout").unwrap(), serde_json::to_vec(&res).unwrap()).unwrap();
}

fn corpus(dir: &std::path::Path) -> Vec<Value> {
    let mut v = vec![];
    let mut names: Vec<_> = std::fs::read_dir(dir).map(|rd| rd.flatten().map(|e| e.path()).collect()).unwrap_or_default();
    names.sort();
    for p in names {
        if p.extension().map(|e| e == "json").unwrap_or(false) {
            if let Ok(j) = serde_json::from_str::<Value>(&std::fs::read_to_string(&p).unwrap_or_default()) {
                let c = j.get("case").cloned().unwrap_or(j);
                if let Some(a) = c.as_array() {
                    v.extend(a.iter().cloned());
                } else {
                    v.push(c);
                }
            }
        }
    }
    v
}

fn main() {
    let a = parse_args();
    if a.extra.contains_key("worker") {
        return worker(&a);
    }
    let verif_root = a.extra.get("verif").cloned().unwrap_or_else(|| env!("CARGO_MANIFEST_DIR").to_string() + "/..");
    let mut res = RunResult::new("C14", &a);
    res.rule = "cases = (initial workspace, history, process cwd): 3-10 operations drawn from checkpoint create (Workspace API / ToolRunner + real hook; 1-4 paths: existing, missing, nested, './', '//', '/./', trailing '/', absolute inside the root, directories, the root, '..' and outside paths), harness edits (write, delete, mkdir, file replaced by a directory and back, rmtree), write / apply_patch (add, update, move, delete) through ToolRunner::run with auto-checkpoints, and rewinds to any earlier checkpoint in any order; cwd in {root, sibling, parent}; non-trivial = at least one successful create and one rewind".into();
    let n = if a.thorough() { 8000 } else { 400 };
    let mut r = Rng::new(a.seed);
    let mut jobs: Vec<Value> = if let Some(rp) = &a.replay {
        let j: Value = serde_json::from_str(&std::fs::read_to_string(rp).unwrap()).unwrap();
        vec![j.get("case").cloned().unwrap_or(j)]
    } else {
        corpus(&std::path::Path::new(&verif_root).join("corpus/C14"))
    };
    if a.replay.is_none() {
        for _ in 0..n {
            jobs.push(json!({"seed": r.next(), "cwd": r.below(3), "n_ops": r.range(3, 10)}));
        }
    }
    let obs = run_workers(&a.out, &jobs, 6, 3000);
    let mut w = CaseWriter::new(&a.out, "Model.Checkpoint", "check_case", "model_obs", 25);
    let mut distinct = Distinct::default();
    for (i, (j, o)) in jobs.iter().zip(obs.iter()).enumerate() {
        res.evaluations += 1;
        res.oracle_checks += 1;
        res.bump(&format!("cwd={}", j["cwd"]));
        if o.get("panicked").is_some() || o.get("crashed").is_some() {
            res.impl_panics += 1;
            res.oracle_violations.push(OracleViolation { case_id: i as i64, what: "checkpoint history panicked / the worker died".into(), class: "panic".into(), replay: j.clone() });
            continue;
        }
        let replay = o["replay"].clone();
        if let Some(st) = o["stats"].as_object() {
            for (k, v) in st {
                res.bump_by(k, v.as_u64().unwrap_or(0));
            }
        }
        for v in o["viol"].as_array().cloned().unwrap_or_default() {
            res.oracle_violations.push(OracleViolation { case_id: i as i64, what: v["what"].as_str().unwrap_or("").into(), class: v["class"].as_str().unwrap_or("").into(), replay: replay.clone() });
        }
        if !a.oracle_only() {
            let id = w.push(o["coq"].as_str().unwrap_or("").to_string());
            if res.case_index.len() < 1500 {
                res.case_index.insert(id.to_string(), replay.clone());
            }
        }
        let st = &o["stats"];
        if o["n_cks"].as_u64().unwrap_or(0) > 0 && (st["rewind-ok"].as_u64().unwrap_or(0) + st["rewind-failed"].as_u64().unwrap_or(0)) > 0 {
            distinct.add(&replay.to_string());
            if res.samples.len() < 2 && i % 13 == 4 {
                res.samples.push(replay.clone());
            }
        }
    }
    w.flush();
    res.distinct_nontrivial = distinct.count();
    res.case_files = w.files.iter().map(|p| p.display().to_string()).collect();
    res.write(&a.out);
    let mut classes = std::collections::BTreeMap::new();
    for v in &res.oracle_violations {
        *classes.entry(v.class.clone()).or_insert(0u64) += 1;
    }
    println!("c14: {} cases, {} distinct non-trivial, {} oracle violations {:?}, {} panics", res.evaluations, res.distinct_nontrivial, res.oracle_violations.len(), classes, res.impl_panics);
}
